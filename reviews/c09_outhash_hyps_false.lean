import GrogModel.Props.C09
open Grog

def allBytes : List UInt8 := (List.range 256).map UInt8.ofNat
theorem mem_allBytes (c : UInt8) : c ∈ allBytes := by
  refine List.mem_map.mpr ⟨c.toNat, List.mem_range.mpr c.toNat_lt, ?_⟩
  simp
def allW : Nat → List Bytes
  | 0 => [[]]
  | w+1 => allBytes.flatMap (fun c => (allW w).map (c :: ·))
theorem mem_allW : ∀ (w : Nat) (l : Bytes), l.length = w → l ∈ allW w
  | 0, l, h => by simp [allW, List.length_eq_zero_iff.mp h]
  | w+1, [], h => by simp at h
  | w+1, c :: t, h => by
    simp only [allW, List.mem_flatMap, List.mem_map]
    exact ⟨c, mem_allBytes c, t, mem_allW w t (by simpa using h), rfl⟩

/-- the hypotheses of `outHash_inj` / `outHash_outputs_inj` are jointly unsatisfiable -/
theorem hyps_false (H : Bytes → Bytes) (hH : ∀ x y, H x = H y → x = y) (w : Nat)
    (hlen : ∀ x, (H x).length = w) : False := by
  let N := (allW w).length
  let L := (List.range (N+1)).map (fun n => H (List.replicate n (0:UInt8)))
  have hnd : L.Nodup := by
    refine List.Pairwise.map _ ?_ List.nodup_range
    intro a b hab heq
    have := congrArg List.length (hH _ _ heq)
    exact hab (by simpa using this)
  have hsub : L ⊆ allW w := by
    intro x hx
    obtain ⟨n, _, rfl⟩ := List.mem_map.mp hx
    exact mem_allW w _ (hlen _)
  have := hnd.length_le_of_subset hsub
  simp [L, N] at this
  omega
#print axioms hyps_false
