import GrogModel.Props.ComposeBuild
open Grog Grog.Exec Grog.Build Grog.Compose

-- RealKey forces the command semantics to be blind to any two dependency values whose rendered output hashes coincide
theorem realKey_blind (R : Render) (run : Cmd → View → RunRes) (hR : RealKey R run)
    (c : Cmd) (o : OutDef) (v1 v2 : Val)
    (hcol : R.ohR (.outs [(o, v1)]) = R.ohR (.outs [(o, v2)])) :
    run c ⟨[], [(o.path, some v1)]⟩ = run c ⟨[], [(o.path, some v2)]⟩ := by
  have := hR.runCongr
    ⟨[], c, [], [], [.outs [(o, v1)]], [], []⟩
    ⟨[], c, [], [], [.outs [(o, v2)]], [], []⟩ rfl (fun _ => Iff.rfl) (by simp [hcol])
  simpa [viewOf, ohVals] using this

#print axioms realKey_blind
#check @RealKey.ohSmall
