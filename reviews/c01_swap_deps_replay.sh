#!/bin/sh
# Reviewer A: real-binary replay — stale cache hit when two dependencies swap their (same-named, package-relative) outputs.
# grog binary built from /repo HEAD (479fb37) with: cd /repo && GOFLAGS=-mod=mod GOPROXY=off go build -modfile=<copy of go.mod> -o $G .
set -e; R=${R:-/tmp/review/ra}; G=${G:-/tmp/review/b/grog}
rm -rf $R; mkdir -p $R/ws/a $R/ws/b $R/ws/c $R/root; cd $R/ws
echo 'hash_algorithm = "sha256"' > grog.toml
echo '{"targets":[{"name":"gen","command":"cat in.txt > out.txt","inputs":["in.txt"],"outputs":["out.txt"]}]}' > a/BUILD.json
cp a/BUILD.json b/BUILD.json
echo '{"targets":[{"name":"use","command":"echo ran >> ../trace.log; cat ../a/out.txt ../b/out.txt > res.txt","dependencies":["//a:gen","//b:gen"],"outputs":["res.txt"]}]}' > c/BUILD.json
echo X > a/in.txt; echo Y > b/in.txt
export GROG_ROOT=$R/root HOME=$R/root NO_COLOR=1 CI=0
$G build //... >/dev/null 2>&1; echo "build 1: $(tr '\n' ' ' < c/res.txt)"          # X Y
echo Y > a/in.txt; echo X > b/in.txt                                                  # swap
$G build //... 2>&1 | grep 'cache hit'; echo "build 2 (incremental): $(tr '\n' ' ' < c/res.txt)"   # X Y  (stale; //c:use is a cache hit)
mkdir $R/root2; rm -f a/out.txt b/out.txt c/res.txt
GROG_ROOT=$R/root2 HOME=$R/root2 $G build //... >/dev/null 2>&1; echo "clean build: $(tr '\n' ' ' < c/res.txt)"   # Y X
