import GrogModel.Lock
open Grog.Lock

/-- every step leaves the program counter of every process other than the event's index alone -/
theorem step_other {s s' : State} {e : Ev} (h : step s e = some s') :
    ∃ i, ∀ j, j ≠ i → s'.pc j = s.pc j := by
  cases e with
  | step i =>
    refine ⟨i, ?_⟩
    intro j hj
    simp only [step] at h
    (repeat' split at h) <;> simp at h <;> subst h <;>
      simp [State.pc, State.setPc, State.setProc, State.release, hj]
  | unlock i =>
    refine ⟨i, ?_⟩
    intro j hj
    simp only [step] at h
    (repeat' split at h) <;> simp at h <;> subst h <;>
      simp [State.pc, State.setPc, State.setProc, hj]
  | crash i =>
    refine ⟨i, ?_⟩
    intro j hj
    simp only [step] at h
    (repeat' split at h) <;> simp at h <;> subst h <;>
      simp [State.pc, State.setPc, State.setProc, State.releaseAll, hj]

theorem reach_cofinitely_idle {s : State} (h : Reach s) : ∃ N, ∀ j, N ≤ j → s.pc j = .idle := by
  induction h with
  | init pre => exact ⟨0, fun j _ => rfl⟩
  | step e _ hs ih =>
    obtain ⟨N, hN⟩ := ih
    obtain ⟨i, hi⟩ := step_other hs
    refine ⟨max N (i+1), fun j hj => ?_⟩
    have h1 : N ≤ j := Nat.le_trans (Nat.le_max_left _ _) hj
    have h2 : i + 1 ≤ j := Nat.le_trans (Nat.le_max_right _ _) hj
    rw [hi j (by omega)]; exact hN j h1

/-- the lock hypotheses of `Compose.next_build_ok` / `C10.stale_never_blocks_all_dead` are contradictory -/
theorem all_dead_unsat {s : State} (h : Reach s) (me : Nat) (hdead : ∀ j, j ≠ me → s.pc j = .dead) : False := by
  obtain ⟨N, hN⟩ := reach_cofinitely_idle h
  have h1 := hN (max N (me+1)) (Nat.le_max_left _ _)
  have h2 := hdead (max N (me+1)) (by have := Nat.le_max_right N (me+1); omega)
  rw [h1] at h2; cases h2
#print axioms all_dead_unsat
