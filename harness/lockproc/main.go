//go:build verif

// Command lockproc is one contender of the C10 step controller: a real OS process that runs the
// *current* internal/locking/workspace_locker.go (instrumented at check time with a yield before every
// file-system call) and executes exactly one such call per "s" command of the controller.
//
// Protocol (stdin/stdout, one line each way):
//
//	start                       -> "R <pid>"
//	"lock"                      -> runs Lock(); first reply is the first pending call
//	"unlock"                    -> runs Unlock(); first reply is the first pending call
//	"s"                         -> performs the pending call and runs to the next one
//	replies: "Y <call>"  a call is pending      "A"  Lock returned nil      "U"  Unlock returned nil
//	         "E <msg>"   Lock/Unlock returned an error                       "P <msg>" panic
//	"quit"                      -> exits without unlocking (like a failed build: os.Exit(1))
//
// A crash is the controller sending SIGKILL while the process waits for a command.
package main

import (
	"bufio"
	"context"
	"fmt"
	"os"
	"strings"
	"time"

	"go.uber.org/zap"
	"go.uber.org/zap/zapcore"

	"grog/internal/config"
	"grog/internal/console"
	"grog/internal/locking"
)

func main() {
	if len(os.Args) != 3 {
		fmt.Fprintln(os.Stderr, "usage: lockproc <grog root> <workspace root>")
		os.Exit(2)
	}
	proto := os.Stdout
	if null, err := os.OpenFile(os.DevNull, os.O_WRONLY, 0); err == nil {
		os.Stdout = null // the locker prints its waiting message with fmt.Printf
	}
	in := bufio.NewReader(os.Stdin)
	say := func(format string, a ...any) { fmt.Fprintf(proto, format+"\n", a...) }
	next := func() string {
		line, err := in.ReadString('\n')
		if err != nil {
			os.Exit(3)
		}
		return strings.TrimSpace(line)
	}
	config.Global.Root = os.Args[1]
	config.Global.WorkspaceRoot = os.Args[2]
	locking.VerifYield = func(call string) {
		say("Y %s", call)
		for {
			switch next() {
			case "s":
				return
			case "quit":
				os.Exit(1)
			}
		}
	}
	locking.VerifAfter = func(time.Duration) <-chan time.Time {
		locking.VerifYield("time.After")
		ch := make(chan time.Time, 1)
		ch <- time.Now()
		return ch
	}
	ctx := console.WithLogger(context.Background(), console.NewFromSugared(zap.NewNop().Sugar(), zapcore.FatalLevel))
	locker := locking.NewWorkspaceLocker()
	say("R %d", os.Getpid())
	guard := func(f func() error, okReply string) {
		defer func() {
			if r := recover(); r != nil {
				say("P %v", r)
			}
		}()
		if err := f(); err != nil {
			say("E %s", strings.ReplaceAll(err.Error(), "\n", " "))
		} else {
			say(okReply)
		}
	}
	for {
		switch next() {
		case "lock":
			guard(func() error { return locker.Lock(ctx) }, "A")
		case "unlock":
			guard(locker.Unlock, "U")
		case "quit":
			os.Exit(1)
		default:
			say("E unknown command")
		}
	}
}
