//go:build verif

package analysis

// C19 sub-tie: getAncestorSet (the memoised ancestor search of the output-conflict detection) against the
// step-count model `ancestorSetV` of the graph group. A TEST file on purpose (cf. zz_c11_verif_test.go): it is
// compiled only by `go test` of this package, so a change that removes or renames getAncestorSet costs only this
// sub-tie, never the grog binary or the shared driver.
// Requests: JSON lines {"n":N,"edges":[[a,b],..],"order":[v,..]} in $C19_REQ; replies {"sets":[[..],..]} in $C19_OUT.
// All queries of one request share one memo cache, in the given order, as in detectOutputConflicts.

import (
	"bufio"
	"encoding/json"
	"fmt"
	"os"
	"sort"
	"testing"

	"grog/internal/dag"
	"grog/internal/label"
	"grog/internal/model"
)

func TestVerifC19AncestorSets(t *testing.T) {
	in, err := os.Open(os.Getenv("C19_REQ"))
	if err != nil {
		t.Skip("no request file")
	}
	defer in.Close()
	out, err := os.Create(os.Getenv("C19_OUT"))
	if err != nil {
		t.Fatal(err)
	}
	defer out.Close()
	w := bufio.NewWriterSize(out, 1<<20)
	defer w.Flush()
	enc := json.NewEncoder(w)
	sc := bufio.NewScanner(in)
	sc.Buffer(make([]byte, 1<<20), 1<<26)
	for sc.Scan() {
		var req struct {
			N     int      `json:"n"`
			Edges [][2]int `json:"edges"`
			Order []int    `json:"order"`
		}
		if e := json.Unmarshal(sc.Bytes(), &req); e != nil {
			enc.Encode(map[string]any{"error": "parse: " + e.Error()})
			continue
		}
		g := dag.NewDirectedGraph()
		nodes := make([]model.BuildNode, req.N)
		idx := map[label.TargetLabel]int{}
		for i := range nodes {
			nodes[i] = &model.Target{Label: label.TargetLabel{Name: fmt.Sprintf("n%d", i)}}
			idx[nodes[i].GetLabel()] = i
			g.AddNode(nodes[i])
		}
		ok := true
		for _, e := range req.Edges {
			if e[0] < 0 || e[0] >= req.N || e[1] < 0 || e[1] >= req.N || g.AddEdge(nodes[e[0]], nodes[e[1]]) != nil {
				ok = false
				break
			}
		}
		if !ok {
			enc.Encode(map[string]any{"error": "addedge"})
			continue
		}
		cache := make(map[label.TargetLabel]map[label.TargetLabel]struct{})
		sets := make([][]int, 0, len(req.Order))
		for _, v := range req.Order {
			set := getAncestorSet(g, nodes[v], cache)
			l := make([]int, 0, len(set))
			for k := range set {
				l = append(l, idx[k])
			}
			sort.Ints(l)
			sets = append(sets, l)
		}
		enc.Encode(map[string]any{"sets": sets})
	}
}
