//go:build verif

package analysis

// C11 correspondence: the unexported path predicates and the memoised ancestor search, driven directly.
// This is a TEST file on purpose: it is compiled only by `go test` of this package, so a refactoring that removes
// one of these functions breaks only this sub-tie, never the grog binary or the shared driver built with the overlay.
// Requests: JSON lines in $C11_REQ, replies: JSON lines in $C11_OUT (same protocol as verifdrv).

import (
	"bufio"
	"encoding/json"
	"os"
	"testing"

	"grog/internal/dag"
	"grog/internal/label"
	"grog/internal/model"
)

func c11b2s(v any) string {
	s, _ := v.(string)
	out := make([]byte, 0, len(s))
	for _, r := range s {
		out = append(out, byte(r))
	}
	return string(out)
}

func c11s2b(s string) string {
	out := make([]rune, 0, len(s))
	for i := 0; i < len(s); i++ {
		out = append(out, rune(s[i]))
	}
	return string(out)
}

func c11label(v any) label.TargetLabel {
	m, _ := v.(map[string]any)
	return label.TargetLabel{Package: c11b2s(m["pkg"]), Name: c11b2s(m["name"])}
}

func c11jlabel(l label.TargetLabel) map[string]any {
	return map[string]any{"pkg": c11s2b(l.Package), "name": c11s2b(l.Name)}
}

func c11list(v any) []any {
	a, _ := v.([]any)
	return a
}

func c11graph(req map[string]any) (*dag.DirectedTargetGraph, map[label.TargetLabel]model.BuildNode, error) {
	var nodes []model.BuildNode
	byLabel := map[label.TargetLabel]model.BuildNode{}
	for _, nv := range c11list(req["nodes"]) {
		nm, _ := nv.(map[string]any)
		t := &model.Target{Label: c11label(nm["label"])}
		for _, d := range c11list(nm["deps"]) {
			t.Dependencies = append(t.Dependencies, c11label(d))
		}
		nodes = append(nodes, t)
		byLabel[t.Label] = t
	}
	g := dag.NewDirectedGraphFromTargets(nodes...)
	for _, n := range nodes {
		for _, d := range n.GetDependencies() {
			if err := g.AddEdge(byLabel[d], n); err != nil {
				return nil, nil, err
			}
		}
	}
	return g, byLabel, nil
}

func c11handle(req map[string]any) any {
	op, _ := req["op"].(string)
	switch op {
	case "analysis.pathfn":
		fn, _ := req["fn"].(string)
		switch fn {
		case "within":
			return map[string]any{"r": pathWithin(c11b2s(req["p"]), c11b2s(req["d"]))}
		case "overlap":
			return map[string]any{"r": pathsOverlap(c11b2s(req["p"]), c11b2s(req["d"]))}
		case "escape":
			return map[string]any{"r": pathTriesToEscape(c11b2s(req["p"]))}
		case "withinws":
			r, err := isWithinWorkspace(c11b2s(req["ws"]), c11b2s(req["pkg"]), c11b2s(req["rel"]))
			if err != nil {
				return map[string]any{"r": "error"}
			}
			return map[string]any{"r": r}
		case "cleanout":
			t := &model.Target{Label: label.TargetLabel{Package: c11b2s(req["pkg"])}}
			return map[string]any{"r": c11s2b(cleanOutputPath(t, c11b2s(req["out"])))}
		}
		return map[string]any{"error": "unknown fn " + fn}
	case "analysis.ancestors":
		g, byLabel, err := c11graph(req)
		if err != nil {
			return map[string]any{"error": err.Error()}
		}
		// one memo table shared by all queries, as in detectOutputConflicts
		cache := make(map[label.TargetLabel]map[label.TargetLabel]struct{})
		sets := []any{}
		for _, q := range c11list(req["queries"]) {
			ls := []any{}
			for l := range getAncestorSet(g, byLabel[c11label(q)], cache) {
				ls = append(ls, c11jlabel(l))
			}
			sets = append(sets, ls)
		}
		return map[string]any{"sets": sets}
	case "analysis.ordered":
		g, byLabel, err := c11graph(req)
		if err != nil {
			return map[string]any{"error": err.Error()}
		}
		cache := make(map[label.TargetLabel]map[label.TargetLabel]struct{})
		rs := []bool{}
		for _, pv := range c11list(req["pairs"]) {
			p := c11list(pv)
			rs = append(rs, targetsAreOrdered(g, byLabel[c11label(p[0])], byLabel[c11label(p[1])], cache))
		}
		return map[string]any{"r": rs}
	}
	return map[string]any{"error": "unknown op " + op}
}

func TestVerifC11Direct(t *testing.T) {
	in, err := os.Open(os.Getenv("C11_REQ"))
	if err != nil {
		t.Skip("no request file")
	}
	defer in.Close()
	out, err := os.Create(os.Getenv("C11_OUT"))
	if err != nil {
		t.Fatal(err)
	}
	defer out.Close()
	w := bufio.NewWriterSize(out, 1<<20)
	defer w.Flush()
	enc := json.NewEncoder(w)
	enc.SetEscapeHTML(false)
	sc := bufio.NewScanner(in)
	sc.Buffer(make([]byte, 1<<20), 1<<26)
	for sc.Scan() {
		var req map[string]any
		if e := json.Unmarshal(sc.Bytes(), &req); e != nil {
			enc.Encode(map[string]any{"error": "parse: " + e.Error()})
			continue
		}
		func() {
			defer func() {
				if r := recover(); r != nil {
					enc.Encode(map[string]any{"panic": "panic"})
				}
			}()
			enc.Encode(c11handle(req))
		}()
	}
}
