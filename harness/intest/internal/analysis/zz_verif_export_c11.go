//go:build verif

package analysis

// Exports of unexported functions for the C11 correspondence driver (overlay only, never committed).

import (
	"grog/internal/dag"
	"grog/internal/label"
	"grog/internal/model"
)

func VerifPathWithin(path, dir string) bool { return pathWithin(path, dir) }

func VerifPathsOverlap(a, b string) bool { return pathsOverlap(a, b) }

func VerifPathTriesToEscape(p string) bool { return pathTriesToEscape(p) }

func VerifIsWithinWorkspace(ws, pkg, rel string) (bool, error) {
	return isWithinWorkspace(ws, pkg, rel)
}

func VerifCleanOutputPath(pkg, out string) string {
	return cleanOutputPath(&model.Target{Label: label.TargetLabel{Package: pkg}}, out)
}

// VerifOrderedQueries answers a sequence of targetsAreOrdered queries with ONE shared ancestor cache,
// as detectOutputConflicts does.
func VerifOrderedQueries(graph *dag.DirectedTargetGraph, pairs [][2]model.BuildNode) []bool {
	cache := make(map[label.TargetLabel]map[label.TargetLabel]struct{})
	out := make([]bool, 0, len(pairs))
	for _, p := range pairs {
		out = append(out, targetsAreOrdered(graph, p[0], p[1], cache))
	}
	return out
}

// VerifAncestorSets returns getAncestorSet for each queried node, again with one shared cache.
func VerifAncestorSets(graph *dag.DirectedTargetGraph, nodes []model.BuildNode) [][]label.TargetLabel {
	cache := make(map[label.TargetLabel]map[label.TargetLabel]struct{})
	var out [][]label.TargetLabel
	for _, n := range nodes {
		set := getAncestorSet(graph, n, cache)
		var ls []label.TargetLabel
		for l := range set {
			ls = append(ls, l)
		}
		out = append(out, ls)
	}
	return out
}
