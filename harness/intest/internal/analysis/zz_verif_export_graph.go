//go:build verif

package analysis

// Overlaid into package analysis at check time (never committed to grog): lets the correspondence driver
// call the unexported getAncestorSet of output_conflicts.go (graph group, C19).

import (
	"grog/internal/dag"
	"grog/internal/label"
	"grog/internal/model"
)

// VerifAncestorSet calls getAncestorSet with the caller's memo cache.
func VerifAncestorSet(graph *dag.DirectedTargetGraph, node model.BuildNode,
	cache map[label.TargetLabel]map[label.TargetLabel]struct{}) map[label.TargetLabel]struct{} {
	return getAncestorSet(graph, node, cache)
}
