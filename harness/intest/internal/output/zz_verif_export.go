//go:build verif

package output

import "grog/internal/proto/gen"

// VerifGetOutputHash exposes getOutputHash to the verification driver (overlay only; never committed).
func VerifGetOutputHash(outputs []*gen.Output) (string, error) { return getOutputHash(outputs) }
