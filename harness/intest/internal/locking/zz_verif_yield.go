//go:build verif

package locking

import "time"

// Hooks for the C10 step controller. They are referenced only by the copy of workspace_locker.go that
// /verif/tools/instrument writes into the build overlay at check time (a yield before every file-system
// call, time.After replaced); in every other build they are dead code.

// VerifYield, when set, is called before every file-system / process primitive of the locker with the
// name of the call that is about to happen; it returns when the controller lets the process continue.
var VerifYield func(call string)

// VerifAfter, when set, replaces time.After inside the locker.
var VerifAfter func(d time.Duration) <-chan time.Time

func verifYield(call string) {
	if VerifYield != nil {
		VerifYield(call)
	}
}

func verifAfter(d time.Duration) <-chan time.Time {
	if VerifAfter != nil {
		return VerifAfter(d)
	}
	return time.After(d)
}
