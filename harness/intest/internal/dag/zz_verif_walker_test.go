//go:build verif

package dag

// Overlay-added test (never committed to grog): runs the real Walker on generated cases
//   - inside a testing/synctest bubble: a deadlock of Walk (all goroutines durably blocked) is
//     reported instead of hanging, latencies are virtual time;
//   - outside a bubble, for `go test -race`: unsynchronised accesses are reported per case.
// Cases are read from the JSON file named by VERIF_WALKER_CASES, one result line per case is
// appended to VERIF_WALKER_OUT.

import (
	"context"
	"encoding/json"
	"errors"
	"fmt"
	"os"
	"runtime"
	"sync"
	"testing"
	"testing/synctest"
	"time"

	"go.uber.org/zap"
	"go.uber.org/zap/zapcore"

	"grog/internal/console"
	"grog/internal/label"
	"grog/internal/model"
)

type verifCase struct {
	Id                int      `json:"id"`
	N                 int      `json:"n"`
	Edges             [][2]int `json:"edges"`
	Unsel             []int    `json:"unsel"`
	FailFast          bool     `json:"failFast"`
	Fail              []int    `json:"fail"`
	LatUs             []int    `json:"latUs"`
	OnCancel          []string `json:"onCancel"`
	FailKind          []string `json:"failKind"`
	Yield             bool     `json:"yield"`
	CancelAfterEvents int      `json:"cancelAfterEvents"`
}

type verifResult struct {
	Id          int      `json:"id"`
	Returned    bool     `json:"returned"`
	Deadlock    bool     `json:"deadlock"`
	Panic       string   `json:"panic,omitempty"`
	Err         string   `json:"err"`
	Trace       [][]any  `json:"trace"`
	Completions [][2]any `json:"completions"`
}

func verifLoadCases(t *testing.T) []verifCase {
	path := os.Getenv("VERIF_WALKER_CASES")
	if path == "" {
		t.Skip("VERIF_WALKER_CASES not set")
	}
	raw, err := os.ReadFile(path)
	if err != nil {
		t.Fatal(err)
	}
	var cases []verifCase
	if err := json.Unmarshal(raw, &cases); err != nil {
		t.Fatal(err)
	}
	return cases
}

var verifOutMu sync.Mutex

func verifEmit(t *testing.T, r verifResult) {
	verifOutMu.Lock()
	defer verifOutMu.Unlock()
	f, err := os.OpenFile(os.Getenv("VERIF_WALKER_OUT"), os.O_APPEND|os.O_CREATE|os.O_WRONLY, 0644)
	if err != nil {
		t.Fatal(err)
	}
	defer f.Close()
	b, _ := json.Marshal(r)
	f.Write(append(b, '\n'))
}

// verifWalk runs one case on the real walker and fills res. It returns when Walk has returned and the
// callbacks still in flight have ended.
func verifWalk(vc verifCase, res *verifResult, settle func()) {
	logger := console.NewFromSugared(zap.NewNop().Sugar(), zapcore.ErrorLevel)
	parent, cancel := context.WithCancel(console.WithLogger(context.Background(), logger))
	defer cancel()
	unsel := map[int]bool{}
	for _, u := range vc.Unsel {
		unsel[u] = true
	}
	nodes := make([]*model.Target, vc.N)
	idx := map[label.TargetLabel]int{}
	g := NewDirectedGraph()
	for i := 0; i < vc.N; i++ {
		nodes[i] = &model.Target{Label: label.TargetLabel{Package: "p", Name: fmt.Sprintf("n%d", i)}, IsSelected: !unsel[i]}
		idx[nodes[i].Label] = i
		g.AddNode(nodes[i])
	}
	for _, e := range vc.Edges {
		g.AddEdge(nodes[e[0]], nodes[e[1]])
	}
	failing := map[int]bool{}
	for _, f := range vc.Fail {
		failing[f] = true
	}
	var mu sync.Mutex
	inflight := 0
	cancelled := false
	closed := false // set (under mu) when the result is handed back: later events are dropped
	add := func(ev ...any) {
		if closed {
			return
		}
		res.Trace = append(res.Trace, ev)
		if vc.CancelAfterEvents >= 0 && !cancelled && len(res.Trace) >= vc.CancelAfterEvents {
			cancelled = true
			res.Trace = append(res.Trace, []any{"c"})
			cancel()
		}
	}
	callback := func(ctx context.Context, node model.BuildNode) (CacheResult, error) {
		i := idx[node.GetLabel()]
		mu.Lock()
		inflight++
		add("s", i)
		mu.Unlock()
		r := "ok"
		if failing[i] {
			r = "fail"
		}
		lat := 0
		if i < len(vc.LatUs) {
			lat = vc.LatUs[i]
		}
		if lat > 0 {
			select {
			case <-time.After(time.Duration(lat) * time.Microsecond):
			case <-ctx.Done():
				oc := "abort"
				if i < len(vc.OnCancel) {
					oc = vc.OnCancel[i]
				}
				if oc == "abort" {
					r = "cancelled"
				} else if oc == "fail" {
					r = "fail"
				}
			}
		} else if vc.Yield {
			runtime.Gosched()
		}
		mu.Lock()
		inflight--
		add("e", i, r)
		mu.Unlock()
		switch r {
		case "ok":
			return CacheMiss, nil
		case "cancelled":
			return CacheMiss, fmt.Errorf("interrupted: %w", context.Canceled)
		}
		if i < len(vc.FailKind) && vc.FailKind[i] == "spurious-cancel" {
			return CacheMiss, fmt.Errorf("remote cache: %w", context.Canceled)
		}
		if i < len(vc.FailKind) && vc.FailKind[i] == "deadline" {
			return CacheMiss, fmt.Errorf("timeout after 1s: %w", context.DeadlineExceeded)
		}
		return CacheMiss, errors.New("target failed")
	}
	if vc.CancelAfterEvents == 0 {
		mu.Lock()
		add()
		res.Trace = res.Trace[:0]
		res.Trace = append(res.Trace, []any{"c"})
		mu.Unlock()
	}
	walker := NewWalker(g, callback, vc.FailFast)
	cm, err := walker.Walk(parent)
	mu.Lock()
	res.Returned = true
	res.Trace = append(res.Trace, []any{"r", err != nil})
	mu.Unlock()
	res.Err = "none"
	if err != nil {
		res.Err = "other"
		if errors.Is(err, context.Canceled) {
			res.Err = "canceled"
		}
	}
	for lbl, c := range cm {
		res.Completions = append(res.Completions, [2]any{idx[lbl], c.IsSuccess})
	}
	// wait for the callbacks still in flight (Walk may have returned through ctx.Done) and give
	// routines that hold both a ready and a cancel message the chance to choose
	for round := 0; ; round++ {
		settle()
		mu.Lock()
		n := inflight
		mu.Unlock()
		if n == 0 && round > 0 {
			break
		}
		time.Sleep(200 * time.Microsecond)
	}
	mu.Lock()
	closed = true
	mu.Unlock()
}

// TestVerifWalkerSynctest: every case in its own bubble; a deadlock is recovered and reported.
func TestVerifWalkerSynctest(t *testing.T) {
	for _, vc := range verifLoadCases(t) {
		res := verifResult{Id: vc.Id}
		func() {
			defer func() {
				if r := recover(); r != nil {
					msg := fmt.Sprint(r)
					res.Panic = msg
					if len(msg) >= 8 && msg[:8] == "deadlock" {
						res.Deadlock = true
					}
				}
			}()
			synctest.Test(t, func(t *testing.T) {
				verifWalk(vc, &res, synctest.Wait)
			})
		}()
		verifEmit(t, res)
	}
}

// TestVerifWalkerRace: the same cases on real goroutines, one subtest per case (run with -race).
func TestVerifWalkerRace(t *testing.T) {
	hangs := 0
	for _, vc := range verifLoadCases(t) {
		vc := vc
		if hangs >= 3 {
			break // enough evidence; every further hang costs the full time bound
		}
		t.Run(fmt.Sprintf("case%d", vc.Id), func(t *testing.T) {
			res := verifResult{Id: vc.Id}
			done := make(chan struct{})
			go func() {
				defer close(done)
				verifWalk(vc, &res, func() { time.Sleep(2 * time.Millisecond) })
			}()
			select {
			case <-done:
			case <-time.After(20 * time.Second):
				// Walk is stuck: report without touching res (still owned by the stuck goroutine)
				hangs++
				verifEmit(t, verifResult{Id: vc.Id, Deadlock: true, Err: "timeout"})
				t.Errorf("case %d: Walk did not return", vc.Id)
				return
			}
			verifEmit(t, res)
		})
	}
}

// ---------------------------------------------------------------------------------------------
// Step-level correspondence of onComplete / startNode / cancelNode / cancelAll: no node routines are
// started; the test completes nodes one at a time (only nodes that hold a ready message, in a seeded
// random order) by calling the real onComplete and records, after the asynchronous senders have
// settled, which nodes hold a ready message and whose cancel channel is closed.
// ---------------------------------------------------------------------------------------------

type verifStepResult struct {
	Id    int     `json:"id"`
	Steps [][]any `json:"steps"` // [node, success, readyBits, cancelBits, failFastTriggered, ctxCancelled]
	Panic string  `json:"panic,omitempty"`
}

func verifBits(n int, f func(i int) bool) string {
	b := make([]byte, n)
	for i := 0; i < n; i++ {
		if f(i) {
			b[i] = '1'
		} else {
			b[i] = '0'
		}
	}
	return string(b)
}

func verifOnCompleteSteps(vc verifCase, res *verifStepResult) {
	logger := console.NewFromSugared(zap.NewNop().Sugar(), zapcore.ErrorLevel)
	ctx, cancel := context.WithCancel(console.WithLogger(context.Background(), logger))
	defer cancel()
	unsel := map[int]bool{}
	for _, u := range vc.Unsel {
		unsel[u] = true
	}
	nodes := make([]*model.Target, vc.N)
	g := NewDirectedGraph()
	for i := 0; i < vc.N; i++ {
		nodes[i] = &model.Target{Label: label.TargetLabel{Package: "p", Name: fmt.Sprintf("n%d", i)}, IsSelected: !unsel[i]}
		g.AddNode(nodes[i])
	}
	for _, e := range vc.Edges {
		g.AddEdge(nodes[e[0]], nodes[e[1]])
	}
	failing := map[int]bool{}
	for _, f := range vc.Fail {
		failing[f] = true
	}
	w := NewWalker(g, func(ctx context.Context, node model.BuildNode) (CacheResult, error) { return CacheMiss, nil }, vc.FailFast)
	w.allCancel = cancel
	infos := make([]*nodeInfo, vc.N)
	for i := 0; i < vc.N; i++ {
		if unsel[i] {
			continue
		}
		// no routine consumes the ready messages here, and a dependency listed twice sends two of them: give the
		// channel room (Walk uses capacity 1 and a consumer) - only "holds a ready message" is compared
		infos[i] = &nodeInfo{done: make(chan Completion, 1), ready: make(chan interface{}, 64), cancel: make(chan interface{}, 1)}
		w.nodeInfoMap[nodes[i].Label] = infos[i]
	}
	for i := 0; i < vc.N; i++ {
		if !unsel[i] && len(g.inEdges[nodes[i].Label]) == 0 {
			w.startNode(nodes[i])
		}
	}
	synctest.Wait()
	ready := func(i int) bool { return infos[i] != nil && len(infos[i].ready) > 0 }
	cancelled := func(i int) bool {
		if infos[i] == nil {
			return false
		}
		select {
		case <-infos[i].cancel:
			return true
		default:
			return false
		}
	}
	completed := map[int]bool{}
	seed := uint32(vc.Id*7919 + 17)
	for {
		var cand []int
		for i := 0; i < vc.N; i++ {
			if ready(i) && !completed[i] {
				cand = append(cand, i)
			}
		}
		if len(cand) == 0 {
			break
		}
		seed = seed*1664525 + 1013904223
		i := cand[int(seed>>8)%len(cand)]
		completed[i] = true
		ok := !failing[i]
		w.onComplete(nodes[i], Completion{IsSuccess: ok})
		synctest.Wait()
		res.Steps = append(res.Steps, []any{i, ok, verifBits(vc.N, ready), verifBits(vc.N, cancelled), w.failFastTriggered, ctx.Err() != nil})
	}
}

func TestVerifOnCompleteSteps(t *testing.T) {
	for _, vc := range verifLoadCases(t) {
		res := verifStepResult{Id: vc.Id}
		func() {
			defer func() {
				if r := recover(); r != nil {
					res.Panic = fmt.Sprint(r)
				}
			}()
			synctest.Test(t, func(t *testing.T) { verifOnCompleteSteps(vc, &res) })
		}()
		verifOutMu.Lock()
		f, err := os.OpenFile(os.Getenv("VERIF_WALKER_OUT"), os.O_APPEND|os.O_CREATE|os.O_WRONLY, 0644)
		if err == nil {
			b, _ := json.Marshal(res)
			f.Write(append(b, '\n'))
			f.Close()
		}
		verifOutMu.Unlock()
	}
}
