//go:build verif

package dag

// A signal that arrives before the execution phase (BUILD-file loading, selection and an uncontended lock do not look at
// the context): Walk is entered with an already cancelled context and every target's callback reports context.Canceled
// at once. Walk must not report success: either an error, or a failure among the completions, or every target built.
// Writes {"n":..,"walks":..,"silent":..} lines to VERIF_WALKER_OUT.

import (
	"context"
	"encoding/json"
	"fmt"
	"os"
	"strconv"
	"testing"

	"go.uber.org/zap"
	"go.uber.org/zap/zapcore"

	"grog/internal/console"
	"grog/internal/label"
	"grog/internal/model"
)

func TestVerifPreCancelled(t *testing.T) {
	walks, _ := strconv.Atoi(os.Getenv("VERIF_PRECANCEL_WALKS"))
	if walks == 0 {
		t.Skip("VERIF_PRECANCEL_WALKS not set")
	}
	logger := console.NewFromSugared(zap.NewNop().Sugar(), zapcore.ErrorLevel)
	out, err := os.OpenFile(os.Getenv("VERIF_WALKER_OUT"), os.O_APPEND|os.O_CREATE|os.O_WRONLY, 0644)
	if err != nil {
		t.Fatal(err)
	}
	defer out.Close()
	for _, n := range []int{1, 4, 64} {
		silent := 0
		for iter := 0; iter < walks; iter++ {
			g := NewDirectedGraph()
			for i := 0; i < n; i++ {
				g.AddNode(&model.Target{Label: label.TargetLabel{Package: "p", Name: fmt.Sprintf("t%d", i)}, IsSelected: true})
			}
			ctx, cancel := context.WithCancel(console.WithLogger(context.Background(), logger))
			cancel()
			cb := func(ctx context.Context, node model.BuildNode) (CacheResult, error) { return CacheMiss, ctx.Err() }
			m, werr := NewWalker(g, cb, false).Walk(ctx)
			if werr == nil && len(m.GetErrors()) == 0 && len(m) < n {
				silent++
			}
		}
		b, _ := json.Marshal(map[string]int{"n": n, "walks": walks, "silent": silent})
		out.Write(append(b, '\n'))
	}
}
