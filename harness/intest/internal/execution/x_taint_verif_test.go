//go:build verif

package execution

// Overlaid into grog/internal/execution by the C13 check (never committed to grog).
// Question asked of the real Executor: when Execute has returned after a tainted target was
// executed successfully, is the taint gone? The taint store is slowed down (Delete takes longer
// than everything Execute does after the target's task) so that an un-awaited clear loses the race
// deterministically, as it would against a remote cache backend at process exit.

import (
	"context"
	"io"
	"os"
	"path/filepath"
	"testing"
	"time"

	"grog/internal/analysis"
	"grog/internal/caching"
	"grog/internal/caching/backends"
	"grog/internal/config"
	"grog/internal/label"
	"grog/internal/model"
	"grog/internal/output"
)

type slowDeleteBackend struct {
	backends.CacheBackend
	delay time.Duration
}

func (s *slowDeleteBackend) Delete(ctx context.Context, path, key string) error {
	time.Sleep(s.delay)
	return s.CacheBackend.Delete(ctx, path, key)
}

func (s *slowDeleteBackend) Get(ctx context.Context, path, key string) (io.ReadCloser, error) {
	return s.CacheBackend.Get(ctx, path, key)
}

func TestVerifTaintConsumedWhenBuildReturns(t *testing.T) {
	tmp := t.TempDir()
	ws := filepath.Join(tmp, "ws")
	if err := os.MkdirAll(filepath.Join(ws, "p"), 0o755); err != nil {
		t.Fatal(err)
	}
	config.Global = config.WorkspaceConfig{
		Root: filepath.Join(tmp, "root"), WorkspaceRoot: ws, NumWorkers: 2, EnableCache: true,
		LoadOutputs: "all", HashAlgorithm: "xxh3", OS: "linux", Arch: "amd64", LogLevel: "error",
	}
	ctx := context.Background()
	fs, err := backends.NewFileSystemCache(ctx)
	if err != nil {
		t.Fatal(err)
	}
	slow := &slowDeleteBackend{CacheBackend: fs, delay: 1500 * time.Millisecond}
	lbl := label.TargetLabel{Package: "p", Name: "a"}

	build := func() *model.Target {
		target := &model.Target{Label: lbl, Command: "echo hi > out.txt", Outputs: []model.Output{model.NewOutput("file", "out.txt")}, IsSelected: true}
		graph, err := analysis.BuildGraph(model.BuildNodeMap{lbl: target})
		if err != nil {
			t.Fatal(err)
		}
		cas := caching.NewCas(slow)
		ex := NewExecutor(caching.NewTargetResultCache(slow), caching.NewTaintCache(slow), output.NewRegistry(ctx, cas),
			graph, false, false, true, config.LoadOutputsAll)
		cm, err := ex.Execute(ctx)
		if err != nil {
			t.Fatalf("execute: %v", err)
		}
		if errs := cm.GetErrors(); len(errs) > 0 {
			t.Fatalf("target failed: %v", errs)
		}
		return target
	}

	build() // populate the cache
	taint := caching.NewTaintCache(slow)
	if err := taint.Taint(ctx, lbl); err != nil {
		t.Fatal(err)
	}
	build() // tainted: must execute, and consume the taint
	still, err := taint.IsTainted(ctx, lbl)
	if err != nil {
		t.Fatal(err)
	}
	if still {
		t.Fatalf("VERIF-TAINT-NOT-CONSUMED: the build returned after executing the tainted target, the taint marker is still present")
	}
}
