//go:build verif

package execution

// Overlaid into grog/internal/execution by the C15 check (never committed to grog).
// Cache fault while dependency outputs are being loaded in load_outputs=minimal: the stored result of a
// dependency cannot be read when LoadDependencyOutputs asks for it (it could still be read a moment earlier, when
// the dependency itself was decided). Question asked of the real Executor: does the command of the dependant still
// find the outputs of ALL its direct dependencies, and does a re-run dependency find the outputs of its own?

import (
	"context"
	"errors"
	"io"
	"os"
	"path/filepath"
	"sync"
	"testing"

	"grog/internal/analysis"
	"grog/internal/caching"
	"grog/internal/caching/backends"
	"grog/internal/config"
	"grog/internal/label"
	"grog/internal/model"
	"grog/internal/output"
)

// failNthGet fails the n-th Get of one key in one namespace (n counted per process of one build)
type failNthGet struct {
	backends.CacheBackend
	mu    sync.Mutex
	path  string
	key   string
	n     int
	count int
}

func (f *failNthGet) Get(ctx context.Context, path, key string) (io.ReadCloser, error) {
	f.mu.Lock()
	hit := path == f.path && key == f.key
	if hit {
		f.count++
	}
	fail := hit && f.count == f.n
	f.mu.Unlock()
	if fail {
		return nil, errors.New("injected cache fault: result cannot be read")
	}
	return f.CacheBackend.Get(ctx, path, key)
}

type verifTargetSpec struct {
	name, command string
	deps          []string
	out           string
}

func verifBuild(t *testing.T, backend backends.CacheBackend, mode config.LoadOutputsMode, specs []verifTargetSpec) (map[string]*model.Target, bool) {
	ctx := context.Background()
	nodes := model.BuildNodeMap{}
	targets := map[string]*model.Target{}
	for _, s := range specs {
		lbl := label.TargetLabel{Package: "p", Name: s.name}
		var deps []label.TargetLabel
		for _, d := range s.deps {
			deps = append(deps, label.TargetLabel{Package: "p", Name: d})
		}
		tg := &model.Target{Label: lbl, Command: s.command, Dependencies: deps,
			Outputs: []model.Output{model.NewOutput("file", s.out)}, IsSelected: true}
		nodes[lbl] = tg
		targets[s.name] = tg
	}
	graph, err := analysis.BuildGraph(nodes)
	if err != nil {
		t.Fatal(err)
	}
	cas := caching.NewCas(backend)
	ex := NewExecutor(caching.NewTargetResultCache(backend), caching.NewTaintCache(backend), output.NewRegistry(ctx, cas),
		graph, false, false, true, mode)
	cm, err := ex.Execute(ctx)
	if err != nil {
		t.Fatalf("execute: %v", err)
	}
	return targets, len(cm.GetErrors()) == 0
}

func verifSetup(t *testing.T) (string, backends.CacheBackend) {
	tmp := t.TempDir()
	ws := filepath.Join(tmp, "ws")
	if err := os.MkdirAll(filepath.Join(ws, "p"), 0o755); err != nil {
		t.Fatal(err)
	}
	config.Global = config.WorkspaceConfig{
		Root: filepath.Join(tmp, "root"), WorkspaceRoot: ws, NumWorkers: 1, EnableCache: true,
		LoadOutputs: "all", HashAlgorithm: "xxh3", OS: "linux", Arch: "amd64", LogLevel: "error",
	}
	fs, err := backends.NewFileSystemCache(context.Background())
	if err != nil {
		t.Fatal(err)
	}
	return filepath.Join(ws, "p"), fs
}

// t depends on d1 and d2; d1's result becomes unreadable when t loads its dependencies: d2 must still be loaded.
func TestVerifLoadFaultRemainingDependencies(t *testing.T) {
	pkg, fs := verifSetup(t)
	specs := []verifTargetSpec{
		{"d1", "echo d1 > d1.txt", nil, "d1.txt"},
		{"d2", "echo d2 > d2.txt", nil, "d2.txt"},
		{"t", "cat d1.txt d2.txt > t.txt", []string{"d1", "d2"}, "t.txt"},
	}
	first, ok := verifBuild(t, fs, config.LoadOutputsAll, specs)
	if !ok {
		t.Fatal("populating build failed")
	}
	for _, f := range []string{"d1.txt", "d2.txt", "t.txt"} {
		os.Remove(filepath.Join(pkg, f))
	}
	specs[2].command = "cat d1.txt d2.txt > t.txt; true"
	faulty := &failNthGet{CacheBackend: fs, path: "target", key: first["d1"].ChangeHash, n: 2}
	_, ok = verifBuild(t, faulty, config.LoadOutputsMinimal, specs)
	got, _ := os.ReadFile(filepath.Join(pkg, "t.txt"))
	if faulty.count < 2 {
		t.Fatalf("fault not injected (count=%d)", faulty.count)
	}
	if !ok || string(got) != "d1\nd2\n" {
		t.Fatalf("VERIF-LOADFAULT-DEP-MISSING: after a fault on the result of the first dependency the dependant ran without the outputs of the remaining dependency (ok=%v, t.txt=%q)", ok, got)
	}
}

// e <- d <- t; d's result becomes unreadable when t loads its dependencies: the re-run of d must find e's output.
func TestVerifLoadFaultDependencyOfRerun(t *testing.T) {
	pkg, fs := verifSetup(t)
	specs := []verifTargetSpec{
		{"e", "echo e > e.txt", nil, "e.txt"},
		{"d", "cat e.txt > d.txt", []string{"e"}, "d.txt"},
		{"t", "cat d.txt > t.txt", []string{"d"}, "t.txt"},
	}
	first, ok := verifBuild(t, fs, config.LoadOutputsAll, specs)
	if !ok {
		t.Fatal("populating build failed")
	}
	for _, f := range []string{"e.txt", "d.txt", "t.txt"} {
		os.Remove(filepath.Join(pkg, f))
	}
	specs[2].command = "cat d.txt > t.txt; true"
	faulty := &failNthGet{CacheBackend: fs, path: "target", key: first["d"].ChangeHash, n: 2}
	_, ok = verifBuild(t, faulty, config.LoadOutputsMinimal, specs)
	got, _ := os.ReadFile(filepath.Join(pkg, "t.txt"))
	if faulty.count < 2 {
		t.Fatalf("fault not injected (count=%d)", faulty.count)
	}
	if !ok || string(got) != "e\n" {
		t.Fatalf("VERIF-LOADFAULT-RERUN-WITHOUT-DEPS: the dependency re-run after the fault did not find its own dependency's output (ok=%v, t.txt=%q)", ok, got)
	}
}
