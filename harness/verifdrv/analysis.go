//go:build verif

package main

import (
	"fmt"
	"path/filepath"
	"strings"

	"go.uber.org/zap"
	"go.uber.org/zap/zapcore"

	"grog/internal/analysis"
	"grog/internal/config"
	"grog/internal/console"
	"grog/internal/dag"
	"grog/internal/label"
	"grog/internal/model"
)

func getLabel(v any) label.TargetLabel {
	m, _ := v.(map[string]any)
	return label.TargetLabel{Package: b2s(m["pkg"]), Name: b2s(m["name"])}
}

func jLabel(l label.TargetLabel) map[string]any {
	return map[string]any{"pkg": s2b(l.Package), "name": s2b(l.Name)}
}

func anyList(v any) []any {
	a, _ := v.([]any)
	return a
}

func buildTarget(v any) *model.Target {
	m, _ := v.(map[string]any)
	t := &model.Target{Label: getLabel(v)}
	for _, d := range anyList(m["deps"]) {
		t.Dependencies = append(t.Dependencies, getLabel(d))
	}
	t.Inputs = strList(m["inputs"])
	for _, o := range anyList(m["outs"]) {
		om, _ := o.(map[string]any)
		k, _ := om["k"].(string)
		t.Outputs = append(t.Outputs, model.NewOutput(k, b2s(om["id"])))
	}
	if bin := b2s(m["bin"]); bin != "" {
		t.BinOutput = model.NewOutput("file", bin)
	}
	if b, _ := m["testonly"].(bool); b {
		t.Tags = []string{model.TagTestOnly}
	}
	if b, _ := m["cmd"].(bool); b {
		t.Command = "true"
	}
	return t
}

func classifyGraphErr(msg string) string {
	switch {
	case strings.HasPrefix(msg, "dependency ") && strings.Contains(msg, "not found"):
		return "unknown-dep"
	case strings.HasPrefix(msg, "cannot add self-loop"):
		return "self-loop"
	case strings.HasPrefix(msg, "cycle detected"):
		return "cycle"
	case strings.HasPrefix(msg, "conflicting outputs"):
		return "conflict"
	}
	return "other"
}

func classifyConstraintErr(msg string) string {
	switch {
	case strings.HasPrefix(msg, "input ") && (strings.HasSuffix(msg, "is not relative") || strings.Contains(msg, "points outside the package")):
		return "input-escape"
	case strings.HasPrefix(msg, "output ") && (strings.HasSuffix(msg, "is not relative") || strings.HasSuffix(msg, "points outside the repository")):
		return "output-escape"
	case strings.Contains(msg, "which is a test target") || strings.Contains(msg, "which is tagged"):
		return "test-dep"
	case strings.HasSuffix(msg, "is a test target but has no command"):
		return "test-no-command"
	}
	return "other"
}

func clip(s string) string {
	if len(s) > 300 {
		return s[:300]
	}
	return s
}

func init() {
	logger := console.NewFromSugared(zap.NewNop().Sugar(), zapcore.ErrorLevel)

	// the three stages of loading.MustLoadGraphForBuild + cmds.RunBuild/CheckCmd up to the executor
	register("analysis.analyze", func(req map[string]any) (any, error) {
		config.Global.WorkspaceRoot = b2s(req["ws"])
		var pkgs []*model.Package
		for _, pv := range anyList(req["pkgs"]) {
			pm, _ := pv.(map[string]any)
			p := &model.Package{Targets: map[label.TargetLabel]*model.Target{}, Aliases: map[label.TargetLabel]*model.Alias{}}
			for _, tv := range anyList(pm["targets"]) {
				t := buildTarget(tv)
				if _, dup := p.Targets[t.Label]; dup {
					return nil, fmt.Errorf("harness: two targets with one label inside one package value")
				}
				p.Path = t.Label.Package
				p.Targets[t.Label] = t
			}
			for _, av := range anyList(pm["aliases"]) {
				am, _ := av.(map[string]any)
				a := &model.Alias{Label: getLabel(av), Actual: getLabel(am["actual"])}
				if _, dup := p.Aliases[a.Label]; dup {
					return nil, fmt.Errorf("harness: two aliases with one label inside one package value")
				}
				p.Path = a.Label.Package
				p.Aliases[a.Label] = a
			}
			pkgs = append(pkgs, p)
		}
		nodes, err := model.BuildNodeMapFromPackages(pkgs)
		if err != nil {
			return map[string]any{"verdict": "reject", "phase": "nodemap", "kinds": []string{"duplicate"}, "msgs": []string{clip(err.Error())}}, nil
		}
		graph, err := analysis.BuildGraph(nodes)
		if err != nil {
			return map[string]any{"verdict": "reject", "phase": "graph", "kinds": []string{classifyGraphErr(err.Error())}, "msgs": []string{clip(err.Error())}}, nil
		}
		errs := analysis.CheckTargetConstraints(logger, graph.GetNodes())
		if len(errs) > 0 {
			kinds, msgs := []string{}, []string{}
			for _, e := range errs {
				kinds = append(kinds, classifyConstraintErr(e.Error()))
				msgs = append(msgs, clip(e.Error()))
			}
			return map[string]any{"verdict": "reject", "phase": "constraints", "kinds": kinds, "msgs": msgs}, nil
		}
		return map[string]any{"verdict": "accept"}, nil
	})

	register("analysis.findcycle", func(req map[string]any) (any, error) {
		var nodes []model.BuildNode
		byLabel := map[label.TargetLabel]model.BuildNode{}
		for _, nv := range anyList(req["nodes"]) {
			t := &model.Target{Label: getLabel(nv)}
			nodes = append(nodes, t)
			byLabel[t.Label] = t
		}
		g := dag.NewDirectedGraphFromTargets(nodes...)
		for _, ev := range anyList(req["edges"]) {
			e := anyList(ev)
			if err := g.AddEdge(byLabel[getLabel(e[0])], byLabel[getLabel(e[1])]); err != nil {
				return nil, err
			}
		}
		cycle, has := g.FindCycle()
		if !has {
			return map[string]any{"cycle": nil}, nil
		}
		out := []any{}
		for _, n := range cycle {
			out = append(out, jLabel(n.GetLabel()))
		}
		return map[string]any{"cycle": out}, nil
	})

	register("paths.clean", func(req map[string]any) (any, error) {
		return map[string]any{"r": s2b(filepath.Clean(b2s(req["p"])))}, nil
	})
	register("paths.join", func(req map[string]any) (any, error) {
		return map[string]any{"r": s2b(filepath.Join(strList(req["elems"])...))}, nil
	})
}
