//go:build verif

package main

import (
	"context"
	"crypto/sha256"
	"fmt"
	"os"
	"path/filepath"
	"strings"

	"grog/internal/caching"
	"grog/internal/caching/backends"
	"grog/internal/config"
	"grog/internal/console"
	"grog/internal/hashing"
	"grog/internal/label"
	"grog/internal/model"
	"grog/internal/output"
)

var hashSeq int

func scratchBase() string {
	b := os.Getenv("VERIF_SCRATCH")
	if b == "" {
		b = os.TempDir()
	}
	return b
}

// pairs decodes [[a,b],...] ; b may be null (returned as ok=false)
func hashPairs(v any) [][2]*string {
	arr, _ := v.([]any)
	out := make([][2]*string, 0, len(arr))
	for _, x := range arr {
		p, _ := x.([]any)
		if len(p) != 2 {
			continue
		}
		a := b2s(p[0])
		var bp *string
		if p[1] != nil {
			b := b2s(p[1])
			bp = &b
		}
		out = append(out, [2]*string{&a, bp})
	}
	return out
}

func init() {
	register("hash.sha256", func(req map[string]any) (any, error) {
		return map[string]any{"hex": fmt.Sprintf("%x", sha256.Sum256([]byte(b2s(req["s"]))))}, nil
	})
	// hash.xxh3: grog's own xxh3 hasher (GetHasher under hash_algorithm=xxh3) fed the string in two pieces through
	// Write and WriteString, printed by SumString.
	register("hash.xxh3", func(req map[string]any) (any, error) {
		config.Global.HashAlgorithm = config.HashAlgorithmXXH3
		s := b2s(req["s"])
		h := hashing.GetHasher()
		cut := len(s) / 3
		if _, err := h.Write([]byte(s[:cut])); err != nil {
			return nil, err
		}
		if _, err := h.WriteString(s[cut:]); err != nil {
			return nil, err
		}
		return map[string]any{"hex": h.SumString()}, nil
	})
	// hash.file: hashing.HashFile of a file written from the request: either literal content "s", or "blocks" (ids) of "bs" bytes each
	// (block content is a function of the id, different ids give blocks that differ in every 8-byte word) plus "tail" extra bytes.
	// For literal content HashBytes and HashString are returned as well.
	register("hash.file", func(req map[string]any) (any, error) {
		hashSeq++
		dir := filepath.Join(scratchBase(), fmt.Sprintf("hf-%d-%d", os.Getpid(), hashSeq))
		if err := os.MkdirAll(dir, 0o755); err != nil {
			return nil, err
		}
		defer os.RemoveAll(dir)
		config.Global.HashAlgorithm = b2s(req["algo"])
		path := filepath.Join(dir, "f.bin")
		res := map[string]any{}
		if _, ok := req["blocks"]; ok {
			bs := int(req["bs"].(float64))
			f, err := os.Create(path)
			if err != nil {
				return nil, err
			}
			buf := make([]byte, bs)
			ids, _ := req["blocks"].([]any)
			for _, idv := range ids {
				id := uint64(idv.(float64))
				for j := range buf {
					w := uint64(j / 8)
					buf[j] = byte(((id+1)*0x9e3779b97f4a7c15 + w*0x100000001b3) >> (8 * uint(j%8)))
				}
				if _, err := f.Write(buf); err != nil {
					f.Close()
					return nil, err
				}
			}
			if t, ok := req["tail"].(float64); ok && t > 0 {
				tail := make([]byte, int(t))
				for j := range tail {
					tail[j] = byte(j*13 + 5)
				}
				f.Write(tail)
			}
			f.Close()
		} else {
			content := b2s(req["s"])
			if err := os.WriteFile(path, []byte(content), 0o644); err != nil {
				return nil, err
			}
			res["bytes"] = hashing.HashBytes([]byte(content))
			res["string"] = hashing.HashString(content)
		}
		h, err := hashing.HashFile(path)
		if err != nil {
			return map[string]any{"err": true}, nil
		}
		res["file"] = h
		return res, nil
	})
	// hash.nocache: the real Registry.GetNoCacheOutputHash for a target whose outputs are materialised in a fresh workspace at
	// <scratch>/<rootname>: "outputs" = [[file name, content]], "dirs" = [[dir name, [[relative path, content], ...]]]
	register("hash.nocache", func(req map[string]any) (any, error) {
		hashSeq++
		base := filepath.Join(scratchBase(), fmt.Sprintf("hn-%d-%d", os.Getpid(), hashSeq))
		defer os.RemoveAll(base)
		root := filepath.Join(base, b2s(req["rootname"]), "ws")
		pkg := b2s(req["pkg"])
		pkgDir := filepath.Join(root, pkg)
		if err := os.MkdirAll(pkgDir, 0o755); err != nil {
			return nil, err
		}
		config.Global = config.WorkspaceConfig{Root: filepath.Join(base, "groot"), WorkspaceRoot: root, LogLevel: "error", LogOutputPath: "stderr",
			HashAlgorithm: b2s(req["algo"]), EnableCache: true}
		var outs []model.Output
		for _, f := range hashPairs(req["outputs"]) {
			full := filepath.Join(pkgDir, *f[0])
			if err := os.MkdirAll(filepath.Dir(full), 0o755); err != nil {
				return nil, err
			}
			if err := os.WriteFile(full, []byte(*f[1]), 0o644); err != nil {
				return nil, err
			}
			outs = append(outs, model.NewOutput("file", *f[0]))
		}
		dirs, _ := req["dirs"].([]any)
		for _, dv := range dirs {
			d, _ := dv.([]any)
			if len(d) != 2 {
				continue
			}
			name := b2s(d[0])
			if err := os.MkdirAll(filepath.Join(pkgDir, name), 0o755); err != nil {
				return nil, err
			}
			for _, f := range hashPairs(d[1]) {
				full := filepath.Join(pkgDir, name, *f[0])
				if err := os.MkdirAll(filepath.Dir(full), 0o755); err != nil {
					return nil, err
				}
				if err := os.WriteFile(full, []byte(*f[1]), 0o644); err != nil {
					return nil, err
				}
			}
			outs = append(outs, model.NewOutput("dir", name))
		}
		ctx := console.WithLogger(context.Background(), console.InitLogger())
		fs, err := backends.NewFileSystemCache(ctx)
		if err != nil {
			return nil, err
		}
		reg := output.NewRegistry(ctx, caching.NewCas(fs))
		t := &model.Target{Label: label.TargetLabel{Package: pkg, Name: b2s(req["name"])}, ChangeHash: "k", Outputs: outs}
		res, err := reg.GetNoCacheOutputHash(ctx, t)
		if err != nil {
			return map[string]any{"err": true}, nil
		}
		return map[string]any{"hash": s2b(res.OutputHash)}, nil
	})
	// hash.key: the real GetTargetChangeHash on a target assembled from the request, with the input files
	// materialised in a fresh workspace directory.
	register("hash.key", func(req map[string]any) (any, error) {
		hashSeq++
		root := filepath.Join(scratchBase(), fmt.Sprintf("hk-%d-%d", os.Getpid(), hashSeq))
		if pre, ok := req["rootname"].(string); ok && pre != "" {
			root = filepath.Join(scratchBase(), fmt.Sprintf("hk-%d-%d", os.Getpid(), hashSeq), pre)
		}
		defer os.RemoveAll(filepath.Join(scratchBase(), fmt.Sprintf("hk-%d-%d", os.Getpid(), hashSeq)))
		pkg := b2s(req["pkg"])
		pkgDir := filepath.Join(root, pkg)
		if err := os.MkdirAll(pkgDir, 0o755); err != nil {
			return nil, err
		}
		for _, f := range hashPairs(req["files"]) {
			if f[1] == nil {
				continue
			}
			full := filepath.Join(pkgDir, *f[0])
			if err := os.MkdirAll(filepath.Dir(full), 0o755); err != nil {
				return nil, err
			}
			if err := os.WriteFile(full, []byte(*f[1]), 0o644); err != nil {
				return nil, err
			}
		}
		config.Global.WorkspaceRoot = root
		config.Global.HashAlgorithm = b2s(req["algo"])
		var tags []string
		if req["platform"] == nil {
			tags = append(tags, model.TagMultiplatformCache)
			config.Global.OS, config.Global.Arch = "anyos", "anyarch"
		} else {
			p := b2s(req["platform"])
			i := strings.Index(p, "/")
			if i < 0 {
				return nil, fmt.Errorf("platform needs a slash")
			}
			config.Global.OS, config.Global.Arch = p[:i], p[i+1:]
		}
		var outs []model.Output
		for _, o := range hashPairs(req["outputs"]) {
			outs = append(outs, model.NewOutput(*o[0], *o[1]))
		}
		fp := map[string]string{}
		for _, kv := range hashPairs(req["fingerprint"]) {
			fp[*kv[0]] = *kv[1]
		}
		var fpm map[string]string
		if len(fp) > 0 || req["fingerprint_nonnil"] == true {
			fpm = fp
		}
		t := model.Target{
			Label:       label.TargetLabel{Package: pkg, Name: b2s(req["name"])},
			Command:     b2s(req["command"]),
			Inputs:      strList(req["inputs"]),
			Outputs:     outs,
			Fingerprint: fpm,
			Tags:        tags,
		}
		if b, ok := req["bin"].(string); ok && b != "" {
			t.BinOutput = model.NewOutput("file", b2s(b))
		}
		deps := map[string]string{}
		for _, kv := range hashPairs(req["deps"]) {
			deps[*kv[0]] = *kv[1]
		}
		key, err := hashing.GetTargetChangeHash(t, deps)
		if err != nil {
			return map[string]any{"err": true}, nil
		}
		return map[string]any{"key": s2b(key)}, nil
	})
}
