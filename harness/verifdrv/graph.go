//go:build verif

package main

// Implementation side of the graph / selection / query correspondences (C12, C19, C20).
// API surface touched: dag.NewDirectedGraph, AddNode, AddEdge, GetAncestors, GetDescendants,
// GetDependencies, GetDependants, GetNodes, LogSelectedNodes; selection.New, SelectTargetsForBuild,
// SelectTargets, FilterNodes, StringToTargetTypeSelection; label.ParsePatternsOrMatchAll, ParseTargetPattern;
// model.Target, model.Alias, model.PrintSortedLabels; config.Global.{OS,Arch,AllPlatforms}.

import (
	"fmt"
	"io"
	"os"
	"runtime"
	"sort"
	"strings"
	"time"

	"grog/internal/analysis"
	"grog/internal/config"
	"grog/internal/dag"
	"grog/internal/label"
	"grog/internal/model"
	"grog/internal/selection"
)

func asInt(v any) int {
	f, _ := v.(float64)
	return int(f)
}

func edgeList(v any) [][2]int {
	arr, _ := v.([]any)
	out := make([][2]int, 0, len(arr))
	for _, e := range arr {
		p, _ := e.([]any)
		if len(p) == 2 {
			out = append(out, [2]int{asInt(p[0]), asInt(p[1])})
		}
	}
	return out
}

// plainGraph builds n targets //:n0 … and adds the edges in the given order.
func plainGraph(n int, edges [][2]int) (*dag.DirectedTargetGraph, []model.BuildNode, map[label.TargetLabel]int, error) {
	g := dag.NewDirectedGraph()
	nodes := make([]model.BuildNode, n)
	idx := make(map[label.TargetLabel]int, n)
	for i := 0; i < n; i++ {
		t := &model.Target{Label: label.TargetLabel{Package: "", Name: fmt.Sprintf("n%d", i)}}
		nodes[i] = t
		idx[t.Label] = i
		g.AddNode(t)
	}
	for _, e := range edges {
		var from, to model.BuildNode
		if e[0] >= 0 && e[0] < n {
			from = nodes[e[0]]
		} else {
			from = &model.Target{Label: label.TargetLabel{Package: "zz", Name: fmt.Sprintf("x%d", e[0])}}
		}
		if e[1] >= 0 && e[1] < n {
			to = nodes[e[1]]
		} else {
			to = &model.Target{Label: label.TargetLabel{Package: "zz", Name: fmt.Sprintf("x%d", e[1])}}
		}
		if err := g.AddEdge(from, to); err != nil {
			return nil, nil, nil, err
		}
	}
	return g, nodes, idx, nil
}

func indices(list []model.BuildNode, idx map[label.TargetLabel]int) []int {
	out := make([]int, 0, len(list))
	for _, x := range list {
		out = append(out, idx[x.GetLabel()])
	}
	sort.Ints(out)
	return out
}

type selReq struct {
	g     *dag.DirectedTargetGraph
	nodes []model.BuildNode
	idx   map[label.TargetLabel]int
	sel   *selection.Selector
}

// buildSelReq builds the attributed graph and the selector of a graph.select / graph.query request.
// Returns (nil, "pattern") when a pattern does not parse.
func buildSelReq(req map[string]any) (*selReq, string, error) {
	arr, _ := req["nodes"].([]any)
	g := dag.NewDirectedGraph()
	nodes := make([]model.BuildNode, len(arr))
	idx := make(map[label.TargetLabel]int, len(arr))
	for i, x := range arr {
		m, _ := x.(map[string]any)
		l := label.TargetLabel{Package: b2s(m["pkg"]), Name: b2s(m["name"])}
		if isT, _ := m["target"].(bool); isT {
			t := &model.Target{Label: l, Tags: strList(m["tags"])}
			if p := strList(m["platforms"]); len(p) > 0 {
				t.Platforms = p
			}
			if bin, _ := m["bin"].(bool); bin {
				t.BinOutput = model.NewOutput("file", "bin.sh")
			}
			nodes[i] = t
		} else {
			nodes[i] = &model.Alias{Label: l}
		}
		if _, dup := idx[l]; dup {
			return nil, "", fmt.Errorf("duplicate label in request")
		}
		idx[l] = i
		g.AddNode(nodes[i])
	}
	for _, e := range edgeList(req["edges"]) {
		if e[0] < 0 || e[0] >= len(nodes) || e[1] < 0 || e[1] >= len(nodes) {
			return nil, "", fmt.Errorf("addedge")
		}
		if err := g.AddEdge(nodes[e[0]], nodes[e[1]]); err != nil {
			return nil, "", fmt.Errorf("addedge")
		}
	}
	// the pattern *set* goes through label.ParsePatternsOrMatchAll, as in cmds/build.go, test.go and list.go
	// (an empty argument list stays an empty pattern list: `Selector` treats it as "everything")
	var pats []label.TargetPattern
	if args := strList(req["patterns"]); len(args) > 0 {
		parsed, err := label.ParsePatternsOrMatchAll(b2s(req["cur"]), args)
		if err != nil {
			return nil, "pattern", nil
		}
		pats = parsed
	}
	typ, err := selection.StringToTargetTypeSelection(b2s(req["type"]))
	if err != nil {
		return nil, "", err
	}
	plat := strings.SplitN(b2s(req["platform"]), "/", 2)
	config.Global.OS = plat[0]
	config.Global.Arch = ""
	if len(plat) > 1 {
		config.Global.Arch = plat[1]
	}
	config.Global.AllPlatforms, _ = req["all_platforms"].(bool)
	sel := selection.New(pats, strList(req["tags"]), strList(req["exclude"]), typ)
	return &selReq{g: g, nodes: nodes, idx: idx, sel: sel}, "", nil
}

// captureStdout runs f with os.Stdout redirected into a pipe and returns what f printed
// (the driver's own reply writer holds the original descriptor and is not affected).
func captureStdout(f func()) []string {
	old := os.Stdout
	r, w, err := os.Pipe()
	if err != nil {
		panic(err)
	}
	os.Stdout = w
	done := make(chan []byte)
	go func() {
		b, _ := io.ReadAll(r)
		done <- b
	}()
	func() {
		defer func() {
			os.Stdout = old
			w.Close()
		}()
		f()
	}()
	b := <-done
	r.Close()
	lines := []string{}
	for _, l := range strings.Split(string(b), "\n") {
		if l != "" {
			lines = append(lines, s2b(l))
		}
	}
	return lines
}

func ladder(depth int) (int, [][2]int) {
	var es [][2]int
	for l := 0; l < depth; l++ {
		es = append(es, [2]int{2 * l, 2*l + 2}, [2]int{2 * l, 2*l + 3}, [2]int{2*l + 1, 2*l + 2}, [2]int{2*l + 1, 2*l + 3})
	}
	return 2 * (depth + 1), es
}

func chain(n int) (int, [][2]int) {
	var es [][2]int
	for i := 0; i+1 < n; i++ {
		es = append(es, [2]int{i, i + 1})
	}
	return n, es
}

// dense: node i depends on the 16 nodes before it (a totally ordered DAG with ~16 N edges)
func dense(n int) (int, [][2]int) {
	var es [][2]int
	for i := 1; i < n; i++ {
		lo := i - 16
		if lo < 0 {
			lo = 0
		}
		for j := lo; j < i; j++ {
			es = append(es, [2]int{j, i})
		}
	}
	return n, es
}

// conflictProfile gives node i (of n) its declared outputs. No profile contains a conflict: outputs are either
// unique per target or shared only by targets that are ordered in all three shapes (same parity class in the
// ladder, everything in chain / dense), which is what makes detectOutputConflicts consult targetsAreOrdered.
func conflictProfile(profile string, i int) ([]model.Output, error) {
	par := i % 2
	switch profile {
	case "file":
		return []model.Output{model.NewOutput("file", fmt.Sprintf("f_%d.txt", i)), model.NewOutput("file", fmt.Sprintf("shared_%d.txt", par))}, nil
	case "dir":
		return []model.Output{model.NewOutput("dir", fmt.Sprintf("out_%d", i))}, nil
	case "multidir":
		return []model.Output{model.NewOutput("dir", fmt.Sprintf("out_%d", i)), model.NewOutput("dir", fmt.Sprintf("gen_%d/a", i)),
			model.NewOutput("dir", fmt.Sprintf("shared_%d", par))}, nil
	case "docker":
		return []model.Output{model.NewOutput("docker", fmt.Sprintf("img_%d", par))}, nil
	case "mixed":
		return []model.Output{model.NewOutput("dir", fmt.Sprintf("out_%d", i)), model.NewOutput("file", fmt.Sprintf("f_%d.txt", i)),
			model.NewOutput("file", fmt.Sprintf("shared_%d/x.txt", par)), model.NewOutput("dir", fmt.Sprintf("shared_%d", par))}, nil
	}
	return nil, fmt.Errorf("bad profile")
}

func init() {
	// Cost of the output-conflict pass of analysis.BuildGraph: graph family x output profile x size.
	register("graph.conflicts", func(req map[string]any) (any, error) {
		size := asInt(req["size"])
		var n int
		var es [][2]int
		switch req["shape"] {
		case "chain":
			n, es = chain(size)
		case "ladder":
			n, es = ladder(size/2 - 1)
		case "dense":
			n, es = dense(size)
		default:
			return nil, fmt.Errorf("bad shape")
		}
		profile, _ := req["profile"].(string)
		reps := asInt(req["reps"])
		if reps < 1 {
			reps = 1
		}
		var best time.Duration = -1
		var mallocs uint64
		records := 0
		for k := 0; k < reps; k++ {
			nm := make(model.BuildNodeMap, n)
			records = 0
			for i := 0; i < n; i++ {
				outs, err := conflictProfile(profile, i)
				if err != nil {
					return nil, err
				}
				records += len(outs)
				t := &model.Target{Label: label.TargetLabel{Package: "", Name: fmt.Sprintf("n%d", i)}, Outputs: outs}
				nm[t.Label] = t
			}
			for _, e := range es {
				to := nm[label.TargetLabel{Package: "", Name: fmt.Sprintf("n%d", e[1])}].(*model.Target)
				to.Dependencies = append(to.Dependencies, label.TargetLabel{Package: "", Name: fmt.Sprintf("n%d", e[0])})
			}
			runtime.GC()
			var m0, m1 runtime.MemStats
			runtime.ReadMemStats(&m0)
			t0 := time.Now()
			bg, err := analysis.BuildGraph(nm)
			d := time.Since(t0)
			runtime.ReadMemStats(&m1)
			if err != nil {
				return map[string]any{"ok": false, "err": s2b(err.Error())[:300]}, nil
			}
			_ = bg
			if best < 0 || d < best {
				best = d
			}
			if k == 0 || m1.Mallocs-m0.Mallocs < mallocs {
				mallocs = m1.Mallocs - m0.Mallocs
			}
		}
		return map[string]any{"ok": true, "nodes": n, "edges": len(es), "records": records, "mallocs": mallocs, "ns": best.Nanoseconds()}, nil
	})

	register("graph.trav", func(req map[string]any) (any, error) {
		n := asInt(req["n"])
		g, nodes, idx, err := plainGraph(n, edgeList(req["edges"]))
		if err != nil {
			return map[string]any{"ok": false, "err": "addedge"}, nil
		}
		qs, _ := req["q"].([]any)
		res := make([][]int, 0, len(qs))
		for _, q := range qs {
			m, _ := q.(map[string]any)
			v := asInt(m["v"])
			var node model.BuildNode
			if v >= 0 && v < n {
				node = nodes[v]
			} else {
				node = &model.Target{Label: label.TargetLabel{Package: "zz", Name: fmt.Sprintf("x%d", v)}}
			}
			var list []model.BuildNode
			switch m["k"] {
			case "desc":
				list = g.GetDescendants(node)
			case "anc":
				list = g.GetAncestors(node)
			case "deps":
				list = g.GetDependencies(node)
			case "rdeps":
				list = g.GetDependants(node)
			default:
				return nil, fmt.Errorf("bad query kind")
			}
			res = append(res, indices(list, idx))
		}
		return map[string]any{"ok": true, "res": res}, nil
	})

	register("graph.select", func(req map[string]any) (any, error) {
		r, perr, err := buildSelReq(req)
		if err != nil {
			return nil, err
		}
		if r == nil {
			return map[string]any{"ok": false, "err": perr}, nil
		}
		count, skipped, err := r.sel.SelectTargetsForBuild(r.g)
		if err != nil {
			return map[string]any{"ok": false, "err": "platform", "msg": s2b(err.Error())}, nil
		}
		var selected []model.BuildNode
		for _, nd := range r.nodes {
			if nd.GetIsSelected() {
				selected = append(selected, nd)
			}
		}
		return map[string]any{"ok": true, "selected": indices(selected, r.idx), "count": count, "skipped": skipped}, nil
	})

	register("graph.query", func(req map[string]any) (any, error) {
		qs, _ := req["q"].([]any)
		outs := make([][]string, 0, len(qs))
		for _, q := range qs {
			m, _ := q.(map[string]any)
			// a fresh graph per query: `list` marks nodes as selected
			r, perr, err := buildSelReq(req)
			if err != nil {
				return nil, err
			}
			if r == nil {
				return map[string]any{"ok": false, "err": perr}, nil
			}
			// the query commands build selection.New(nil, Tags, ExcludeTags, typeFilter)
			qsel := selection.New(nil, r.sel.Tags, r.sel.ExcludeTags, r.sel.TargetType)
			var lines []string
			switch m["k"] {
			case "deps", "rdeps":
				v := asInt(m["v"])
				if v < 0 || v >= len(r.nodes) {
					return nil, fmt.Errorf("query target out of range")
				}
				tr, _ := m["t"].(bool)
				var list []model.BuildNode
				if m["k"] == "deps" {
					if tr {
						list = r.g.GetAncestors(r.nodes[v])
					} else {
						list = r.g.GetDependencies(r.nodes[v])
					}
				} else {
					if tr {
						list = r.g.GetDescendants(r.nodes[v])
					} else {
						list = r.g.GetDependants(r.nodes[v])
					}
				}
				lines = captureStdout(func() { model.PrintSortedLabels(qsel.FilterNodes(list)) })
			case "list":
				r.sel.SelectTargets(r.g)
				lines = captureStdout(func() { r.g.LogSelectedNodes() })
			default:
				return nil, fmt.Errorf("bad query kind")
			}
			outs = append(outs, lines)
		}
		return map[string]any{"ok": true, "out": outs}, nil
	})

	// Cost proxy on the real code, no hooks: allocation count and best-of-k CPU time around one call on
	// a ladder / chain built in process.
	register("graph.cost", func(req map[string]any) (any, error) {
		depth := asInt(req["depth"])
		var n int
		var es [][2]int
		switch req["shape"] {
		case "ladder":
			n, es = ladder(depth)
		case "chain":
			n, es = chain(2 * (depth + 1))
		default:
			return nil, fmt.Errorf("bad shape")
		}
		reps := asInt(req["reps"])
		if reps < 1 {
			reps = 1
		}
		what, _ := req["what"].(string)
		var best time.Duration = -1
		var mallocs uint64
		resLen := 0
		for k := 0; k < reps; k++ {
			g, nodes, _, err := plainGraph(n, es)
			if err != nil {
				return nil, err
			}
			config.Global.OS, config.Global.Arch, config.Global.AllPlatforms = "linux", "amd64", false
			top := nodes[n-1]
			pat, _ := label.ParseTargetPattern("", "//:"+top.GetLabel().Name)
			sel := selection.New([]label.TargetPattern{pat}, nil, nil, selection.AllTargets)
			runtime.GC()
			var m0, m1 runtime.MemStats
			runtime.ReadMemStats(&m0)
			t0 := time.Now()
			switch what {
			case "desc":
				resLen = len(g.GetDescendants(nodes[0]))
			case "anc":
				resLen = len(g.GetAncestors(top))
			case "select":
				c, _, err := sel.SelectTargetsForBuild(g)
				if err != nil {
					return nil, err
				}
				resLen = c
			case "conflicts":
				// analysis.BuildGraph on the same shape, every target with a directory output, the two
				// nodes of a level (unordered) and all nodes of a column (ordered) sharing none / one path:
				// detectOutputConflicts asks targetsAreOrdered for every pair of directory outputs.
				nm := make(model.BuildNodeMap, n)
				for i := 0; i < n; i++ {
					t := &model.Target{Label: label.TargetLabel{Package: "", Name: fmt.Sprintf("n%d", i)},
						Outputs: []model.Output{model.NewOutput("dir", fmt.Sprintf("out_%d", i%2))}}
					nm[t.Label] = t
				}
				for _, e := range es {
					to := nm[label.TargetLabel{Package: "", Name: fmt.Sprintf("n%d", e[1])}].(*model.Target)
					to.Dependencies = append(to.Dependencies, label.TargetLabel{Package: "", Name: fmt.Sprintf("n%d", e[0])})
				}
				runtime.GC()
				runtime.ReadMemStats(&m0)
				t0 = time.Now()
				bg, err := analysis.BuildGraph(nm)
				if err != nil {
					return nil, err
				}
				resLen = len(bg.GetNodes())
			default:
				return nil, fmt.Errorf("bad what")
			}
			d := time.Since(t0)
			runtime.ReadMemStats(&m1)
			if best < 0 || d < best {
				best = d
			}
			if k == 0 || m1.Mallocs-m0.Mallocs < mallocs {
				mallocs = m1.Mallocs - m0.Mallocs // minimum over the repetitions: background allocations only add
			}
		}
		return map[string]any{"ok": true, "nodes": n, "edges": len(es), "mallocs": mallocs, "ns": best.Nanoseconds(), "len": resLen}, nil
	})
}
