//go:build verif

// Command verifdrv is the implementation-side driver of the correspondence checks.
// It is never committed to grog: /verif/tools/vlib.py overlays this directory into the
// module as grog/internal/zz_verif/verifdrv at check time (go build -overlay), so that it
// can call grog's internal packages built from the current working tree.
//
// Protocol: one JSON object per input line with an "op" field, one JSON object per output
// line. Byte strings travel as JSON strings in which code point k (<256) stands for byte k.
package main

import (
	"bufio"
	"encoding/json"
	"fmt"
	"os"
)

type handler func(req map[string]any) (any, error)

var handlers = map[string]handler{}

func register(op string, h handler) { handlers[op] = h }

// b2s converts protocol text (latin-1 code points) to a Go byte string.
func b2s(v any) string {
	s, _ := v.(string)
	out := make([]byte, 0, len(s))
	for _, r := range s {
		out = append(out, byte(r))
	}
	return string(out)
}

// s2b converts a Go byte string to protocol text.
func s2b(s string) string {
	out := make([]rune, 0, len(s))
	for i := 0; i < len(s); i++ {
		out = append(out, rune(s[i]))
	}
	return string(out)
}

func strList(v any) []string {
	arr, _ := v.([]any)
	out := make([]string, 0, len(arr))
	for _, x := range arr {
		out = append(out, b2s(x))
	}
	return out
}

func safeCall(h handler, req map[string]any) (res any, err error) {
	defer func() {
		if r := recover(); r != nil {
			res = map[string]any{"panic": fmt.Sprint(r)}
			err = nil
		}
	}()
	return h(req)
}

func main() {
	in := bufio.NewReaderSize(os.Stdin, 1<<20)
	out := bufio.NewWriterSize(os.Stdout, 1<<20)
	defer out.Flush()
	enc := json.NewEncoder(out)
	enc.SetEscapeHTML(false)
	for {
		line, err := in.ReadBytes('\n')
		if len(line) > 1 {
			var req map[string]any
			if e := json.Unmarshal(line, &req); e != nil {
				enc.Encode(map[string]any{"error": "parse: " + e.Error()})
			} else {
				op, _ := req["op"].(string)
				h, ok := handlers[op]
				if !ok {
					enc.Encode(map[string]any{"error": "unknown op " + op})
				} else {
					res, e := safeCall(h, req)
					if e != nil {
						enc.Encode(map[string]any{"error": e.Error()})
					} else {
						enc.Encode(res)
					}
				}
			}
			out.Flush()
		}
		if err != nil {
			return
		}
	}
}
