//go:build verif

package main

// restore.load: write a generated directory tree with the real DirectoryOutputHandler.Write into a
// real FileSystemCache (wrapped by a fault-injecting backend), remove the directory, make the blobs of
// the chosen files unreadable and call the real DirectoryOutputHandler.Load. Reports whether Load
// returned nil / an error / did not return within the bound.

import (
	"context"
	"errors"
	"fmt"
	"io"
	"os"
	"path/filepath"
	"sort"
	"sync"
	"time"

	"go.uber.org/zap"
	"go.uber.org/zap/zapcore"

	"grog/internal/caching"
	"grog/internal/caching/backends"
	"grog/internal/config"
	"grog/internal/console"
	"grog/internal/hashing"
	"grog/internal/label"
	"grog/internal/model"
	outhandlers "grog/internal/output/handlers"
)

type faultyBackend struct {
	inner backends.CacheBackend
	mu    sync.Mutex
	fail  map[string]bool
	slow  map[string]time.Duration // fail only after this delay (a later failure of the same restore)
	gets  int
	busy  int // Gets that have not returned yet
}

func (f *faultyBackend) TypeName() string { return "faulty-" + f.inner.TypeName() }
func (f *faultyBackend) Get(ctx context.Context, path, key string) (io.ReadCloser, error) {
	f.mu.Lock()
	f.gets++
	f.busy++
	bad := f.fail[key]
	delay, isSlow := f.slow[key]
	f.mu.Unlock()
	defer func() {
		f.mu.Lock()
		f.busy--
		f.mu.Unlock()
	}()
	if isSlow {
		time.Sleep(delay)
		return nil, errors.New("injected fault: blob unreadable (late)")
	}
	if bad {
		return nil, errors.New("injected fault: blob unreadable")
	}
	return f.inner.Get(ctx, path, key)
}
func (f *faultyBackend) Set(ctx context.Context, path, key string, content io.Reader) error {
	return f.inner.Set(ctx, path, key, content)
}
func (f *faultyBackend) Delete(ctx context.Context, path string, key string) error {
	return f.inner.Delete(ctx, path, key)
}
func (f *faultyBackend) Exists(ctx context.Context, path string, key string) (bool, error) {
	return f.inner.Exists(ctx, path, key)
}

func init() {
	register("restore.load", func(req map[string]any) (any, error) {
		dir, _ := req["dir"].(string)
		if dir == "" {
			return nil, errors.New("dir missing")
		}
		files := strList(req["files"])     // relative paths below the output directory
		missing := strList(req["missing"]) // subset whose blob cannot be read
		missingSlow := strList(req["missingSlow"]) // subset whose read fails only after 150 ms
		timeoutMs, _ := req["timeoutMs"].(float64)
		if timeoutMs <= 0 {
			timeoutMs = 4000
		}
		config.Global.DisableNonDeterministicLogging = true
		config.Global.WorkspaceRoot = filepath.Join(dir, "ws")
		config.Global.Root = filepath.Join(dir, "root")
		logger := console.NewFromSugared(zap.NewNop().Sugar(), zapcore.ErrorLevel)
		ctx := console.WithLogger(context.Background(), logger)
		outDir := filepath.Join(config.Global.WorkspaceRoot, "pkg", "out")
		content := func(rel string) []byte { return []byte("content of " + rel + "\n") }
		for _, rel := range files {
			p := filepath.Join(outDir, rel)
			if err := os.MkdirAll(filepath.Dir(p), 0755); err != nil {
				return nil, err
			}
			if err := os.WriteFile(p, content(rel), 0644); err != nil {
				return nil, err
			}
		}
		if err := os.MkdirAll(outDir, 0755); err != nil {
			return nil, err
		}
		fs, err := backends.NewFileSystemCache(ctx)
		if err != nil {
			return nil, err
		}
		fb := &faultyBackend{inner: fs, fail: map[string]bool{}, slow: map[string]time.Duration{}}
		cas := caching.NewCas(fb)
		h := outhandlers.NewDirectoryOutputHandler(cas)
		target := model.Target{Label: label.TargetLabel{Package: "pkg", Name: "t"}}
		out, err := h.Write(ctx, target, model.NewOutput("dir", "out"), nil)
		if err != nil {
			return map[string]any{"outcome": "write-error", "detail": err.Error()}, nil
		}
		if err := os.RemoveAll(outDir); err != nil {
			return nil, err
		}
		for _, rel := range missing {
			fb.fail[hashing.HashBytes(content(rel))] = true
		}
		for _, rel := range missingSlow {
			fb.slow[hashing.HashBytes(content(rel))] = 150 * time.Millisecond
		}
		done := make(chan error, 1)
		go func() { done <- h.Load(ctx, target, out, nil) }()
		res := map[string]any{}
		select {
		case err := <-done:
			if err != nil {
				res["outcome"] = "error"
				res["detail"] = err.Error()
			} else {
				res["outcome"] = "ok"
				var restored []string
				filepath.Walk(outDir, func(p string, info os.FileInfo, err error) error {
					if err == nil && !info.IsDir() {
						rel, _ := filepath.Rel(outDir, p)
						b, _ := os.ReadFile(p)
						if string(b) == string(content(rel)) {
							restored = append(restored, rel)
						} else {
							restored = append(restored, rel+" (WRONG CONTENT)")
						}
					}
					return nil
				})
				sort.Strings(restored)
				res["restored"] = restored
			}
		case <-time.After(time.Duration(timeoutMs) * time.Millisecond):
			res["outcome"] = "hang"
		}
		// downloads that are still running after Load returned belong to this request: wait for them, so that a crash
		// they cause (e.g. a send on a channel Load has closed) is attributed to it
		if res["outcome"] != "hang" {
			for i := 0; i < 200; i++ {
				fb.mu.Lock()
				b := fb.busy
				fb.mu.Unlock()
				if b == 0 {
					break
				}
				time.Sleep(5 * time.Millisecond)
			}
			time.Sleep(20 * time.Millisecond)
		}
		fb.mu.Lock()
		res["gets"] = fb.gets
		fb.mu.Unlock()
		_ = fmt.Sprint
		return res, nil
	})
}
