//go:build verif

package main

// Implementation-side ops of the C16 (loaders) correspondence. Everything goes through the exported
// surface of grog/internal/loading: the per-format loaders' Load, LoadPackages, and
// model.BuildNodeMapFromPackages. The three "parameter" ops (yaml.annotation, glob, duration) expose the
// third-party functions the Lean model takes as parameters (yaml.v3, doublestar, time.ParseDuration).

import (
	"context"
	"fmt"
	"os"
	"path/filepath"
	"sort"
	"strconv"
	"strings"
	"sync"
	"time"

	"github.com/bmatcuk/doublestar/v4"
	"go.uber.org/zap"
	"go.uber.org/zap/zapcore"
	"gopkg.in/yaml.v3"

	"grog/internal/config"
	"grog/internal/console"
	"grog/internal/label"
	"grog/internal/loading"
	"grog/internal/model"
)

// mirror of loading.grogAnnotation (unexported there); only used to instantiate the model's
// `decode` parameter with the real yaml.v3.
type verifAnnotation struct {
	Name                 string            `yaml:"name"`
	Dependencies         []string          `yaml:"dependencies"`
	Inputs               []string          `yaml:"inputs"`
	Tags                 []string          `yaml:"tags"`
	Fingerprint          map[string]string `yaml:"fingerprint"`
	EnvironmentVariables map[string]string `yaml:"environment_variables"`
	Timeout              string            `yaml:"timeout"`
	Platforms            []string          `yaml:"platforms"`
	Outputs              []string          `yaml:"outputs"`
}

var silenceOnce sync.Once

// quietly runs f with os.Stdout pointing at /dev/null (LoadPackages prints errors with fmt.Println,
// which would corrupt the JSON-lines stream). The driver's own writer was created from the original
// os.Stdout before the first request, so the redirection is simply left in place.
func quietly(f func()) {
	silenceOnce.Do(func() {
		if null, err := os.OpenFile(os.DevNull, os.O_WRONLY, 0); err == nil {
			os.Stdout = null
		}
	})
	f()
}

func strs(xs []string) []any {
	out := make([]any, 0, len(xs))
	for _, x := range xs {
		out = append(out, s2b(x))
	}
	return out
}

func strsOrNull(xs []string) any {
	if xs == nil {
		return nil
	}
	return strs(xs)
}

func pairs(m map[string]string) []any {
	keys := make([]string, 0, len(m))
	for k := range m {
		keys = append(keys, k)
	}
	sort.Strings(keys)
	out := make([]any, 0, len(m))
	for _, k := range keys {
		out = append(out, []any{s2b(k), s2b(m[k])})
	}
	return out
}

func checksJ(cs []model.OutputCheck) []any {
	out := make([]any, 0, len(cs))
	for _, c := range cs {
		out = append(out, []any{s2b(c.Command), s2b(c.ExpectedOutput)})
	}
	return out
}

func dtoTargetJ(t *loading.TargetDTO) any {
	if t == nil {
		return nil
	}
	return map[string]any{
		"name": s2b(t.Name), "command": s2b(t.Command), "deps": strs(t.Dependencies), "inputs": strs(t.Inputs),
		"excludes": strs(t.ExcludeInputs), "outputs": strs(t.Outputs), "bin_output": s2b(t.BinOutput),
		"checks": checksJ(t.OutputChecks), "tags": strs(t.Tags), "fingerprint": pairs(t.Fingerprint),
		"env": pairs(t.EnvironmentVariables), "platforms": strsOrNull(t.Platforms), "timeout": s2b(t.Timeout),
	}
}

func dtoJ(p loading.PackageDTO) any {
	ts := make([]any, 0, len(p.Targets))
	for _, t := range p.Targets {
		ts = append(ts, dtoTargetJ(t))
	}
	as := make([]any, 0, len(p.Aliases))
	for _, a := range p.Aliases {
		if a == nil {
			as = append(as, nil)
			continue
		}
		as = append(as, map[string]any{"name": s2b(a.Name), "actual": s2b(a.Actual)})
	}
	return map[string]any{"targets": ts, "aliases": as, "default_platforms": strsOrNull(p.DefaultPlatforms)}
}

func labelJ(l label.TargetLabel) any { return []any{s2b(l.Package), s2b(l.Name)} }

func targetJ(t *model.Target) any {
	deps := make([]any, 0, len(t.Dependencies))
	for _, d := range t.Dependencies {
		deps = append(deps, labelJ(d))
	}
	outs := make([]any, 0, len(t.Outputs))
	for _, o := range t.Outputs {
		outs = append(outs, []any{s2b(o.Type), s2b(o.Identifier)})
	}
	return map[string]any{
		"label": labelJ(t.Label), "command": s2b(t.Command), "deps": deps, "inputs": strs(t.Inputs),
		"unresolved": strs(t.UnresolvedInputs), "excludes": strs(t.ExcludeInputs), "outputs": outs,
		"bin_output": []any{s2b(t.BinOutput.Type), s2b(t.BinOutput.Identifier)},
		"platforms":  strsOrNull(t.Platforms), "checks": checksJ(t.OutputChecks), "tags": strs(t.Tags),
		"fingerprint": pairs(t.Fingerprint), "env": pairs(t.EnvironmentVariables),
		"timeout": strconv.FormatInt(int64(t.Timeout), 10),
	}
}

func lblLess(a, b label.TargetLabel) bool {
	if a.Package != b.Package {
		return a.Package < b.Package
	}
	return a.Name < b.Name
}

func packageJ(p *model.Package) any {
	ts := p.GetTargets()
	sort.Slice(ts, func(i, j int) bool { return lblLess(ts[i].Label, ts[j].Label) })
	as := p.GetAliases()
	sort.Slice(as, func(i, j int) bool { return lblLess(as[i].Label, as[j].Label) })
	tj := make([]any, 0, len(ts))
	for _, t := range ts {
		tj = append(tj, targetJ(t))
	}
	aj := make([]any, 0, len(as))
	for _, a := range as {
		aj = append(aj, map[string]any{"label": labelJ(a.Label), "actual": labelJ(a.Actual)})
	}
	return map[string]any{"path": s2b(p.Path), "targets": tj, "aliases": aj}
}

func nopLogger() *console.Logger {
	return console.NewFromSugared(zap.NewNop().Sugar(), zapcore.FatalLevel)
}

// guarded runs f in a goroutine with recover and a timeout: a panic or a hang of the code under test
// is reported as data, never kills the driver.
func guarded(timeout time.Duration, f func() any) any {
	ch := make(chan any, 1)
	go func() {
		defer func() {
			if r := recover(); r != nil {
				ch <- map[string]any{"panic": fmt.Sprint(r)}
			}
		}()
		ch <- f()
	}()
	select {
	case r := <-ch:
		return r
	case <-time.After(timeout):
		return map[string]any{"hang": true}
	}
}

func timeoutOf(req map[string]any) time.Duration {
	if v, ok := req["timeout_s"].(float64); ok && v > 0 {
		return time.Duration(v * float64(time.Second))
	}
	return 10 * time.Second
}

func loaderFor(name string) loading.Loader {
	for _, l := range []loading.Loader{loading.JsonLoader{}, loading.YamlLoader{}, loading.MakefileLoader{},
		loading.StarlarkLoader{}, loading.ScriptLoader{}} {
		if l.Matches(name) {
			return l
		}
	}
	return nil
}

func writeFiles(dir string, files []any) error {
	for _, f := range files {
		pair, _ := f.([]any)
		if len(pair) != 2 {
			return fmt.Errorf("bad file entry")
		}
		rel := b2s(pair[0])
		full := filepath.Join(dir, rel)
		if err := os.MkdirAll(filepath.Dir(full), 0o755); err != nil {
			return err
		}
		if err := os.WriteFile(full, []byte(b2s(pair[1])), 0o644); err != nil {
			return err
		}
	}
	return nil
}

var caseCounter int

func freshDir(req map[string]any) (string, error) {
	base, _ := req["dir"].(string)
	if base == "" {
		return "", fmt.Errorf("missing dir")
	}
	caseCounter++
	d := filepath.Join(base, fmt.Sprintf("c%d", caseCounter))
	if err := os.MkdirAll(d, 0o755); err != nil {
		return "", err
	}
	return d, nil
}

func init() {
	// {"op":"load.file","dir":scratch,"name":"Makefile","text":..} -> {"matched":b,"err":b,"dto":{..}} | {"panic":..} | {"hang":true}
	register("load.file", func(req map[string]any) (any, error) {
		d, err := freshDir(req)
		if err != nil {
			return nil, err
		}
		defer os.RemoveAll(d)
		name := b2s(req["name"])
		l := loaderFor(name)
		if l == nil {
			return nil, fmt.Errorf("no loader for %s", name)
		}
		path := filepath.Join(d, name)
		if err := os.WriteFile(path, []byte(b2s(req["text"])), 0o644); err != nil {
			return nil, err
		}
		config.Global.WorkspaceRoot = d
		return guarded(timeoutOf(req), func() any {
			var dto loading.PackageDTO
			var matched bool
			var lerr error
			quietly(func() { dto, matched, lerr = l.Load(context.Background(), path) })
			res := map[string]any{"matched": matched, "err": lerr != nil}
			if lerr != nil {
				res["errmsg"] = s2b(lerr.Error())
			} else {
				res["dto"] = dtoJ(dto)
			}
			return res
		}), nil
	})

	// {"op":"load.packages","dir":scratch,"files":[[rel,text],..],"workers":n}
	//   -> {"err":b,"stage":"load"|"nodes","packages":[..],"nodes":n}
	register("load.packages", func(req map[string]any) (any, error) {
		d, err := freshDir(req)
		if err != nil {
			return nil, err
		}
		defer os.RemoveAll(d)
		files, _ := req["files"].([]any)
		if err := writeFiles(d, files); err != nil {
			return nil, err
		}
		workers := 1
		if w, ok := req["workers"].(float64); ok {
			workers = int(w)
		}
		config.Global.WorkspaceRoot = d
		config.Global.NumWorkers = workers
		return guarded(timeoutOf(req), func() any {
			ctx := console.WithLogger(context.Background(), nopLogger())
			if ms, ok := req["cancel_after_ms"].(float64); ok && ms > 0 {
				// what SIGINT / SIGTERM do in grog: console.SetupCommand cancels the command's context
				var cancel context.CancelFunc
				ctx, cancel = context.WithCancel(ctx)
				timer := time.AfterFunc(time.Duration(ms)*time.Millisecond, cancel)
				defer timer.Stop()
				defer cancel()
			}
			var pkgs []*model.Package
			var lerr error
			quietly(func() { pkgs, lerr = loading.LoadPackages(ctx, d) })
			if lerr != nil {
				return map[string]any{"err": true, "stage": "load", "errmsg": s2b(strings.ReplaceAll(lerr.Error(), d, "<ws>"))}
			}
			nodes, nerr := model.BuildNodeMapFromPackages(pkgs)
			if nerr != nil {
				return map[string]any{"err": true, "stage": "nodes", "errmsg": s2b(nerr.Error())}
			}
			sort.Slice(pkgs, func(i, j int) bool { return pkgs[i].Path < pkgs[j].Path })
			pj := make([]any, 0, len(pkgs))
			for _, p := range pkgs {
				pj = append(pj, packageJ(p))
			}
			return map[string]any{"err": false, "packages": pj, "nodes": len(nodes)}
		}), nil
	})

	// parameter instantiations -----------------------------------------------------------------
	register("yaml.annotation", func(req map[string]any) (any, error) {
		return guarded(timeoutOf(req), func() any {
			var a verifAnnotation
			if err := yaml.Unmarshal([]byte(b2s(req["content"])), &a); err != nil {
				return map[string]any{"ok": false}
			}
			return map[string]any{"ok": true, "ann": map[string]any{
				"name": s2b(a.Name), "deps": strs(a.Dependencies), "inputs": strs(a.Inputs), "tags": strs(a.Tags),
				"fingerprint": pairs(a.Fingerprint), "env": pairs(a.EnvironmentVariables), "timeout": s2b(a.Timeout),
				"platforms": strsOrNull(a.Platforms), "outputs": strs(a.Outputs)}}
		}), nil
	})
	register("glob", func(req map[string]any) (any, error) {
		d, err := freshDir(req)
		if err != nil {
			return nil, err
		}
		defer os.RemoveAll(d)
		files, _ := req["files"].([]any)
		if err := writeFiles(d, files); err != nil {
			return nil, err
		}
		sub := filepath.Join(d, b2s(req["pkg"]))
		pats, _ := req["patterns"].([]any)
		out := map[string]any{}
		for _, p := range pats {
			ps := b2s(p)
			m, gerr := doublestar.Glob(os.DirFS(sub), ps, doublestar.WithFilesOnly())
			if gerr != nil {
				out[s2b(ps)] = nil
			} else {
				out[s2b(ps)] = strs(m)
			}
		}
		return map[string]any{"table": out}, nil
	})
	register("duration", func(req map[string]any) (any, error) {
		dur, err := time.ParseDuration(b2s(req["s"]))
		if err != nil {
			return map[string]any{"ok": false}, nil
		}
		return map[string]any{"ok": true, "ns": strconv.FormatInt(int64(dur), 10)}, nil
	})
}
