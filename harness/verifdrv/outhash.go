//go:build verif

package main

import (
	"grog/internal/config"
	"grog/internal/output"
	"grog/internal/proto/gen"

	"google.golang.org/protobuf/proto"
)

func protoOutputs(v any) []*gen.Output {
	arr, _ := v.([]any)
	var outs []*gen.Output
	for _, x := range arr {
		o, _ := x.(map[string]any)
		var dg *gen.Digest
		if o["hash"] != nil {
			size, _ := o["size"].(float64)
			dg = &gen.Digest{Hash: b2s(o["hash"]), SizeBytes: int64(size)}
		}
		switch o["kind"] {
		case "file":
			exec, _ := o["exec"].(bool)
			outs = append(outs, &gen.Output{Kind: &gen.Output_File{File: &gen.FileOutput{Path: b2s(o["path"]), Digest: dg, IsExecutable: exec}}})
		case "dir":
			outs = append(outs, &gen.Output{Kind: &gen.Output_Directory{Directory: &gen.DirectoryOutput{Path: b2s(o["path"]), TreeDigest: dg}}})
		}
	}
	return outs
}

func init() {
	// hash.out: real getOutputHash over Output messages assembled from the request, plus the deterministic
	// marshalling of every message (compared byte-for-byte with the model's serOutput).
	register("hash.out", func(req map[string]any) (any, error) {
		config.Global.HashAlgorithm = b2s(req["algo"])
		outs := protoOutputs(req["outputs"])
		h, err := output.VerifGetOutputHash(outs)
		if err != nil {
			return map[string]any{"err": true}, nil
		}
		var ser []string
		for _, o := range outs {
			data, err := proto.MarshalOptions{Deterministic: true}.Marshal(o)
			if err != nil {
				return map[string]any{"err": true}, nil
			}
			ser = append(ser, s2b(string(data)))
		}
		if ser == nil {
			ser = []string{}
		}
		return map[string]any{"hash": s2b(h), "ser": ser}, nil
	})
}
