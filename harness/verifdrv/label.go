//go:build verif

package main

import (
	"grog/internal/label"
)

func init() {
	register("label.parse", func(req map[string]any) (any, error) {
		l, err := label.ParseTargetLabel(b2s(req["cur"]), b2s(req["s"]))
		if err != nil {
			return map[string]any{"ok": false}, nil
		}
		return map[string]any{"ok": true,
			"label": map[string]any{"pkg": s2b(l.Package), "name": s2b(l.Name)},
			"str":   s2b(l.String())}, nil
	})
	register("pattern.parse", func(req map[string]any) (any, error) {
		p, err := label.ParseTargetPattern(b2s(req["cur"]), b2s(req["s"]))
		if err != nil {
			return map[string]any{"ok": false}, nil
		}
		uni, _ := req["uni"].(map[string]any)
		m := []byte{}
		for _, pk := range strList(uni["pkgs"]) {
			for _, nm := range strList(uni["names"]) {
				if p.Matches(label.TargetLabel{Package: pk, Name: nm}) {
					m = append(m, '1')
				} else {
					m = append(m, '0')
				}
			}
		}
		return map[string]any{"ok": true,
			"pat": map[string]any{"pfx": s2b(p.Prefix()), "tp": s2b(p.Target()), "rec": p.Recursive()},
			"str": s2b(p.String()), "m": string(m)}, nil
	})
}
