//go:build verif

package main

import (
	"grog/internal/label"
)

func init() {
	register("label.parse", func(req map[string]any) (any, error) {
		l, err := label.ParseTargetLabel(b2s(req["cur"]), b2s(req["s"]))
		if err != nil {
			return map[string]any{"ok": false}, nil
		}
		return map[string]any{"ok": true,
			"label": map[string]any{"pkg": s2b(l.Package), "name": s2b(l.Name)},
			"str":   s2b(l.String())}, nil
	})
	register("label.short", func(req map[string]any) (any, error) {
		l := label.TargetLabel{Package: b2s(req["pkg"]), Name: b2s(req["name"])}
		return map[string]any{"short": l.CanBeShortened(), "str": s2b(l.String())}, nil
	})
	register("pattern.parse", func(req map[string]any) (any, error) {
		p, err := label.ParseTargetPattern(b2s(req["cur"]), b2s(req["s"]))
		if err != nil {
			return map[string]any{"ok": false}, nil
		}
		uni, _ := req["uni"].(map[string]any)
		m := []byte{}
		for _, pk := range strList(uni["pkgs"]) {
			for _, nm := range strList(uni["names"]) {
				if p.Matches(label.TargetLabel{Package: pk, Name: nm}) {
					m = append(m, '1')
				} else {
					m = append(m, '0')
				}
			}
		}
		return map[string]any{"ok": true,
			"pat": map[string]any{"pfx": s2b(p.Prefix()), "tp": s2b(p.Target()), "rec": p.Recursive()},
			"str": s2b(p.String()), "m": string(m)}, nil
	})
	// patterns.parse: ParsePatternsOrMatchAll on the argument list; "m" = for every label of the universe, does any of the
	// returned patterns match (what Selector.nodeMatchesPatterns computes)
	register("patterns.parse", func(req map[string]any) (any, error) {
		ps, err := label.ParsePatternsOrMatchAll(b2s(req["cur"]), strList(req["ss"]))
		if err != nil {
			return map[string]any{"ok": false}, nil
		}
		uni, _ := req["uni"].(map[string]any)
		m := []byte{}
		for _, pk := range strList(uni["pkgs"]) {
			for _, nm := range strList(uni["names"]) {
				c := byte('0')
				for _, p := range ps {
					if p.Matches(label.TargetLabel{Package: pk, Name: nm}) {
						c = '1'
					}
				}
				m = append(m, c)
			}
		}
		pats := []any{}
		for _, p := range ps {
			pats = append(pats, map[string]any{"pfx": s2b(p.Prefix()), "tp": s2b(p.Target()), "rec": p.Recursive()})
		}
		return map[string]any{"ok": true, "pats": pats, "str": s2b(label.PatternSetToString(ps)), "m": string(m)}, nil
	})
	// pattern.fromlabel: TargetPatternFromLabel (used by `grog run`)
	register("pattern.fromlabel", func(req map[string]any) (any, error) {
		p := label.TargetPatternFromLabel(label.TargetLabel{Package: b2s(req["pkg"]), Name: b2s(req["name"])})
		uni, _ := req["uni"].(map[string]any)
		m := []byte{}
		for _, pk := range strList(uni["pkgs"]) {
			for _, nm := range strList(uni["names"]) {
				if p.Matches(label.TargetLabel{Package: pk, Name: nm}) {
					m = append(m, '1')
				} else {
					m = append(m, '0')
				}
			}
		}
		return map[string]any{"pat": map[string]any{"pfx": s2b(p.Prefix()), "tp": s2b(p.Target()), "rec": p.Recursive()}, "str": s2b(p.String()), "m": string(m)}, nil
	})
}
