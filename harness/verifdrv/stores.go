//go:build verif

// Implementation-side ops of the store group (C06, C07, C08): the real output handlers, the real
// Cas / TargetResultCache, the real FileSystemCache and RemoteWrapper, driven on generated directory
// trees, fault plans and two-machine histories.  All directories live under the "scratch" directory
// named in the request (vlib ctx.scratch(), under /verif/.work).
package main

import (
	"bytes"
	"context"
	"errors"
	"fmt"
	"io"
	"os"
	"path/filepath"
	"sort"
	"strings"
	"sync"
	"time"

	"google.golang.org/protobuf/proto"

	"grog/internal/caching"
	"grog/internal/caching/backends"
	"grog/internal/config"
	"grog/internal/console"
	"grog/internal/hashing"
	"grog/internal/label"
	"grog/internal/model"
	"grog/internal/output"
	"grog/internal/proto/gen"
)

// ------------------------------------------------------------------------------------------------
// Entry trees:  ["f", bytes, exec] | ["d", [[name, entry], ...]] | ["l", target]
// ------------------------------------------------------------------------------------------------

func materialise(path string, e any) error {
	arr, ok := e.([]any)
	if !ok || len(arr) < 2 {
		return fmt.Errorf("bad entry at %s", path)
	}
	switch arr[0] {
	case "f":
		mode := os.FileMode(0644)
		if x, _ := arr[2].(bool); x {
			mode = 0755
		}
		if err := os.WriteFile(path, []byte(b2s(arr[1])), mode); err != nil {
			return err
		}
		return os.Chmod(path, mode)
	case "l":
		return os.Symlink(b2s(arr[1]), path)
	case "d":
		if err := os.MkdirAll(path, 0755); err != nil {
			return err
		}
		es, _ := arr[1].([]any)
		for _, ne := range es {
			p, _ := ne.([]any)
			if len(p) != 2 {
				return fmt.Errorf("bad dir entry at %s", path)
			}
			if err := materialise(filepath.Join(path, b2s(p[0])), p[1]); err != nil {
				return err
			}
		}
		return nil
	}
	return fmt.Errorf("bad entry kind at %s", path)
}

// listing reads the file system back into an entry tree (lstat based; entries sorted by name).
func listing(path string) (any, error) {
	info, err := os.Lstat(path)
	if err != nil {
		return nil, err
	}
	switch {
	case info.Mode()&os.ModeSymlink != 0:
		t, err := os.Readlink(path)
		if err != nil {
			return nil, err
		}
		return []any{"l", s2b(t)}, nil
	case info.IsDir():
		ents, err := os.ReadDir(path)
		if err != nil {
			return nil, err
		}
		names := make([]string, 0, len(ents))
		for _, e := range ents {
			names = append(names, e.Name())
		}
		sort.Strings(names)
		out := make([]any, 0, len(names))
		for _, n := range names {
			sub, err := listing(filepath.Join(path, n))
			if err != nil {
				return nil, err
			}
			out = append(out, []any{s2b(n), sub})
		}
		return []any{"d", out}, nil
	case info.Mode().IsRegular():
		b, err := os.ReadFile(path)
		if err != nil {
			return nil, err
		}
		return []any{"f", s2b(string(b)), info.Mode()&0111 != 0}, nil
	}
	return []any{"other", info.Mode().String()}, nil
}

// ------------------------------------------------------------------------------------------------
// Recording / fault-injecting backend
// ------------------------------------------------------------------------------------------------

type opRec struct {
	N     int    `json:"n"`
	Op    string `json:"op"`
	Path  string `json:"path"`
	Key   string `json:"key"`
	Fault string `json:"fault,omitempty"`
	Res   string `json:"res"`
}

// recBackend wraps a CacheBackend, numbers the operations, records them and injects faults:
//
//	plan[n] = "err"        the n-th operation fails without reaching the inner backend
//	plan[n] = "err-after"  (Set only) the inner backend stores the value, then an error is returned
//	plan[n] = "err-mid"    (Set) the content reader fails half way; (Get) the returned reader fails half way
type recBackend struct {
	inner backends.CacheBackend
	mu    sync.Mutex
	n     int
	plan  map[int]string
	every string // fault applied to every operation from `from` on (repeated faults)
	from  int
	ops   []opRec
}

var errInjected = errors.New("injected fault")

func (r *recBackend) TypeName() string { return r.inner.TypeName() }

func (r *recBackend) begin(op, path, key string) (int, string) {
	r.mu.Lock()
	defer r.mu.Unlock()
	r.n++
	f := r.plan[r.n]
	if f == "" && r.every != "" && r.n >= r.from {
		f = r.every
	}
	r.ops = append(r.ops, opRec{N: r.n, Op: op, Path: path, Key: key, Fault: f, Res: "?"})
	return r.n, f
}

func (r *recBackend) end(n int, res string) {
	r.mu.Lock()
	defer r.mu.Unlock()
	for i := range r.ops {
		if r.ops[i].N == n {
			r.ops[i].Res = res
		}
	}
}

func (r *recBackend) count(op string) int {
	r.mu.Lock()
	defer r.mu.Unlock()
	c := 0
	for _, o := range r.ops {
		if o.Op == op {
			c++
		}
	}
	return c
}

type failingReader struct {
	r    io.Reader
	left int
}

func (f *failingReader) Read(p []byte) (int, error) {
	if f.left <= 0 {
		return 0, errInjected
	}
	if len(p) > f.left {
		p = p[:f.left]
	}
	n, err := f.r.Read(p)
	f.left -= n
	if err == io.EOF {
		return n, errInjected
	}
	return n, err
}

type failingReadCloser struct {
	failingReader
	c io.Closer
}

func (f *failingReadCloser) Close() error { return f.c.Close() }

func (r *recBackend) Get(ctx context.Context, path, key string) (io.ReadCloser, error) {
	n, f := r.begin("get", path, key)
	if f == "err" || f == "err-after" {
		r.end(n, "err")
		return nil, errInjected
	}
	rc, err := r.inner.Get(ctx, path, key)
	if err != nil {
		r.end(n, "miss")
		return nil, err
	}
	if f == "err-mid" {
		r.end(n, "err-mid")
		return &failingReadCloser{failingReader{rc, 1}, rc}, nil
	}
	r.end(n, "ok")
	return rc, nil
}

func (r *recBackend) Set(ctx context.Context, path, key string, content io.Reader) error {
	n, f := r.begin("set", path, key)
	switch f {
	case "err":
		r.end(n, "err")
		return errInjected
	case "err-mid":
		err := r.inner.Set(ctx, path, key, &failingReader{content, 1})
		if err == nil {
			err = errInjected
		}
		r.end(n, "err")
		return err
	case "err-after":
		err := r.inner.Set(ctx, path, key, content)
		if err == nil {
			r.end(n, "err-stored")
			return errInjected
		}
		r.end(n, "err")
		return err
	}
	err := r.inner.Set(ctx, path, key, content)
	if err != nil {
		r.end(n, "err")
	} else {
		r.end(n, "ok")
	}
	return err
}

func (r *recBackend) Delete(ctx context.Context, path, key string) error {
	n, f := r.begin("delete", path, key)
	if f != "" {
		r.end(n, "err")
		return errInjected
	}
	err := r.inner.Delete(ctx, path, key)
	if err != nil {
		r.end(n, "err")
	} else {
		r.end(n, "ok")
	}
	return err
}

func (r *recBackend) Exists(ctx context.Context, path, key string) (bool, error) {
	n, f := r.begin("exists", path, key)
	if f != "" {
		r.end(n, "err")
		return false, errInjected
	}
	ok, err := r.inner.Exists(ctx, path, key)
	switch {
	case err != nil:
		r.end(n, "err")
	case ok:
		r.end(n, "true")
	default:
		r.end(n, "false")
	}
	return ok, err
}

// ------------------------------------------------------------------------------------------------
// Environment of one case
// ------------------------------------------------------------------------------------------------

type storeEnv struct {
	ctx   context.Context
	dir   string // case directory
	ws    string // workspace root
	cache string // cas/target directory of the file-system cache
	fs    *backends.FileSystemCache
}

var caseCounter int

func newStoreEnv(req map[string]any) (*storeEnv, error) {
	scratch, _ := req["scratch"].(string)
	if scratch == "" {
		return nil, fmt.Errorf("scratch directory missing")
	}
	caseCounter++
	dir := filepath.Join(scratch, fmt.Sprintf("case-%d-%d", os.Getpid(), caseCounter))
	ws := filepath.Join(dir, "ws")
	if err := os.MkdirAll(ws, 0755); err != nil {
		return nil, err
	}
	algo, _ := req["hash"].(string)
	config.Global = config.WorkspaceConfig{
		Root:          filepath.Join(dir, "root"),
		WorkspaceRoot: ws,
		LogLevel:      "error",
		LogOutputPath: "stderr",
		HashAlgorithm: algo,
		EnableCache:   true,
	}
	ctx := console.WithLogger(context.Background(), console.InitLogger())
	fs, err := backends.NewFileSystemCache(ctx)
	if err != nil {
		return nil, err
	}
	return &storeEnv{ctx: ctx, dir: dir, ws: ws, cache: config.Global.GetWorkspaceCacheDirectory(), fs: fs}, nil
}

func (e *storeEnv) close() { os.RemoveAll(e.dir) }

// resetWorkspace replaces the workspace content by the given root entry (a "d" entry).
func (e *storeEnv) resetWorkspace(root any) error {
	if err := os.RemoveAll(e.ws); err != nil {
		return err
	}
	return materialise(e.ws, root)
}

func parseOutputs(v any) []model.Output {
	arr, _ := v.([]any)
	outs := []model.Output{}
	for _, o := range arr {
		p, _ := o.([]any)
		if len(p) == 2 {
			t, _ := p[0].(string)
			outs = append(outs, model.NewOutput(t, b2s(p[1])))
		}
	}
	return outs
}

func errClass(err error) string {
	if err == nil {
		return "ok"
	}
	return "err"
}

// withTimeout runs f and reports "hang" if it does not return in time (the goroutine is abandoned).
func withTimeout(d time.Duration, f func() error) (err error, hung bool) {
	done := make(chan error, 1)
	go func() { done <- f() }()
	select {
	case err = <-done:
		return err, false
	case <-time.After(d):
		return nil, true
	}
}

// casFiles lists cas/<digest> files (visible names only) with their content.
func dirFiles(dir string) map[string][]byte {
	out := map[string][]byte{}
	ents, err := os.ReadDir(dir)
	if err != nil {
		return out
	}
	for _, e := range ents {
		b, err := os.ReadFile(filepath.Join(dir, e.Name()))
		if err == nil {
			out[e.Name()] = b
		}
	}
	return out
}

// ------------------------------------------------------------------------------------------------
// C06: write outputs of a target from workspace state `ws`, then restore them into workspace state `prior`
// ------------------------------------------------------------------------------------------------

func init() {
	register("store.roundtrip", func(req map[string]any) (any, error) {
		env, err := newStoreEnv(req)
		if err != nil {
			return nil, err
		}
		defer env.close()
		res := map[string]any{}
		if err := env.resetWorkspace(req["ws"]); err != nil {
			return nil, fmt.Errorf("materialise ws: %w", err)
		}
		pkg := b2s(req["pkg"])
		outs := parseOutputs(req["outputs"])
		bin := b2s(req["bin"])
		rec := &recBackend{inner: env.fs}
		cas := caching.NewCas(rec)
		reg := output.NewRegistry(env.ctx, cas)
		target := &model.Target{Label: label.TL(pkg, "t"), ChangeHash: "k1", Outputs: outs}
		if bin != "" {
			target.BinOutput = model.NewOutput("file", bin)
			// what execute.go does after the command ran (markBinOutputExecutable)
			_ = os.Chmod(filepath.Join(env.ws, pkg, bin), 0755)
		}
		before, err := listing(env.ws)
		if err != nil {
			return nil, err
		}
		res["before"] = before
		result, werr := reg.WriteOutputs(env.ctx, target, nil)
		res["write"] = errClass(werr)
		if werr != nil {
			res["write_msg"] = werr.Error()
			return res, nil
		}
		// what was stored
		blobs := dirFiles(filepath.Join(env.cache, "cas"))
		res["nblobs"] = len(blobs)
		nchildren := 0
		isExecFlags := []any{}
		for _, o := range result.Outputs {
			if d := o.GetDirectory(); d != nil {
				tree := &gen.Tree{}
				if b, ok := blobs[d.GetTreeDigest().GetHash()]; ok && proto.Unmarshal(b, tree) == nil {
					nchildren += len(tree.Children)
				}
			}
			if f := o.GetFile(); f != nil {
				isExecFlags = append(isExecFlags, []any{s2b(f.GetPath()), f.GetIsExecutable()})
			}
		}
		res["nchildren"] = nchildren
		res["file_exec_flags"] = isExecFlags
		// drop blobs before the restore (missing-blob families)
		for _, d := range strList(req["drop"]) {
			for _, o := range result.Outputs {
				switch {
				case d == "tree" && o.GetDirectory() != nil:
					os.Remove(filepath.Join(env.cache, "cas", o.GetDirectory().GetTreeDigest().GetHash()))
				case d == "file" && o.GetFile() != nil:
					os.Remove(filepath.Join(env.cache, "cas", o.GetFile().GetDigest().GetHash()))
				}
			}
		}
		// restore into the prior state; a fresh Cas (new process), declared outputs possibly different
		if err := env.resetWorkspace(req["prior"]); err != nil {
			return nil, fmt.Errorf("materialise prior: %w", err)
		}
		rec2 := &recBackend{inner: env.fs}
		cas2 := caching.NewCas(rec2)
		reg2 := output.NewRegistry(env.ctx, cas2)
		outs2 := outs
		if _, ok := req["declared2"]; ok {
			outs2 = parseOutputs(req["declared2"])
		}
		target2 := &model.Target{Label: label.TL(pkg, "t"), ChangeHash: "k1", Outputs: outs2}
		if bin != "" {
			target2.BinOutput = model.NewOutput("file", bin)
		}
		lerr, hung := withTimeout(20*time.Second, func() error { return reg2.LoadOutputs(env.ctx, target2, result, nil) })
		switch {
		case hung:
			res["load"] = "hang"
		case lerr != nil && strings.Contains(lerr.Error(), "cached outputs mismatch"):
			res["load"] = "err-validate"
			res["load_msg"] = lerr.Error()
		default:
			res["load"] = errClass(lerr)
			if lerr != nil {
				res["load_msg"] = lerr.Error()
			}
		}
		res["gets"] = rec2.count("get")
		// LoadOutputs returns on the first failing output while the restores of the other outputs may still be
		// running in the registry's pool: the listing after a failed load is not stable and is only informative.
		var after any
		for try := 0; try < 5; try++ {
			if lerr != nil || hung {
				time.Sleep(20 * time.Millisecond)
			}
			after, err = listing(env.ws)
			if err == nil {
				break
			}
		}
		if err != nil && lerr == nil && !hung {
			return nil, err
		}
		res["after"] = after
		return res, nil
	})

	// hash of a byte string under the configured algorithm (used by audits on the Python side)
	register("store.hash", func(req map[string]any) (any, error) {
		algo, _ := req["hash"].(string)
		config.Global.HashAlgorithm = algo
		return map[string]any{"h": hashing.HashBytes([]byte(b2s(req["b"])))}, nil
	})
}

var _ = bytes.NewReader
