//go:build verif

// Implementation-side ops of the store group (C06, C07, C08): the real output handlers, the real
// Cas / TargetResultCache, the real FileSystemCache and RemoteWrapper, driven on generated directory
// trees, fault plans and two-machine histories.  All directories live under the "scratch" directory
// named in the request (vlib ctx.scratch(), under /verif/.work).
package main

import (
	"bytes"
	"context"
	"crypto/sha256"
	"encoding/base64"
	"encoding/binary"
	"encoding/hex"
	"encoding/json"
	"errors"
	"fmt"
	"hash/crc32"
	"io"
	"net/http"
	"net/http/httptest"
	"net/url"
	"os"
	"os/signal"
	"path/filepath"
	"sort"
	"strings"
	"sync"
	"sync/atomic"
	"syscall"
	"time"

	"google.golang.org/protobuf/proto"

	"grog/internal/caching"
	"grog/internal/caching/backends"
	"grog/internal/config"
	"grog/internal/console"
	"grog/internal/hashing"
	"grog/internal/label"
	"grog/internal/model"
	"grog/internal/output"
	"grog/internal/proto/gen"
	"grog/internal/worker"
)

// ------------------------------------------------------------------------------------------------
// Entry trees:  ["f", bytes, exec] | ["d", [[name, entry], ...]] | ["l", target]
// ------------------------------------------------------------------------------------------------

// fileMode of a file entry: arr[2] is the executable flag (0755 / 0644) or, for prior states, an explicit permission mode.
func fileMode(v any) os.FileMode {
	if n, ok := v.(float64); ok {
		return os.FileMode(int(n)) & 0777
	}
	if x, _ := v.(bool); x {
		return 0755
	}
	return 0644
}

// bigFileThreshold: regular files above this size are listed by an independent digest (SHA-256) instead of their bytes.
const bigFileThreshold = 1 << 20

func materialise(path string, e any) error {
	arr, ok := e.([]any)
	if !ok || len(arr) < 2 {
		return fmt.Errorf("bad entry at %s", path)
	}
	switch arr[0] {
	case "f":
		mode := fileMode(arr[2])
		if err := os.WriteFile(path, []byte(b2s(arr[1])), 0644); err != nil {
			return err
		}
		return os.Chmod(path, mode)
	case "fb":
		// a large file given by runs [[byte, count], ...] (block-generated: multi-MiB outputs without multi-MiB requests)
		f, err := os.Create(path)
		if err != nil {
			return err
		}
		runs, _ := arr[1].([]any)
		for _, r := range runs {
			p, _ := r.([]any)
			if len(p) != 2 {
				f.Close()
				return fmt.Errorf("bad run at %s", path)
			}
			bv, _ := p[0].(float64)
			cnt, _ := p[1].(float64)
			chunk := bytes.Repeat([]byte{byte(int(bv))}, 1<<16)
			for left := int(cnt); left > 0; {
				n := len(chunk)
				if left < n {
					n = left
				}
				if _, err := f.Write(chunk[:n]); err != nil {
					f.Close()
					return err
				}
				left -= n
			}
		}
		if err := f.Close(); err != nil {
			return err
		}
		return os.Chmod(path, fileMode(arr[2]))
	case "l":
		return os.Symlink(b2s(arr[1]), path)
	case "d":
		if err := os.MkdirAll(path, 0755); err != nil {
			return err
		}
		es, _ := arr[1].([]any)
		for _, ne := range es {
			p, _ := ne.([]any)
			if len(p) != 2 {
				return fmt.Errorf("bad dir entry at %s", path)
			}
			if err := materialise(filepath.Join(path, b2s(p[0])), p[1]); err != nil {
				return err
			}
		}
		return nil
	}
	return fmt.Errorf("bad entry kind at %s", path)
}

// listing reads the file system back into an entry tree (lstat based; entries sorted by name).
func listing(path string) (any, error) {
	info, err := os.Lstat(path)
	if err != nil {
		return nil, err
	}
	switch {
	case info.Mode()&os.ModeSymlink != 0:
		t, err := os.Readlink(path)
		if err != nil {
			return nil, err
		}
		return []any{"l", s2b(t)}, nil
	case info.IsDir():
		ents, err := os.ReadDir(path)
		if err != nil {
			return nil, err
		}
		names := make([]string, 0, len(ents))
		for _, e := range ents {
			names = append(names, e.Name())
		}
		sort.Strings(names)
		out := make([]any, 0, len(names))
		for _, n := range names {
			sub, err := listing(filepath.Join(path, n))
			if err != nil {
				return nil, err
			}
			out = append(out, []any{s2b(n), sub})
		}
		return []any{"d", out}, nil
	case info.Mode().IsRegular():
		// executable = the owner may run it (a restored binary output must be runnable); the check only caches files
		// with modes 0644 / 0755, other modes occur in prior states of a destination
		exec := info.Mode()&0100 != 0
		if info.Size() > bigFileThreshold {
			f, err := os.Open(path)
			if err != nil {
				return nil, err
			}
			defer f.Close()
			h := sha256.New()
			if _, err := io.Copy(h, f); err != nil {
				return nil, err
			}
			return []any{"fh", hex.EncodeToString(h.Sum(nil)), info.Size(), exec}, nil
		}
		b, err := os.ReadFile(path)
		if err != nil {
			return nil, err
		}
		return []any{"f", s2b(string(b)), exec}, nil
	}
	return []any{"other", info.Mode().String()}, nil
}

// ------------------------------------------------------------------------------------------------
// Recording / fault-injecting backend
// ------------------------------------------------------------------------------------------------

type opRec struct {
	N     int    `json:"n"`
	Op    string `json:"op"`
	Path  string `json:"path"`
	Key   string `json:"key"`
	Fault string `json:"fault,omitempty"`
	Res   string `json:"res"`
}

// recBackend wraps a CacheBackend, numbers the operations, records them and injects faults:
//
//	plan[n] = "err"        the n-th operation fails without reaching the inner backend
//	plan[n] = "err-after"  (Set only) the inner backend stores the value, then an error is returned
//	plan[n] = "err-mid"    (Set) the content reader fails half way; (Get) the returned reader fails half way
type recBackend struct {
	inner backends.CacheBackend
	mu    sync.Mutex
	n     int
	plan  map[int]string
	every string // fault applied to every operation from `from` on (repeated faults)
	from  int
	ops   []opRec
}

var errInjected = errors.New("injected fault")

func (r *recBackend) TypeName() string { return r.inner.TypeName() }

func (r *recBackend) begin(op, path, key string) (int, string) {
	r.mu.Lock()
	defer r.mu.Unlock()
	r.n++
	f := r.plan[r.n]
	if f == "" && r.every != "" && r.n >= r.from {
		f = r.every
	}
	r.ops = append(r.ops, opRec{N: r.n, Op: op, Path: path, Key: key, Fault: f, Res: "?"})
	return r.n, f
}

func (r *recBackend) end(n int, res string) {
	r.mu.Lock()
	defer r.mu.Unlock()
	for i := range r.ops {
		if r.ops[i].N == n {
			r.ops[i].Res = res
		}
	}
}

func (r *recBackend) count(op string) int {
	r.mu.Lock()
	defer r.mu.Unlock()
	c := 0
	for _, o := range r.ops {
		if o.Op == op {
			c++
		}
	}
	return c
}

type failingReader struct {
	r    io.Reader
	left int
}

func (f *failingReader) Read(p []byte) (int, error) {
	if f.left <= 0 {
		return 0, errInjected
	}
	if len(p) > f.left {
		p = p[:f.left]
	}
	n, err := f.r.Read(p)
	f.left -= n
	if err == io.EOF {
		return n, errInjected
	}
	return n, err
}

type failingReadCloser struct {
	failingReader
	c io.Closer
}

func (f *failingReadCloser) Close() error { return f.c.Close() }

func (r *recBackend) Get(ctx context.Context, path, key string) (io.ReadCloser, error) {
	n, f := r.begin("get", path, key)
	if f == "err" || f == "err-after" {
		r.end(n, "err")
		return nil, errInjected
	}
	rc, err := r.inner.Get(ctx, path, key)
	if err != nil {
		r.end(n, "miss")
		return nil, err
	}
	if f == "err-mid" {
		r.end(n, "err-mid")
		return &failingReadCloser{failingReader{rc, 1}, rc}, nil
	}
	r.end(n, "ok")
	return rc, nil
}

func (r *recBackend) Set(ctx context.Context, path, key string, content io.Reader) error {
	n, f := r.begin("set", path, key)
	switch f {
	case "err":
		r.end(n, "err")
		return errInjected
	case "err-mid":
		err := r.inner.Set(ctx, path, key, &failingReader{content, 1})
		if err == nil {
			err = errInjected
		}
		r.end(n, "err")
		return err
	case "err-after":
		err := r.inner.Set(ctx, path, key, content)
		if err == nil {
			r.end(n, "err-stored")
			return errInjected
		}
		r.end(n, "err")
		return err
	}
	err := r.inner.Set(ctx, path, key, content)
	if err != nil {
		r.end(n, "err")
	} else {
		r.end(n, "ok")
	}
	return err
}

func (r *recBackend) Delete(ctx context.Context, path, key string) error {
	n, f := r.begin("delete", path, key)
	if f != "" {
		r.end(n, "err")
		return errInjected
	}
	err := r.inner.Delete(ctx, path, key)
	if err != nil {
		r.end(n, "err")
	} else {
		r.end(n, "ok")
	}
	return err
}

func (r *recBackend) Exists(ctx context.Context, path, key string) (bool, error) {
	n, f := r.begin("exists", path, key)
	if f != "" {
		r.end(n, "err")
		return false, errInjected
	}
	ok, err := r.inner.Exists(ctx, path, key)
	switch {
	case err != nil:
		r.end(n, "err")
	case ok:
		r.end(n, "true")
	default:
		r.end(n, "false")
	}
	return ok, err
}

// ------------------------------------------------------------------------------------------------
// Environment of one case
// ------------------------------------------------------------------------------------------------

type storeEnv struct {
	ctx   context.Context
	dir   string // case directory
	ws    string // workspace root
	cache string // cas/target directory of the file-system cache
	fs    *backends.FileSystemCache
}

var storesCaseCounter int

func newStoreEnv(req map[string]any) (*storeEnv, error) {
	setOpTimeout(req)
	liftFileSizeLimit()
	scratch, _ := req["scratch"].(string)
	if scratch == "" {
		return nil, fmt.Errorf("scratch directory missing")
	}
	storesCaseCounter++
	dir := filepath.Join(scratch, fmt.Sprintf("case-%d-%d", os.Getpid(), storesCaseCounter))
	// the workspace root may live below awkwardly named directories (glob meta characters, spaces, unicode)
	wsname := b2s(req["wsname"])
	if wsname == "" {
		wsname = "ws"
	}
	ws := filepath.Join(dir, wsname)
	if err := os.MkdirAll(ws, 0755); err != nil {
		return nil, err
	}
	algo, _ := req["hash"].(string)
	config.Global = config.WorkspaceConfig{
		Root:          filepath.Join(dir, "root"),
		WorkspaceRoot: ws,
		LogLevel:      "error",
		LogOutputPath: "stderr",
		HashAlgorithm: algo,
		EnableCache:   true,
	}
	ctx := console.WithLogger(context.Background(), console.InitLogger())
	fs, err := backends.NewFileSystemCache(ctx)
	if err != nil {
		return nil, err
	}
	return &storeEnv{ctx: ctx, dir: dir, ws: ws, cache: config.Global.GetWorkspaceCacheDirectory(), fs: fs}, nil
}

func (e *storeEnv) close() { os.RemoveAll(e.dir) }

// tracker returns a real ProgressTracker when the request asks for one: the handlers then wrap every stream they hand to
// the CAS in a progress reader, which is a plain io.Reader (not an io.Seeker / io.ReaderFrom source), as in a real build.
func tracker(req map[string]any) *worker.ProgressTracker {
	if on, _ := req["progress"].(bool); on {
		return worker.NewProgressTracker("verif", 0, func(worker.StatusUpdate) {})
	}
	return nil
}

// resetWorkspace replaces the workspace content by the given root entry (a "d" entry).
func (e *storeEnv) resetWorkspace(root any) error {
	if err := os.RemoveAll(e.ws); err != nil {
		return err
	}
	return materialise(e.ws, root)
}

func parseOutputs(v any) []model.Output {
	arr, _ := v.([]any)
	outs := []model.Output{}
	for _, o := range arr {
		p, _ := o.([]any)
		if len(p) == 2 {
			t, _ := p[0].(string)
			outs = append(outs, model.NewOutput(t, b2s(p[1])))
		}
	}
	return outs
}

func errClass(err error) string {
	if err == nil {
		return "ok"
	}
	return "err"
}

// tamperInPlace modifies every regular file at / below path without replacing it (the inode stays the same).
func tamperInPlace(path, how string) {
	filepath.Walk(path, func(p string, info os.FileInfo, err error) error {
		if err != nil || !info.Mode().IsRegular() {
			return nil
		}
		switch how {
		case "append":
			if f, e := os.OpenFile(p, os.O_WRONLY|os.O_APPEND, 0); e == nil {
				f.WriteString("tampered\n")
				f.Close()
			}
		case "truncate":
			os.Truncate(p, info.Size()/2)
		case "overwrite":
			if f, e := os.OpenFile(p, os.O_WRONLY, 0); e == nil {
				f.WriteString("X")
				f.Close()
			}
		case "chmod":
			os.Chmod(p, info.Mode().Perm()^0111)
		}
		return nil
	})
}

// loadResultTimed loads a target result; a load that does not return is reported as a hang.
func loadResultTimed(ctx context.Context, tc *caching.TargetResultCache, key string) (*gen.TargetResult, error, bool) {
	var res *gen.TargetResult
	err, hung := withTimeout(opTimeout, func() error {
		var e error
		res, e = tc.Load(ctx, key)
		return e
	})
	return res, err, hung
}

// quiesce waits until the directory tree stops changing. LoadOutputs returns on the first failing output while the
// restores of other outputs (and the download goroutines of a failed directory restore) may still be running; a real
// follow-up build is a new process, so the harness lets such leftovers finish before the next step.
func quiesce(dir string) {
	prev := ""
	for i := 0; i < 40; i++ {
		l, _ := listing(dir)
		cur, _ := jsonString(l)
		if i > 0 && cur == prev {
			return
		}
		prev = cur
		time.Sleep(25 * time.Millisecond)
	}
}

// opTimeout is the time after which an operation is reported as hanging (request field "timeout_s", default 10 s).
var opTimeout = 10 * time.Second

func setOpTimeout(req map[string]any) {
	opTimeout = 10 * time.Second
	hangLimit = 3
	if f, ok := req["timeout_s"].(float64); ok && f > 0 {
		// a confirmation run (one request, longer timeout): the first operation that hangs for the full timeout confirms
		// the hang, the following ones are cut short
		opTimeout = time.Duration(f * float64(time.Second))
		hangLimit = 1
	}
}

var hangLimit int64 = 3

// withTimeout runs f and reports "hang" if it does not return in time (the goroutine is abandoned).
func withTimeout(d time.Duration, f func() error) (err error, hung bool) {
	// circuit breaker: once several operations of this driver process have hung, the tree is broken in a way the check
	// will report anyway (hangs are confirmed by a separate re-run); do not spend the full timeout on every further one
	if hangCount.Load() >= hangLimit && d > 2*time.Second {
		d = 2 * time.Second
	}
	done := make(chan error, 1)
	go func() { done <- f() }()
	select {
	case err = <-done:
		return err, false
	case <-time.After(d):
		hangCount.Add(1)
		return nil, true
	}
}

var hangCount atomic.Int64

// casFiles lists cas/<digest> files (visible names only) with their content.
func dirFiles(dir string) map[string][]byte {
	out := map[string][]byte{}
	ents, err := os.ReadDir(dir)
	if err != nil {
		return out
	}
	for _, e := range ents {
		b, err := os.ReadFile(filepath.Join(dir, e.Name()))
		if err == nil {
			out[e.Name()] = b
		}
	}
	return out
}

// ------------------------------------------------------------------------------------------------
// C06: write outputs of a target from workspace state `ws`, then restore them into workspace state `prior`
// ------------------------------------------------------------------------------------------------

func init() {
	register("store.roundtrip", func(req map[string]any) (any, error) {
		env, err := newStoreEnv(req)
		if err != nil {
			return nil, err
		}
		defer env.close()
		res := map[string]any{}
		if err := env.resetWorkspace(req["ws"]); err != nil {
			return nil, fmt.Errorf("materialise ws: %w", err)
		}
		pkg := b2s(req["pkg"])
		outs := parseOutputs(req["outputs"])
		bin := b2s(req["bin"])
		// "direct": the caching layer gets the concrete backend, as in grog itself (no recording wrapper in between: code that
		// looks at the backend's dynamic type behaves as in production); the number of reads is then not observed
		direct, _ := req["direct"].(bool)
		rec := &recBackend{inner: env.fs}
		cas := caching.NewCas(rec)
		if direct {
			cas = caching.NewCas(env.fs)
		}
		reg := output.NewRegistry(env.ctx, cas)
		target := &model.Target{Label: label.TL(pkg, "t"), ChangeHash: "k1", Outputs: outs}
		if bin != "" {
			target.BinOutput = model.NewOutput("file", bin)
			// what execute.go does after the command ran (markBinOutputExecutable)
			_ = os.Chmod(filepath.Join(env.ws, pkg, bin), 0755)
		}
		if earlier, ok := req["earlier"]; ok {
			// an earlier build of the same target (another change hash) cached another version of the outputs in the same cache
			if err := env.resetWorkspace(earlier); err != nil {
				return nil, fmt.Errorf("materialise earlier: %w", err)
			}
			t0 := &model.Target{Label: label.TL(pkg, "t"), ChangeHash: "k0", Outputs: outs}
			_, e0 := output.NewRegistry(env.ctx, caching.NewCas(env.fs)).WriteOutputs(env.ctx, t0, tracker(req))
			res["earlier_write"] = errClass(e0)
			if err := env.resetWorkspace(req["ws"]); err != nil {
				return nil, fmt.Errorf("materialise ws: %w", err)
			}
		}
		before, err := listing(env.ws)
		if err != nil {
			return nil, err
		}
		res["before"] = before
		result, werr := reg.WriteOutputs(env.ctx, target, tracker(req))
		res["write"] = errClass(werr)
		if werr != nil {
			res["write_msg"] = werr.Error()
			return res, nil
		}
		// what was stored
		blobs := dirFiles(filepath.Join(env.cache, "cas"))
		res["nblobs"] = len(blobs)
		nchildren := 0
		isExecFlags := []any{}
		for _, o := range result.Outputs {
			if d := o.GetDirectory(); d != nil {
				tree := &gen.Tree{}
				if b, ok := blobs[d.GetTreeDigest().GetHash()]; ok && proto.Unmarshal(b, tree) == nil {
					nchildren += len(tree.Children)
				}
			}
			if f := o.GetFile(); f != nil {
				isExecFlags = append(isExecFlags, []any{s2b(f.GetPath()), f.GetIsExecutable()})
			}
		}
		res["nchildren"] = nchildren
		res["file_exec_flags"] = isExecFlags
		// drop blobs before the restore (missing-blob families)
		for _, d := range strList(req["drop"]) {
			for _, o := range result.Outputs {
				switch {
				case d == "tree" && o.GetDirectory() != nil:
					os.Remove(filepath.Join(env.cache, "cas", o.GetDirectory().GetTreeDigest().GetHash()))
				case d == "file" && o.GetFile() != nil:
					os.Remove(filepath.Join(env.cache, "cas", o.GetFile().GetDigest().GetHash()))
				case d == "dirfiles" && o.GetDirectory() != nil:
					// every file blob the tree references
					if tb, ok := blobs[o.GetDirectory().GetTreeDigest().GetHash()]; ok {
						for _, fd := range treeFileDigests(tb) {
							os.Remove(filepath.Join(env.cache, "cas", fd))
						}
					}
				}
			}
		}
		// restore into the prior state; a fresh Cas (new process), declared outputs possibly different
		if err := env.resetWorkspace(req["prior"]); err != nil {
			return nil, fmt.Errorf("materialise prior: %w", err)
		}
		rec2 := &recBackend{inner: env.fs}
		if gf, ok := req["getfault"].(map[string]any); ok {
			// the n-th backend operation of the restore fails ("err") or its reader fails after the first byte ("err-mid")
			n, _ := gf["n"].(float64)
			kind, _ := gf["kind"].(string)
			rec2.plan = map[int]string{int(n): kind}
		}
		cas2 := caching.NewCas(rec2)
		if direct {
			cas2 = caching.NewCas(env.fs)
		}
		reg2 := output.NewRegistry(env.ctx, cas2)
		outs2 := outs
		if _, ok := req["declared2"]; ok {
			outs2 = parseOutputs(req["declared2"])
		}
		target2 := &model.Target{Label: label.TL(pkg, "t"), ChangeHash: "k1", Outputs: outs2}
		if bin != "" {
			target2.BinOutput = model.NewOutput("file", bin)
		}
		lerr, hung := withTimeout(opTimeout, func() error { return reg2.LoadOutputs(env.ctx, target2, result, tracker(req)) })
		switch {
		case hung:
			res["load"] = "hang"
		case lerr != nil && strings.Contains(lerr.Error(), "cached outputs mismatch"):
			res["load"] = "err-validate"
			res["load_msg"] = lerr.Error()
		default:
			res["load"] = errClass(lerr)
			if lerr != nil {
				res["load_msg"] = lerr.Error()
			}
		}
		res["gets"] = rec2.count("get")
		// LoadOutputs returns on the first failing output while the restores of the other outputs may still be
		// running in the registry's pool: the listing after a failed load is not stable and is only informative.
		var after any
		for try := 0; try < 5; try++ {
			if lerr != nil || hung {
				time.Sleep(20 * time.Millisecond)
			}
			after, err = listing(env.ws)
			if err == nil {
				break
			}
		}
		if err != nil && lerr == nil && !hung {
			return nil, err
		}
		res["after"] = after
		if tamper, _ := req["tamper"].(string); tamper != "" && lerr == nil && !hung {
			// the restored outputs are modified IN PLACE (same inode: append / truncate / chmod), then the next build restores
			// again: the cache must still deliver the cached bytes and modes
			for _, o := range outs2 {
				tamperInPlace(filepath.Join(env.ws, pkg, o.Identifier), tamper)
			}
			if bin != "" {
				tamperInPlace(filepath.Join(env.ws, pkg, bin), tamper)
			}
			reg3 := output.NewRegistry(env.ctx, caching.NewCas(env.fs))
			target3 := &model.Target{Label: label.TL(pkg, "t"), ChangeHash: "k1", Outputs: outs2}
			if bin != "" {
				target3.BinOutput = model.NewOutput("file", bin)
			}
			l3err, hung3 := withTimeout(opTimeout, func() error { return reg3.LoadOutputs(env.ctx, target3, result, tracker(req)) })
			res["load3"] = errClass(l3err)
			if hung3 {
				res["load3"] = "hang"
			}
			if l3err != nil {
				res["load3_msg"] = l3err.Error()
			}
			after3, err := listing(env.ws)
			if err != nil {
				return nil, err
			}
			res["after3"] = after3
			res["cache_audit"], _ = auditCache(env.cache)
		}
		if _, ok := req["getfault"]; ok {
			// the next build: a fresh process restores again, without faults, over whatever the failed restore left behind
			quiesce(env.ws)
			reg3 := output.NewRegistry(env.ctx, caching.NewCas(env.fs))
			target3 := &model.Target{Label: label.TL(pkg, "t"), ChangeHash: "k1", Outputs: outs2}
			if bin != "" {
				target3.BinOutput = model.NewOutput("file", bin)
			}
			l2err, hung2 := withTimeout(opTimeout, func() error { return reg3.LoadOutputs(env.ctx, target3, result, nil) })
			switch {
			case hung2:
				res["load2"] = "hang"
			default:
				res["load2"] = errClass(l2err)
				if l2err != nil {
					res["load2_msg"] = l2err.Error()
				}
			}
			after2, err := listing(env.ws)
			if err != nil {
				return nil, err
			}
			res["after2"] = after2
		}
		return res, nil
	})

	// hash of a byte string under the configured algorithm (used by audits on the Python side)
	register("store.hash", func(req map[string]any) (any, error) {
		algo, _ := req["hash"].(string)
		config.Global.HashAlgorithm = algo
		return map[string]any{"h": hashing.HashBytes([]byte(b2s(req["b"])))}, nil
	})
}


// ------------------------------------------------------------------------------------------------
// C07: builds under backend faults; trace of backend operations; audit of the cache directory; follow-up build
// ------------------------------------------------------------------------------------------------

// traceLog is the global, totally ordered log of backend events of one case.
type traceLog struct {
	inflight atomic.Int64
	mu       sync.Mutex
	events   []map[string]any
	keyLocks map[string]*sync.RWMutex
	treeKeys map[string]bool
	useLocks bool
}

// waitIdle returns when no backend operation has been in flight for a short while.
func (t *traceLog) waitIdle() {
	idle := 0
	limit := 2000
	if hangCount.Load() >= 3 {
		limit = 200 // operations that hang for good never become idle
	}
	for i := 0; i < limit && idle < 3; i++ {
		if t.inflight.Load() == 0 {
			idle++
		} else {
			idle = 0
		}
		time.Sleep(5 * time.Millisecond)
	}
}

func (t *traceLog) add(ev map[string]any) {
	t.mu.Lock()
	t.events = append(t.events, ev)
	t.mu.Unlock()
}

func (t *traceLog) lockFor(ns, key string) *sync.RWMutex {
	t.mu.Lock()
	defer t.mu.Unlock()
	k := ns + "\x00" + key
	l, ok := t.keyLocks[k]
	if !ok {
		l = &sync.RWMutex{}
		t.keyLocks[k] = l
	}
	return l
}

// procBackend is the backend as seen by one process: operations are numbered per process, faults are injected
// according to the plan, events go to the shared trace. With useLocks, observers and writers of one key are
// serialised in the wrapper so that the logged order of events is the order of their effects.
type procBackend struct {
	inner backends.CacheBackend
	log   *traceLog
	pid   int
	mu    sync.Mutex
	n     int
	plan  map[int]string
	every string
	from  int
	// cancel cancels the context of the whole process (ctrl-c, --fail-fast): fault kind "cancel" calls it before an
	// Exists / Get and in the middle of the stream of a Set; every later operation runs under the cancelled context
	cancel context.CancelFunc
}

// cancellingReader cancels the process context once `after` bytes were handed out; the stream itself stays intact.
type cancellingReader struct {
	r      io.Reader
	after  int
	n      int
	cancel context.CancelFunc
}

func (c *cancellingReader) Read(p []byte) (int, error) {
	n, err := c.r.Read(p)
	c.n += n
	if c.n >= c.after && c.cancel != nil {
		c.cancel()
		c.cancel = nil
	}
	return n, err
}

func (b *procBackend) TypeName() string { return b.inner.TypeName() }

func (b *procBackend) next() (int, string) {
	b.mu.Lock()
	defer b.mu.Unlock()
	b.n++
	f := b.plan[b.n]
	if f == "" && b.every != "" && b.n >= b.from {
		f = b.every
	}
	if strings.HasPrefix(f, "fsize:") {
		// "the disk is full from now on": no regular file of this process can grow beyond the given size any more
		// (write(2) stores what fits and then fails with EFBIG). Lifted again before the audit.
		var lim uint64
		fmt.Sscanf(f, "fsize:%d", &lim)
		setFileSizeLimit(lim)
		b.log.add(map[string]any{"e": "disk-full", "p": b.pid, "n": b.n, "limit": lim})
		f = ""
	}
	return b.n, f
}

var fsizeHard uint64

func setFileSizeLimit(cur uint64) {
	var rl syscall.Rlimit
	if fsizeHard == 0 {
		signal.Ignore(syscall.SIGXFSZ)
		if syscall.Getrlimit(syscall.RLIMIT_FSIZE, &rl) == nil {
			fsizeHard = rl.Max
		}
	}
	_ = syscall.Setrlimit(syscall.RLIMIT_FSIZE, &syscall.Rlimit{Cur: cur, Max: fsizeHard})
}

func liftFileSizeLimit() {
	if fsizeHard != 0 {
		_ = syscall.Setrlimit(syscall.RLIMIT_FSIZE, &syscall.Rlimit{Cur: fsizeHard, Max: fsizeHard})
	}
}

func resName(ok bool, err error) string {
	if err != nil {
		return "err"
	}
	if ok {
		return "yes"
	}
	return "no"
}

func (b *procBackend) Exists(ctx context.Context, path, key string) (bool, error) {
	b.log.inflight.Add(1)
	defer b.log.inflight.Add(-1)
	n, f := b.next()
	if b.log.useLocks {
		l := b.log.lockFor(path, key)
		l.RLock()
		defer l.RUnlock()
	}
	if f == "cancel" {
		if b.cancel != nil {
			b.cancel()
		}
		f = ""
	}
	if f != "" {
		b.log.add(map[string]any{"e": "exists", "p": b.pid, "n": n, "ns": path, "k": key, "r": "err", "fault": f})
		return false, errInjected
	}
	ok, err := b.inner.Exists(ctx, path, key)
	b.log.add(map[string]any{"e": "exists", "p": b.pid, "n": n, "ns": path, "k": key, "r": resName(ok, err)})
	return ok, err
}

func (b *procBackend) Get(ctx context.Context, path, key string) (io.ReadCloser, error) {
	b.log.inflight.Add(1)
	defer b.log.inflight.Add(-1)
	n, f := b.next()
	if b.log.useLocks {
		l := b.log.lockFor(path, key)
		l.RLock()
		defer l.RUnlock()
	}
	if f == "cancel" && b.cancel != nil {
		b.cancel()
	}
	if f == "err" || f == "err-after" {
		b.log.add(map[string]any{"e": "get", "p": b.pid, "n": n, "ns": path, "k": key, "r": "err", "fault": f})
		return nil, errInjected
	}
	rc, err := b.inner.Get(ctx, path, key)
	if err != nil {
		r := "err"
		if os.IsNotExist(err) {
			r = "no"
		}
		b.log.add(map[string]any{"e": "get", "p": b.pid, "n": n, "ns": path, "k": key, "r": r})
		return nil, err
	}
	if f == "err-mid" {
		b.log.add(map[string]any{"e": "get", "p": b.pid, "n": n, "ns": path, "k": key, "r": "err", "fault": f})
		return &failingReadCloser{failingReader{rc, 1}, rc}, nil
	}
	b.log.add(map[string]any{"e": "get", "p": b.pid, "n": n, "ns": path, "k": key, "r": "yes"})
	return rc, nil
}

func (b *procBackend) Delete(ctx context.Context, path, key string) error {
	return b.inner.Delete(ctx, path, key)
}

// refsOf extracts the digests a stored value references: outputs of a target result, file nodes of a tree blob.
func (t *traceLog) refsOf(ns, key string, content []byte) []string {
	refs := []string{}
	switch {
	case ns == "target":
		tr := &gen.TargetResult{}
		if proto.Unmarshal(content, tr) == nil {
			for _, o := range tr.Outputs {
				if f := o.GetFile(); f != nil {
					refs = append(refs, f.GetDigest().GetHash())
				}
				if d := o.GetDirectory(); d != nil {
					refs = append(refs, d.GetTreeDigest().GetHash())
				}
			}
		}
	case ns == "cas" && t.treeKeys[key]:
		refs = append(refs, treeFileDigests(content)...)
	}
	return refs
}

func treeFileDigests(content []byte) []string {
	refs := []string{}
	tree := &gen.Tree{}
	if proto.Unmarshal(content, tree) != nil {
		return refs
	}
	dirs := append([]*gen.Directory{tree.Root}, tree.Children...)
	for _, d := range dirs {
		if d == nil {
			continue
		}
		for _, f := range d.Files {
			refs = append(refs, f.GetDigest().GetHash())
		}
	}
	return refs
}

func (b *procBackend) Set(ctx context.Context, path, key string, content io.Reader) error {
	b.log.inflight.Add(1)
	defer b.log.inflight.Add(-1)
	n, f := b.next()
	data, rerr := io.ReadAll(content)
	if rerr != nil {
		return rerr
	}
	if b.log.useLocks {
		l := b.log.lockFor(path, key)
		l.Lock()
		defer l.Unlock()
	}
	hashOk := path != "cas" || hashing.HashBytes(data) == key
	refs := b.log.refsOf(path, key, data)
	b.log.add(map[string]any{"e": "sb", "p": b.pid, "op": n, "ns": path, "k": key, "refs": refs, "hashOk": hashOk, "fault": f})
	var err error
	o := "ok"
	switch f {
	case "err":
		err, o = errInjected, "errNotStored"
	case "err-mid":
		err = b.inner.Set(ctx, path, key, &failingReader{bytes.NewReader(data), len(data) / 2})
		if err == nil {
			err = errInjected
		}
		o = "errNotStored"
	case "err-after":
		err = b.inner.Set(ctx, path, key, bytes.NewReader(data))
		if err == nil {
			err, o = errInjected, "errStored"
		} else {
			o = "errNotStored"
		}
	case "cancel":
		// the build is cancelled while this blob is streamed into the cache (half way): the backend either stores the
		// whole blob or reports an error
		after := len(data) / 2
		err = b.inner.Set(ctx, path, key, &cancellingReader{r: bytes.NewReader(data), after: after, cancel: b.cancel})
		if err != nil {
			o = "errNotStored"
		}
	default:
		err = b.inner.Set(ctx, path, key, bytes.NewReader(data))
		if err != nil {
			o = "errNotStored"
		}
	}
	b.log.add(map[string]any{"e": "se", "p": b.pid, "op": n, "o": o})
	return err
}

// auditCache is the model-independent oracle of C07: every visible cas/<d> re-hashes to d; every target/<k>
// unmarshals and references only present blobs (trees: every file node and every child directory).
func auditCache(cacheDir string) (problems []string, stats map[string]int) {
	stats = map[string]int{"cas": 0, "targets": 0, "tmp": 0}
	casDir := filepath.Join(cacheDir, "cas")
	cas := dirFiles(casDir)
	for name, content := range cas {
		if strings.HasPrefix(name, "tmp-") {
			stats["tmp"]++
			continue
		}
		stats["cas"]++
		if hashing.HashBytes(content) != name {
			problems = append(problems, "cas/"+name+": content does not hash to its name")
		}
	}
	present := func(d string) bool {
		_, ok := cas[d]
		return ok && !strings.HasPrefix(d, "tmp-")
	}
	for name, content := range dirFiles(filepath.Join(cacheDir, "target")) {
		if strings.HasPrefix(name, "tmp-") {
			stats["tmp"]++
			continue
		}
		stats["targets"]++
		tr := &gen.TargetResult{}
		if err := proto.Unmarshal(content, tr); err != nil {
			problems = append(problems, "target/"+name+": does not unmarshal")
			continue
		}
		if tr.ChangeHash != name {
			problems = append(problems, "target/"+name+": change hash differs from its name")
		}
		for _, o := range tr.Outputs {
			if f := o.GetFile(); f != nil && !present(f.GetDigest().GetHash()) {
				problems = append(problems, "target/"+name+": file blob "+f.GetDigest().GetHash()+" missing")
			}
			if d := o.GetDirectory(); d != nil {
				td := d.GetTreeDigest().GetHash()
				if !present(td) {
					problems = append(problems, "target/"+name+": tree blob "+td+" missing")
					continue
				}
				tree := &gen.Tree{}
				if err := proto.Unmarshal(cas[td], tree); err != nil || tree.Root == nil {
					problems = append(problems, "target/"+name+": tree blob "+td+" does not unmarshal")
					continue
				}
				for _, fd := range treeFileDigests(cas[td]) {
					if !present(fd) {
						problems = append(problems, "target/"+name+": file blob "+fd+" of tree "+td+" missing")
					}
				}
				kids := map[string]bool{}
				for _, c := range tree.Children {
					b, _ := proto.MarshalOptions{Deterministic: true}.Marshal(c)
					kids[hashing.HashBytes(b)] = true
				}
				for _, dir := range append([]*gen.Directory{tree.Root}, tree.Children...) {
					for _, dn := range dir.Directories {
						if !kids[dn.GetDigest().GetHash()] {
							problems = append(problems, "target/"+name+": child directory "+dn.Name+" of tree "+td+" missing")
						}
					}
				}
			}
		}
	}
	sort.Strings(problems)
	return problems, stats
}

// auditBlobs checks only content addressing of a cache directory: every visible cas/<d> hashes to d, every target/<k>
// unmarshals with change hash k.
func auditBlobs(cacheDir string) []string {
	problems := []string{}
	for name, content := range dirFiles(filepath.Join(cacheDir, "cas")) {
		if strings.HasPrefix(name, "tmp-") {
			continue
		}
		if hashing.HashBytes(content) != name {
			problems = append(problems, fmt.Sprintf("cas/%s: %d bytes that do not hash to the name", name, len(content)))
		}
	}
	for name, content := range dirFiles(filepath.Join(cacheDir, "target")) {
		if strings.HasPrefix(name, "tmp-") {
			continue
		}
		tr := &gen.TargetResult{}
		if err := proto.Unmarshal(content, tr); err != nil || tr.ChangeHash != name {
			problems = append(problems, "target/"+name+": does not unmarshal to a result with that change hash")
		}
	}
	sort.Strings(problems)
	return problems
}

// visibleKeys lists the visible (non tmp-*) names of a namespace directory.
func visibleKeys(cacheDir, ns string) []string {
	out := []string{}
	for name := range dirFiles(filepath.Join(cacheDir, ns)) {
		if !strings.HasPrefix(name, "tmp-") {
			out = append(out, name)
		}
	}
	sort.Strings(out)
	return out
}

type faultTarget struct {
	pkg, name, key string
	outs           []model.Output
}

func parseTargets(v any) []faultTarget {
	arr, _ := v.([]any)
	out := []faultTarget{}
	for _, x := range arr {
		m, _ := x.(map[string]any)
		name, _ := m["name"].(string)
		key, _ := m["key"].(string)
		out = append(out, faultTarget{pkg: b2s(m["pkg"]), name: name, key: key, outs: parseOutputs(m["outputs"])})
	}
	return out
}

func (t faultTarget) target() *model.Target {
	return &model.Target{Label: label.TL(t.pkg, t.name), ChangeHash: t.key, Outputs: t.outs}
}

func parsePlan(v any) map[int]string {
	m, _ := v.(map[string]any)
	out := map[int]string{}
	for k, x := range m {
		var n int
		fmt.Sscanf(k, "%d", &n)
		s, _ := x.(string)
		out[n] = s
	}
	return out
}

func init() {
	register("store.faults", func(req map[string]any) (any, error) {
		env, err := newStoreEnv(req)
		if err != nil {
			return nil, err
		}
		defer env.close()
		if err := env.resetWorkspace(req["ws"]); err != nil {
			return nil, fmt.Errorf("materialise ws: %w", err)
		}
		targets := parseTargets(req["targets"])
		nprocs := 1
		if f, ok := req["procs"].(float64); ok && f >= 1 {
			nprocs = int(f)
		}
		useLocks, _ := req["lock"].(bool)
		tl := &traceLog{keyLocks: map[string]*sync.RWMutex{}, treeKeys: map[string]bool{}, useLocks: useLocks}
		// expected tree digests of the directory outputs (same code path as Write, nothing is stored)
		origin := map[string]any{}
		reg0 := output.NewRegistry(env.ctx, caching.NewCas(env.fs))
		_ = reg0
		for _, t := range targets {
			for _, o := range t.outs {
				abs := filepath.Join(env.ws, t.pkg, o.Identifier)
				if l, err := listing(abs); err == nil {
					origin[t.name+"\x00"+o.Identifier] = l
				}
			}
		}
		// tree digests: hash every directory output with the handler's own Hash (the registry's handler is not
		// reachable; GetNoCacheOutputHash hashes but does not expose digests), so walk by a scratch Cas write
		// into a throw-away cache root instead
		{
			saved := config.Global.Root
			config.Global.Root = filepath.Join(env.dir, "probe-root")
			pfs, err := backends.NewFileSystemCache(env.ctx)
			if err == nil {
				preg := output.NewRegistry(env.ctx, caching.NewCas(pfs))
				for _, t := range targets {
					if res, err := preg.WriteOutputs(env.ctx, t.target(), nil); err == nil {
						for _, o := range res.Outputs {
							if d := o.GetDirectory(); d != nil {
								tl.treeKeys[d.GetTreeDigest().GetHash()] = true
							}
						}
					}
				}
			}
			config.Global.Root = saved
			os.RemoveAll(filepath.Join(env.dir, "probe-root"))
		}
		plans, _ := req["plans"].([]any)
		outcomes := make([][]string, nprocs)
		var wg sync.WaitGroup
		for p := 0; p < nprocs; p++ {
			pb := &procBackend{inner: env.fs, log: tl, pid: p + 1, plan: map[int]string{}}
			if p < len(plans) {
				pm, _ := plans[p].(map[string]any)
				pb.plan = parsePlan(pm["plan"])
				pb.every, _ = pm["every"].(string)
				if f, ok := pm["from"].(float64); ok {
					pb.from = int(f)
				}
			}
			wg.Add(1)
			go func(p int, pb *procBackend) {
				defer wg.Done()
				pctx, cancel := context.WithCancel(env.ctx)
				defer cancel()
				pb.cancel = cancel
				cas := caching.NewCas(pb)
				reg := output.NewRegistry(pctx, cas)
				tc := caching.NewTargetResultCache(pb)
				for _, t := range targets {
					var res *gen.TargetResult
					werr, hung := withTimeout(opTimeout, func() error {
						var e error
						res, e = reg.WriteOutputs(pctx, t.target(), tracker(req))
						return e
					})
					switch {
					case hung:
						outcomes[p] = append(outcomes[p], "hang")
					case werr != nil:
						outcomes[p] = append(outcomes[p], "err-outputs")
					default:
						if e := tc.Write(pctx, res); e != nil {
							outcomes[p] = append(outcomes[p], "err-result")
						} else {
							outcomes[p] = append(outcomes[p], "ok")
						}
					}
				}
			}(p, pb)
		}
		wg.Wait()
		// uploadFiles / WriteOutputs return on the first error while the other uploads are still running:
		// wait until every backend operation that was started has returned before looking at the cache
		tl.waitIdle()
		liftFileSizeLimit()
		res := map[string]any{"outcomes": outcomes, "events": tl.events}
		problems, stats := auditCache(env.cache)
		res["audit"] = problems
		res["stats"] = stats
		res["cas_keys"] = visibleKeys(env.cache, "cas")
		res["target_keys"] = visibleKeys(env.cache, "target")
		// follow-up build: a new process without faults; restores what is cached, rebuilds what is not
		follow := []any{}
		cas := caching.NewCas(env.fs)
		reg := output.NewRegistry(env.ctx, cas)
		tc := caching.NewTargetResultCache(env.fs)
		for _, t := range targets {
			fr := map[string]any{"target": t.name}
			cached, lerr := tc.Load(env.ctx, t.key)
			if lerr == nil {
				fr["mode"] = "restore"
				// remove the outputs, then restore them
				for _, o := range t.outs {
					os.RemoveAll(filepath.Join(env.ws, t.pkg, o.Identifier))
				}
				rerr, hung := withTimeout(opTimeout, func() error { return reg.LoadOutputs(env.ctx, t.target(), cached, nil) })
				fr["ok"] = rerr == nil && !hung
				if rerr != nil {
					fr["msg"] = rerr.Error()
				}
				if hung {
					fr["msg"] = "hang"
				}
				equal := rerr == nil && !hung
				for _, o := range t.outs {
					l, err := listing(filepath.Join(env.ws, t.pkg, o.Identifier))
					a, _ := jsonString(l)
					b, _ := jsonString(origin[t.name+"\x00"+o.Identifier])
					if err != nil || a != b {
						equal = false
					}
				}
				fr["equal"] = equal
			} else {
				fr["mode"] = "rebuild"
				r2, werr := reg.WriteOutputs(env.ctx, t.target(), nil)
				if werr == nil {
					werr = tc.Write(env.ctx, r2)
				}
				fr["ok"] = werr == nil
				fr["equal"] = werr == nil
				if werr != nil {
					fr["msg"] = werr.Error()
				}
			}
			follow = append(follow, fr)
		}
		res["followup"] = follow
		problems2, stats2 := auditCache(env.cache)
		res["audit_after"] = problems2
		res["stats_after"] = stats2
		return res, nil
	})
}

func init() {
	// audit of an existing cache directory (used after killing the real grog process)
	register("store.audit", func(req map[string]any) (any, error) {
		dir, _ := req["cache"].(string)
		algo, _ := req["hash"].(string)
		config.Global.HashAlgorithm = algo
		problems, stats := auditCache(dir)
		return map[string]any{"audit": problems, "stats": stats}, nil
	})
}

func jsonString(v any) (string, error) {
	b, err := jsonMarshal(v)
	return string(b), err
}

func jsonMarshal(v any) ([]byte, error) { return json.Marshal(v) }

// ------------------------------------------------------------------------------------------------
// C08: real RemoteWrapper over a real FileSystemCache per machine and one in-memory remote with scripted faults
// ------------------------------------------------------------------------------------------------

type remoteFault struct {
	Op   string // get | set | exists
	NS   string
	Key  string // "" = any key
	Nth  int    // n-th matching operation (1-based); 0 = every matching operation
	Kind string // err | err-after (set: stored, error returned) | err-mid (set: reader abandoned half way; get: reader fails half way)
}

// memRemote is the shared object store: atomic puts (like S3 PutObject / a finalised GCS writer).
type memRemote struct {
	mu     sync.Mutex
	data   map[string][]byte
	faults []remoteFault
	seen   map[int]int
	ops    []map[string]any
}

func newMemRemote() *memRemote {
	return &memRemote{data: map[string][]byte{}, seen: map[int]int{}}
}

func (m *memRemote) TypeName() string { return "mem" }

// objKey: object keys are normalised like S3Cache/GCSCache.buildPath does (slashes around the key are trimmed), so that the
// in-memory backend and the real S3Cache over the fake client address the same objects
func objKey(ns, key string) string { return ns + "/" + strings.Trim(key, "/") }

func (m *memRemote) fault(op, ns, key string) string {
	for i, f := range m.faults {
		if f.Op == op && (f.NS == "" || f.NS == ns) && (f.Key == "" || f.Key == key) {
			m.seen[i]++
			if f.Nth == 0 || f.Nth == m.seen[i] {
				return f.Kind
			}
		}
	}
	return ""
}

func (m *memRemote) Get(ctx context.Context, path, key string) (io.ReadCloser, error) {
	m.mu.Lock()
	defer m.mu.Unlock()
	f := m.fault("get", path, key)
	b, ok := m.data[objKey(path, key)]
	m.ops = append(m.ops, map[string]any{"op": "get", "ns": path, "k": key, "fault": f, "present": ok})
	if f == "err" || f == "err-after" {
		return nil, errInjected
	}
	if !ok {
		return nil, os.ErrNotExist
	}
	if f == "err-mid" {
		r := bytes.NewReader(b)
		return &failingReadCloser{failingReader{r, len(b) / 2}, io.NopCloser(r)}, nil
	}
	return io.NopCloser(bytes.NewReader(b)), nil
}

func (m *memRemote) Set(ctx context.Context, path, key string, content io.Reader) error {
	m.mu.Lock()
	f := m.fault("set", path, key)
	m.ops = append(m.ops, map[string]any{"op": "set", "ns": path, "k": key, "fault": f})
	m.mu.Unlock()
	if f == "err" {
		return errInjected // fails before reading anything (the tee then breaks the local write as well)
	}
	if f == "err-mid" {
		buf := make([]byte, 1)
		_, _ = content.Read(buf)
		return errInjected
	}
	b, err := io.ReadAll(content)
	if err != nil {
		return err
	}
	if f == "err-late" {
		return errInjected // everything was read, nothing stored (e.g. the final PUT failed)
	}
	m.mu.Lock()
	m.data[objKey(path, key)] = b
	m.mu.Unlock()
	if f == "err-after" {
		return errInjected
	}
	return nil
}

func (m *memRemote) Delete(ctx context.Context, path, key string) error {
	m.mu.Lock()
	defer m.mu.Unlock()
	f := m.fault("delete", path, key)
	m.ops = append(m.ops, map[string]any{"op": "delete", "ns": path, "k": key, "fault": f})
	if f == "err" {
		return errInjected // nothing deleted
	}
	delete(m.data, objKey(path, key))
	if f != "" {
		return errInjected // deleted, but an error is reported
	}
	return nil
}

func (m *memRemote) Exists(ctx context.Context, path, key string) (bool, error) {
	m.mu.Lock()
	defer m.mu.Unlock()
	f := m.fault("exists", path, key)
	_, ok := m.data[objKey(path, key)]
	m.ops = append(m.ops, map[string]any{"op": "exists", "ns": path, "k": key, "fault": f, "present": ok})
	if f != "" {
		return false, errInjected
	}
	return ok, nil
}

func (m *memRemote) has(ns, key string) bool {
	m.mu.Lock()
	defer m.mu.Unlock()
	_, ok := m.data[objKey(ns, key)]
	return ok
}

// s3Fake is an S3Client backed by the memRemote object store (same fault plan): the real S3Cache composes the object keys.
// Like AWSS3Adapter.PutObject it consumes the body before "sending" (fault kinds err-late / err-after happen after the body
// was read, err before, err-mid after one byte).
type s3Fake struct {
	m      *memRemote
	pfx    string // "<prefix>/<workspace identity>/", learnt from a probe
	probe  string
	bucket string
}

func (f *s3Fake) split(key string) (string, string, bool) {
	rest := strings.TrimPrefix(key, f.pfx)
	i := strings.Index(rest, "/")
	if !strings.HasPrefix(key, f.pfx) || i < 0 {
		return "", "", false
	}
	return rest[:i], rest[i+1:], true
}

func (f *s3Fake) GetObject(ctx context.Context, bucket, key string) (io.ReadCloser, error) {
	ns, k, ok := f.split(key)
	if !ok {
		return nil, os.ErrNotExist
	}
	return f.m.Get(ctx, ns, k)
}

func (f *s3Fake) PutObject(ctx context.Context, bucket, key string, body io.Reader) error {
	ns, k, ok := f.split(key)
	if !ok {
		return fmt.Errorf("unexpected key %s", key)
	}
	return f.m.Set(ctx, ns, k, body)
}

func (f *s3Fake) DeleteObject(ctx context.Context, bucket, key string) error {
	ns, k, ok := f.split(key)
	if !ok {
		return nil
	}
	return f.m.Delete(ctx, ns, k)
}

func (f *s3Fake) ObjectExists(ctx context.Context, bucket, key string) (bool, error) {
	if f.pfx == "" {
		f.probe = key
		return false, nil
	}
	ns, k, ok := f.split(key)
	if !ok {
		return false, nil
	}
	return f.m.Exists(ctx, ns, k)
}

// newS3Over builds the real S3Cache over the fake client and learns the key prefix it composes.
func newS3Over(ctx context.Context, m *memRemote) (backends.CacheBackend, error) {
	f := &s3Fake{m: m, bucket: "bkt"}
	c, err := backends.NewS3CacheWithClient(ctx, config.S3CacheConfig{Bucket: "bkt", Prefix: "/team/cache/"}, f)
	if err != nil {
		return nil, err
	}
	_, _ = c.Exists(ctx, "PROBE", "K")
	if !strings.HasSuffix(f.probe, "PROBE/K") {
		return nil, fmt.Errorf("cannot learn the S3 key prefix from %q", f.probe)
	}
	f.pfx = strings.TrimSuffix(f.probe, "PROBE/K")
	return c, nil
}

// httpS3 serves the S3 object API (path-style PUT / GET / HEAD / DELETE /<bucket>/<key>) over the memRemote object store (same
// fault plan). With it the two-tier backend of a machine is the one grog itself constructs: backends.GetCacheBackend with an
// S3 cache configuration, the real AWS SDK client (endpoint from AWS_ENDPOINT_URL), the real S3Cache and whatever
// GetCacheBackend wraps around them.
type httpS3 struct {
	m     *memRemote
	mu    sync.Mutex
	pfx   string // "<prefix>/<workspace identity>/", learnt from a probe
	probe string
}

func (h *httpS3) split(key string) (string, string, bool) {
	h.mu.Lock()
	pfx := h.pfx
	h.mu.Unlock()
	rest := strings.TrimPrefix(key, pfx)
	i := strings.Index(rest, "/")
	if pfx == "" || !strings.HasPrefix(key, pfx) || i < 0 {
		return "", "", false
	}
	return rest[:i], rest[i+1:], true
}

func s3XMLError(w http.ResponseWriter, status int, code string) {
	w.Header().Set("Content-Type", "application/xml")
	w.WriteHeader(status)
	fmt.Fprintf(w, `<?xml version="1.0" encoding="UTF-8"?><Error><Code>%s</Code><Message>%s</Message></Error>`, code, code)
}

// awsChunkedBody strips the aws-chunked framing ("<hex size>[;chunk-signature=..]\r\n<data>\r\n ... 0\r\n<trailers>").
func awsChunkedBody(body []byte) ([]byte, error) {
	var out bytes.Buffer
	for {
		i := bytes.Index(body, []byte("\r\n"))
		if i < 0 {
			return nil, fmt.Errorf("chunk header missing")
		}
		head := string(body[:i])
		if j := strings.Index(head, ";"); j >= 0 {
			head = head[:j]
		}
		var size int
		if _, err := fmt.Sscanf(head, "%x", &size); err != nil {
			return nil, fmt.Errorf("chunk size %q", head)
		}
		body = body[i+2:]
		if size == 0 {
			return out.Bytes(), nil
		}
		if len(body) < size+2 {
			return nil, fmt.Errorf("short chunk")
		}
		out.Write(body[:size])
		body = body[size+2:]
	}
}

func (h *httpS3) ServeHTTP(w http.ResponseWriter, r *http.Request) {
	path := strings.TrimPrefix(r.URL.Path, "/")
	i := strings.Index(path, "/")
	if i < 0 {
		s3XMLError(w, http.StatusNotFound, "NoSuchKey")
		return
	}
	key := path[i+1:]
	h.mu.Lock()
	if h.pfx == "" {
		h.probe = key
	}
	h.mu.Unlock()
	ns, k, ok := h.split(key)
	ctx := r.Context()
	switch r.Method {
	case http.MethodPut:
		body, err := io.ReadAll(r.Body)
		if err == nil && (strings.HasPrefix(r.Header.Get("X-Amz-Content-Sha256"), "STREAMING-") || strings.Contains(r.Header.Get("Content-Encoding"), "aws-chunked")) {
			body, err = awsChunkedBody(body)
		}
		if err != nil || !ok {
			s3XMLError(w, http.StatusBadRequest, "BadRequest")
			return
		}
		if err := h.m.Set(ctx, ns, k, bytes.NewReader(body)); err != nil {
			s3XMLError(w, http.StatusInternalServerError, "InternalError")
			return
		}
		w.Header().Set("ETag", `"fake"`)
		w.WriteHeader(http.StatusOK)
	case http.MethodHead:
		if !ok {
			w.WriteHeader(http.StatusNotFound)
			return
		}
		yes, err := h.m.Exists(ctx, ns, k)
		switch {
		case err != nil:
			w.WriteHeader(http.StatusInternalServerError)
		case !yes:
			w.WriteHeader(http.StatusNotFound)
		default:
			w.Header().Set("ETag", `"fake"`)
			w.WriteHeader(http.StatusOK)
		}
	case http.MethodGet:
		if !ok {
			s3XMLError(w, http.StatusNotFound, "NoSuchKey")
			return
		}
		rc, err := h.m.Get(ctx, ns, k)
		if err != nil {
			if os.IsNotExist(err) {
				s3XMLError(w, http.StatusNotFound, "NoSuchKey")
			} else {
				s3XMLError(w, http.StatusInternalServerError, "InternalError")
			}
			return
		}
		data, rerr := io.ReadAll(rc)
		rc.Close()
		w.Header().Set("Content-Type", "application/octet-stream")
		w.Header().Set("ETag", `"fake"`)
		if rerr != nil {
			// the object store fails in the middle of the stream: the announced length is never delivered
			w.Header().Set("Content-Length", fmt.Sprint(len(data)+64))
			w.WriteHeader(http.StatusOK)
			w.Write(data)
			panic(http.ErrAbortHandler)
		}
		var sum [4]byte
		binary.BigEndian.PutUint32(sum[:], crc32.ChecksumIEEE(data))
		w.Header().Set("x-amz-checksum-crc32", base64.StdEncoding.EncodeToString(sum[:]))
		w.Header().Set("Content-Length", fmt.Sprint(len(data)))
		w.WriteHeader(http.StatusOK)
		w.Write(data)
	case http.MethodDelete:
		if ok {
			if err := h.m.Delete(ctx, ns, k); err != nil {
				s3XMLError(w, http.StatusInternalServerError, "InternalError")
				return
			}
		}
		w.WriteHeader(http.StatusNoContent)
	default:
		w.WriteHeader(http.StatusMethodNotAllowed)
	}
}

// configuredBackend builds the cache backend of a machine the way cmds/build.go does: backends.GetCacheBackend over the
// configuration (S3 cache at the fake endpoint, or no remote cache), with the machine's local cache root.
func configuredBackend(ctx context.Context, root string, remoteOn bool, h *httpS3) (backends.CacheBackend, error) {
	saved := config.Global.Root
	config.Global.Root = root
	defer func() { config.Global.Root = saved }()
	cfg := config.CacheConfig{}
	if remoteOn {
		cfg = config.CacheConfig{Backend: config.S3CacheBackend, S3: config.S3CacheConfig{Bucket: "bkt", Prefix: "/team/cache/"}}
	}
	b, err := backends.GetCacheBackend(ctx, cfg)
	if err != nil || !remoteOn {
		return b, err
	}
	h.mu.Lock()
	learnt := h.pfx != ""
	h.mu.Unlock()
	if !learnt {
		_, _ = b.Exists(ctx, "PROBE", "K")
		h.mu.Lock()
		defer h.mu.Unlock()
		if !strings.HasSuffix(h.probe, "PROBE/K") {
			return nil, fmt.Errorf("cannot learn the S3 key prefix from %q", h.probe)
		}
		h.pfx = strings.TrimSuffix(h.probe, "PROBE/K")
	}
	return b, nil
}

// allTiers is the optional backend interface introduced by the repair of F-remote-skip; it is declared here so that
// the harness builds against trees with and without it.
type allTiers interface {
	ExistsInAllTiers(ctx context.Context, path, key string) (bool, error)
}

// callRec records the calls the caching layer makes on the (wrapped) backend of one process, with the state of
// both tiers after each call.
type callRec struct {
	inner  backends.CacheBackend
	fs     *backends.FileSystemCache
	remote *memRemote
	log    *traceLog
	pid    int
	mach   string
	set    map[string][][]byte // every content ever passed to Set, per ns/key (oracle: Get returns one of them)
}

func (c *callRec) TypeName() string { return c.inner.TypeName() }

func (c *callRec) tiers(path, key string) (bool, bool) {
	l, _ := c.fs.Exists(context.Background(), path, key)
	return l, c.remote.has(path, key)
}

func (c *callRec) Exists(ctx context.Context, path, key string) (bool, error) {
	c.log.inflight.Add(1)
	defer c.log.inflight.Add(-1)
	// calls on one key are serialised in the recorder so that the logged order is the order of effects
	kl := c.log.lockFor(path, key)
	kl.Lock()
	defer kl.Unlock()
	ok, err := c.inner.Exists(ctx, path, key)
	l, r := c.tiers(path, key)
	c.log.add(map[string]any{"e": "exists", "p": c.pid, "m": c.mach, "ns": path, "k": key, "r": resName(ok, err), "l": l, "rem": r})
	return ok, err
}

func (c *callRec) ExistsInAllTiers(ctx context.Context, path, key string) (bool, error) {
	at, ok := c.inner.(allTiers)
	if !ok {
		return c.Exists(ctx, path, key)
	}
	kl := c.log.lockFor(path, key)
	kl.Lock()
	defer kl.Unlock()
	res, err := at.ExistsInAllTiers(ctx, path, key)
	l, r := c.tiers(path, key)
	c.log.add(map[string]any{"e": "existsAll", "p": c.pid, "m": c.mach, "ns": path, "k": key, "r": resName(res, err), "l": l, "rem": r})
	return res, err
}

func (c *callRec) Get(ctx context.Context, path, key string) (io.ReadCloser, error) {
	c.log.inflight.Add(1)
	defer c.log.inflight.Add(-1)
	// calls on one key are serialised in the recorder so that the logged order is the order of effects
	kl := c.log.lockFor(path, key)
	kl.Lock()
	defer kl.Unlock()
	lb, _ := c.tiers(path, key)
	rc, err := c.inner.Get(ctx, path, key)
	ev := map[string]any{"e": "get", "p": c.pid, "m": c.mach, "ns": path, "k": key, "lbefore": lb}
	if err != nil {
		ev["r"] = "err"
		l, r := c.tiers(path, key)
		ev["l"], ev["rem"] = l, r
		c.log.add(ev)
		return nil, err
	}
	data, rerr := io.ReadAll(rc)
	rc.Close()
	l, r := c.tiers(path, key)
	ev["l"], ev["rem"] = l, r
	if rerr != nil {
		ev["r"] = "err"
		c.log.add(ev)
		return nil, rerr
	}
	ev["r"] = "yes"
	// content check: a cas blob must hash to its key; any value must be one that was stored under that key
	good := false
	c.log.mu.Lock()
	for _, b := range c.set[path+"/"+key] {
		if bytes.Equal(b, data) {
			good = true
		}
	}
	c.log.mu.Unlock()
	if path == "cas" {
		good = good && hashing.HashBytes(data) == key
	}
	ev["contentOk"] = good
	c.log.add(ev)
	return io.NopCloser(bytes.NewReader(data)), nil
}

// rawSet streams data into the wrapped backend through a reader that fails after `cut` bytes (a broken source stream:
// the file being cached cannot be read any further, a docker layer stream ends early).
func (c *callRec) rawSet(ctx context.Context, path, key string, data []byte, cut int) error {
	c.log.inflight.Add(1)
	defer c.log.inflight.Add(-1)
	kl := c.log.lockFor(path, key)
	kl.Lock()
	defer kl.Unlock()
	c.log.mu.Lock()
	c.set[path+"/"+key] = append(c.set[path+"/"+key], data)
	c.log.mu.Unlock()
	err := c.inner.Set(ctx, path, key, &failingReader{bytes.NewReader(data), cut})
	l, r := c.tiers(path, key)
	c.log.add(map[string]any{"e": "set", "p": c.pid, "m": c.mach, "ns": path, "k": key, "refs": []string{}, "ok": err == nil, "l": l, "rem": r,
		"hashOk": true, "raw": true, "cut": cut})
	return err
}

// peek opens an entry through the wrapped backend, reads a single byte and closes the reader (a consumer that stops early).
func (c *callRec) peek(ctx context.Context, path, key string) error {
	c.log.inflight.Add(1)
	defer c.log.inflight.Add(-1)
	kl := c.log.lockFor(path, key)
	kl.Lock()
	defer kl.Unlock()
	lb, _ := c.tiers(path, key)
	rc, err := c.inner.Get(ctx, path, key)
	ev := map[string]any{"e": "get", "p": c.pid, "m": c.mach, "ns": path, "k": key, "lbefore": lb, "peek": true}
	if err == nil {
		buf := make([]byte, 1)
		_, _ = rc.Read(buf)
		rc.Close()
		ev["r"] = "yes"
		ev["contentOk"] = true
	} else {
		ev["r"] = "err"
	}
	l, r := c.tiers(path, key)
	ev["l"], ev["rem"] = l, r
	c.log.add(ev)
	return err
}

func (c *callRec) Set(ctx context.Context, path, key string, content io.Reader) error {
	c.log.inflight.Add(1)
	defer c.log.inflight.Add(-1)
	// calls on one key are serialised in the recorder so that the logged order is the order of effects
	kl := c.log.lockFor(path, key)
	kl.Lock()
	defer kl.Unlock()
	data, rerr := io.ReadAll(content)
	if rerr != nil {
		return rerr
	}
	c.log.mu.Lock()
	c.set[path+"/"+key] = append(c.set[path+"/"+key], data)
	c.log.mu.Unlock()
	refs := c.log.refsOf(path, key, data)
	err := c.inner.Set(ctx, path, key, bytes.NewReader(data))
	l, r := c.tiers(path, key)
	c.log.add(map[string]any{"e": "set", "p": c.pid, "m": c.mach, "ns": path, "k": key, "refs": refs, "ok": err == nil, "l": l, "rem": r,
		"hashOk": path != "cas" || hashing.HashBytes(data) == key})
	return err
}

func (c *callRec) Delete(ctx context.Context, path, key string) error {
	c.log.inflight.Add(1)
	defer c.log.inflight.Add(-1)
	kl := c.log.lockFor(path, key)
	kl.Lock()
	defer kl.Unlock()
	err := c.inner.Delete(ctx, path, key)
	l, r := c.tiers(path, key)
	c.log.add(map[string]any{"e": "delete", "p": c.pid, "m": c.mach, "ns": path, "k": key, "ok": err == nil, "l": l, "rem": r})
	return err
}

// setRecorder remembers what was stored under each key (for the content check of later Gets).
type setRecorder struct {
	backends.CacheBackend
	log *traceLog
	set map[string][][]byte
}

func (r *setRecorder) Set(ctx context.Context, path, key string, content io.Reader) error {
	data, err := io.ReadAll(content)
	if err != nil {
		return err
	}
	r.log.mu.Lock()
	r.set[path+"/"+key] = append(r.set[path+"/"+key], data)
	r.log.mu.Unlock()
	return r.CacheBackend.Set(ctx, path, key, bytes.NewReader(data))
}

// remoteClosure is the model-independent oracle of C08: every target result in the remote store references only
// blobs that are in the remote store (trees: every file node).
func remoteClosure(m *memRemote) []string {
	m.mu.Lock()
	defer m.mu.Unlock()
	problems := []string{}
	for name, content := range m.data {
		if !strings.HasPrefix(name, "target/") {
			continue
		}
		tr := &gen.TargetResult{}
		if err := proto.Unmarshal(content, tr); err != nil {
			problems = append(problems, name+": does not unmarshal")
			continue
		}
		for _, o := range tr.Outputs {
			if f := o.GetFile(); f != nil {
				if _, ok := m.data["cas/"+f.GetDigest().GetHash()]; !ok {
					problems = append(problems, name+": file blob "+f.GetDigest().GetHash()+" not in the remote store")
				}
			}
			if d := o.GetDirectory(); d != nil {
				tb, ok := m.data["cas/"+d.GetTreeDigest().GetHash()]
				if !ok {
					problems = append(problems, name+": tree blob "+d.GetTreeDigest().GetHash()+" not in the remote store")
					continue
				}
				for _, fd := range treeFileDigests(tb) {
					if _, ok := m.data["cas/"+fd]; !ok {
						problems = append(problems, name+": file blob "+fd+" of tree "+d.GetTreeDigest().GetHash()+" not in the remote store")
					}
				}
			}
		}
	}
	for name, content := range m.data {
		if strings.HasPrefix(name, "cas/") && hashing.HashBytes(content) != strings.TrimPrefix(name, "cas/") {
			problems = append(problems, name+": remote content does not hash to its name")
		}
	}
	sort.Strings(problems)
	return problems
}

func init() {
	// {"op":"store.remote","scratch":..,"ws":<entry>,"targets":[..],"history":[{"m":"A","do":"build"|"build-local"|"restore","targets":[i..],"faults":[..]}]}
	register("store.remote", func(req map[string]any) (any, error) {
		env, err := newStoreEnv(req)
		if err != nil {
			return nil, err
		}
		defer env.close()
		targets := parseTargets(req["targets"])
		remote := newMemRemote()
		tl := &traceLog{keyLocks: map[string]*sync.RWMutex{}, treeKeys: map[string]bool{}}
		sets := map[string][][]byte{}
		// "construct":"config": every process gets the backend grog's own GetCacheBackend constructs from the configuration
		// (real AWS SDK client against an in-process S3 endpoint over the same object store); oracles only, no events
		var s3http *httpS3
		if c, _ := req["construct"].(string); c == "config" {
			s3http = &httpS3{m: remote}
			srv := httptest.NewServer(s3http)
			defer srv.Close()
			for k, v := range map[string]string{"AWS_ENDPOINT_URL": srv.URL, "AWS_ACCESS_KEY_ID": "verif", "AWS_SECRET_ACCESS_KEY": "verif", "AWS_REGION": "us-east-1",
				"AWS_EC2_METADATA_DISABLED": "true", "AWS_MAX_ATTEMPTS": "1", "AWS_CONFIG_FILE": "/dev/null", "AWS_SHARED_CREDENTIALS_FILE": "/dev/null"} {
				old, had := os.LookupEnv(k)
				os.Setenv(k, v)
				defer func(k, old string, had bool) {
					if had {
						os.Setenv(k, old)
					} else {
						os.Unsetenv(k)
					}
				}(k, old, had)
			}
		}
		machines := map[string]*backends.FileSystemCache{}
		machineFS := func(name string) (*backends.FileSystemCache, error) {
			if fs, ok := machines[name]; ok {
				return fs, nil
			}
			saved := config.Global.Root
			config.Global.Root = filepath.Join(env.dir, "root-"+name)
			fs, err := backends.NewFileSystemCache(env.ctx)
			config.Global.Root = saved
			if err == nil {
				machines[name] = fs
			}
			return fs, err
		}
		// tree digests + original listings, from a probe write into a throw-away cache
		origin := map[string]any{}
		if err := env.resetWorkspace(req["ws"]); err != nil {
			return nil, err
		}
		{
			pfs, err := machineFS("probe")
			if err != nil {
				return nil, err
			}
			preg := output.NewRegistry(env.ctx, caching.NewCas(pfs))
			for _, t := range targets {
				for _, o := range t.outs {
					if l, err := listing(filepath.Join(env.ws, t.pkg, o.Identifier)); err == nil {
						origin[t.name+"\x00"+o.Identifier] = l
					}
				}
				if res, err := preg.WriteOutputs(env.ctx, t.target(), nil); err == nil {
					for _, o := range res.Outputs {
						if d := o.GetDirectory(); d != nil {
							tl.treeKeys[d.GetTreeDigest().GetHash()] = true
						}
					}
				}
			}
			delete(machines, "probe")
		}
		hist, _ := req["history"].([]any)
		steps := []any{}
		pid := 0
		for _, h := range hist {
			hm, _ := h.(map[string]any)
			mach, _ := hm["m"].(string)
			do, _ := hm["do"].(string)
			fs, err := machineFS(mach)
			if err != nil {
				return nil, err
			}
			remote.mu.Lock()
			remote.faults = nil
			remote.seen = map[int]int{}
			if fl, ok := hm["faults"].([]any); ok {
				for _, f := range fl {
					fm, _ := f.(map[string]any)
					rf := remoteFault{}
					rf.Op, _ = fm["op"].(string)
					rf.NS, _ = fm["ns"].(string)
					rf.Key, _ = fm["key"].(string)
					if n, ok := fm["nth"].(float64); ok {
						rf.Nth = int(n)
					}
					rf.Kind, _ = fm["kind"].(string)
					remote.faults = append(remote.faults, rf)
				}
			}
			fsizeLimit := int64(-1)
			kept := remote.faults[:0]
			for _, f := range remote.faults {
				if f.Op == "fsize" {
					fsizeLimit = int64(f.Nth) // {"op":"fsize","nth":L}: the local disk is full beyond L bytes per file during this step
				} else {
					kept = append(kept, f)
				}
			}
			remote.faults = kept
			remote.mu.Unlock()
			pid++
			var remoteBackend backends.CacheBackend = remote
			if kind, _ := req["remote"].(string); kind == "s3" {
				if remoteBackend, err = newS3Over(env.ctx, remote); err != nil {
					return nil, err
				}
			}
			var backend backends.CacheBackend
			if s3http != nil {
				if backend, err = configuredBackend(env.ctx, filepath.Join(env.dir, "root-"+mach), do != "build-local", s3http); err != nil {
					return nil, err
				}
			} else if do == "build-local" {
				backend = &setRecorder{CacheBackend: fs, log: tl, set: sets} // a run without a remote cache configured
			} else {
				backend = &callRec{inner: backends.NewRemoteWrapper(fs, remoteBackend), fs: fs, remote: remote, log: tl, pid: pid, mach: mach, set: sets}
				if direct, _ := req["direct"].(bool); direct {
					backend = backends.NewRemoteWrapper(fs, remoteBackend) // concrete type, no events: oracles only
				}
			}
			// the disk-full fault covers the cache operations (and restores into the workspace), not the harness' own
			// materialisation of the workspace (= the target's command having run)
			limitOn := func() {
				if fsizeLimit >= 0 && do != "build-local" {
					setFileSizeLimit(uint64(fsizeLimit))
				}
			}
			limitOn()
			tl.add(map[string]any{"e": "proc", "p": pid, "m": mach, "do": do})
			cas := caching.NewCas(backend)
			reg := output.NewRegistry(env.ctx, cas)
			tc := caching.NewTargetResultCache(backend)
			step := map[string]any{"m": mach, "do": do, "p": pid}
			results := []any{}
			// operations of this process: [kind, target index]; "mixed" steps list them explicitly, so that one process
			// (one Cas with its memo) can restore one target and then build another
			type stepOp struct {
				kind string
				ti   int
			}
			ops := []stepOp{}
			if do == "mixed" {
				lst, _ := hm["ops"].([]any)
				for _, o := range lst {
					p, _ := o.([]any)
					if len(p) == 2 {
						k, _ := p[0].(string)
						f, _ := p[1].(float64)
						ops = append(ops, stepOp{k, int(f)})
					}
				}
			} else {
				idx, _ := hm["targets"].([]any)
				for _, ti := range idx {
					ops = append(ops, stepOp{do, int(ti.(float64))})
				}
			}
			for _, op := range ops {
				t := targets[op.ti]
				r := map[string]any{"target": t.name, "kind": op.kind}
				switch op.kind {
				case "peek":
					// a consumer that stops reading early: open every blob the cached result references through the
					// wrapper itself (not through the recorder), read one byte, close
					cached, lerr, lhung := loadResultTimed(env.ctx, tc, t.key)
					if lhung {
						r["outcome"] = "hang"
						break
					}
					if lerr != nil {
						r["outcome"] = "miss"
						break
					}
					cr, _ := backend.(*callRec)
					if cr == nil {
						r["outcome"] = "miss"
						break
					}
					digs := []string{}
					for _, o := range cached.Outputs {
						if f := o.GetFile(); f != nil {
							digs = append(digs, f.GetDigest().GetHash())
						}
						if d := o.GetDirectory(); d != nil {
							digs = append(digs, d.GetTreeDigest().GetHash())
						}
					}
					perr, hung := withTimeout(opTimeout, func() error {
						for _, dg := range digs {
							if err := cr.peek(env.ctx, "cas", dg); err != nil {
								return err
							}
						}
						return nil
					})
					r["outcome"] = errClass(perr)
					if hung {
						r["outcome"] = "hang"
					}
				case "lose-local", "lose-local-cas":
					// the local tier of this machine loses its entries while the remote tier keeps them (the state after a kill
					// between the upload and the local rename, after `grog clean`, after a lost disk): every local blob and
					// ("lose-local" only; "lose-local-cas" keeps it) the local copy of the target's result
					saved := config.Global.Root
					config.Global.Root = filepath.Join(env.dir, "root-"+mach)
					ldir := config.Global.GetWorkspaceCacheDirectory()
					config.Global.Root = saved
					lost := 0
					if ents, e := os.ReadDir(filepath.Join(ldir, "cas")); e == nil {
						for _, en := range ents {
							if os.Remove(filepath.Join(ldir, "cas", en.Name())) == nil {
								lost++
							}
						}
					}
					if op.kind == "lose-local" {
						if os.Remove(filepath.Join(ldir, "target", t.key)) == nil {
							lost++
						}
					}
					r["lost"] = lost
					r["outcome"] = "ok"
				case "taint", "untaint", "tainted":
					// the taint cache is built over the same (two-tier) backend as in cmds/build.go and cmds/taint.go
					tcache := caching.NewTaintCache(backend)
					lbl := t.target().Label
					var terr error
					switch op.kind {
					case "taint":
						terr = tcache.Taint(env.ctx, lbl)
					case "untaint":
						terr = tcache.Clear(env.ctx, lbl)
					default:
						var yes bool
						yes, terr = tcache.IsTainted(env.ctx, lbl)
						r["tainted"] = yes
					}
					r["outcome"] = errClass(terr)
				case "rawset":
					// the source stream of a blob breaks in the middle: every file output of the target is streamed into the
					// backend through a reader that fails after half of its bytes (and after 40000 bytes for large ones)
					cr, _ := backend.(*callRec)
					if cr == nil {
						r["outcome"] = "miss"
						break
					}
					liftFileSizeLimit()
					if err := env.resetWorkspace(req["ws"]); err != nil {
						return nil, err
					}
					limitOn()
					r["outcome"] = "err"
					for _, o := range t.outs {
						data, rerr := os.ReadFile(filepath.Join(env.ws, t.pkg, o.Identifier))
						if rerr != nil {
							continue
						}
						for _, cut := range []int{len(data) / 2, 40000} {
							if cut >= len(data) {
								continue
							}
							e, hung := withTimeout(opTimeout, func() error { return cr.rawSet(env.ctx, "cas", hashing.HashBytes(data), data, cut) })
							if hung {
								r["outcome"] = "hang"
							} else if e == nil {
								r["outcome"] = "ok" // a Set whose source failed must not report success
							}
						}
					}
				case "build", "build-local":
					// the command ran: its outputs are in the workspace
					liftFileSizeLimit()
					if err := env.resetWorkspace(req["ws"]); err != nil {
						return nil, err
					}
					limitOn()
					var res *gen.TargetResult
					werr, hung := withTimeout(opTimeout, func() error {
						var e error
						res, e = reg.WriteOutputs(env.ctx, t.target(), tracker(req))
						if e == nil {
							e = tc.Write(env.ctx, res)
						}
						return e
					})
					r["outcome"] = errClass(werr)
					if hung {
						r["outcome"] = "hang"
					}
					if op.kind == "build-local" && werr == nil {
						// what a run without remote leaves in the local cache, as seen by the model
						for _, o := range res.Outputs {
							if f := o.GetFile(); f != nil {
								tl.add(map[string]any{"e": "local", "m": mach, "ns": "cas", "k": f.GetDigest().GetHash(), "refs": []string{}})
							}
							if d := o.GetDirectory(); d != nil {
								td := d.GetTreeDigest().GetHash()
								if rc, err := fs.Get(env.ctx, "cas", td); err == nil {
									b, _ := io.ReadAll(rc)
									rc.Close()
									fds := treeFileDigests(b)
									for _, fd := range fds {
										tl.add(map[string]any{"e": "local", "m": mach, "ns": "cas", "k": fd, "refs": []string{}})
									}
									tl.add(map[string]any{"e": "local", "m": mach, "ns": "cas", "k": td, "refs": fds})
								}
							}
						}
						b, _ := proto.MarshalOptions{Deterministic: true}.Marshal(res)
						tl.add(map[string]any{"e": "local", "m": mach, "ns": "target", "k": t.key, "refs": tl.refsOf("target", t.key, b)})
					}
				case "restore", "restore-blocked":
					cached, lerr, lhung := loadResultTimed(env.ctx, tc, t.key)
					if lhung {
						r["outcome"] = "hang"
						break
					}
					if lerr != nil {
						r["outcome"] = "miss"
						break
					}
					// an empty workspace on this machine; "restore-blocked": a directory sits where each file output should be
					for _, o := range t.outs {
						os.RemoveAll(filepath.Join(env.ws, t.pkg, o.Identifier))
						if op.kind == "restore-blocked" && o.Type == "file" {
							os.MkdirAll(filepath.Join(env.ws, t.pkg, o.Identifier, "in-the-way"), 0755)
						}
					}
					rerr, hung := withTimeout(opTimeout, func() error { return reg.LoadOutputs(env.ctx, t.target(), cached, tracker(req)) })
					if op.kind == "restore-blocked" {
						quiesce(env.ws)
						for _, o := range t.outs {
							// a directory still in the way (the restore refused to replace it) is cleared for the following steps
							if info, e := os.Lstat(filepath.Join(env.ws, t.pkg, o.Identifier)); o.Type == "file" && e == nil && info.IsDir() {
								os.RemoveAll(filepath.Join(env.ws, t.pkg, o.Identifier))
							}
						}
					}
					switch {
					case hung:
						r["outcome"] = "hang"
						quiesce(env.ws)
					case rerr != nil:
						r["outcome"] = "err"
						r["msg"] = rerr.Error()
						quiesce(env.ws)
					default:
						r["outcome"] = "ok"
						equal := true
						for _, o := range t.outs {
							l, err := listing(filepath.Join(env.ws, t.pkg, o.Identifier))
							a, _ := jsonString(l)
							b, _ := jsonString(origin[t.name+"\x00"+o.Identifier])
							if err != nil || a != b {
								equal = false
							}
						}
						r["equal"] = equal
					}
				}
				results = append(results, r)
			}
			// a failed WriteOutputs returns while other uploads of the same target are still running
			tl.waitIdle()
			liftFileSizeLimit()
			step["results"] = results
			step["dangling"] = remoteClosure(remote)
			// content audit of every machine's local cache (blobs hash to their names, results decode and are closed
			// is NOT required locally: a local cache may hold a result whose blobs are only remote)
			la := map[string]any{}
			for name := range machines {
				saved := config.Global.Root
				config.Global.Root = filepath.Join(env.dir, "root-"+name)
				dir := config.Global.GetWorkspaceCacheDirectory()
				config.Global.Root = saved
				if bad := auditBlobs(dir); len(bad) > 0 {
					la[name] = bad
				}
			}
			step["local_audit"] = la
			steps = append(steps, step)
		}
		remote.mu.Lock()
		rkeys := []string{}
		for k := range remote.data {
			rkeys = append(rkeys, k)
		}
		remote.mu.Unlock()
		sort.Strings(rkeys)
		locals := map[string]any{}
		for name, fs := range machines {
			_ = fs
			saved := config.Global.Root
			config.Global.Root = filepath.Join(env.dir, "root-"+name)
			dir := config.Global.GetWorkspaceCacheDirectory()
			config.Global.Root = saved
			locals[name] = map[string]any{"cas": visibleKeys(dir, "cas"), "target": visibleKeys(dir, "target")}
		}
		return map[string]any{"steps": steps, "events": tl.events, "remote_keys": rkeys, "locals": locals,
			"dangling": remoteClosure(remote), "remote_ops": remote.ops}, nil
	})
}

// ------------------------------------------------------------------------------------------------
// C08: remote object keys composed by the real S3Cache (recording client)
// ------------------------------------------------------------------------------------------------

type recS3 struct{ calls [][2]string }

func (r *recS3) GetObject(ctx context.Context, bucket, key string) (io.ReadCloser, error) {
	r.calls = append(r.calls, [2]string{bucket, key})
	return nil, os.ErrNotExist
}
func (r *recS3) PutObject(ctx context.Context, bucket, key string, body io.Reader) error {
	r.calls = append(r.calls, [2]string{bucket, key})
	_, _ = io.Copy(io.Discard, body)
	return nil
}
func (r *recS3) DeleteObject(ctx context.Context, bucket, key string) error {
	r.calls = append(r.calls, [2]string{bucket, key})
	return nil
}
func (r *recS3) ObjectExists(ctx context.Context, bucket, key string) (bool, error) {
	r.calls = append(r.calls, [2]string{bucket, key})
	return false, nil
}

func init() {
	register("store.s3path", func(req map[string]any) (any, error) {
		root := b2s(req["root"])
		if layout, _ := req["layout"].(string); layout != "" {
			// the workspace root is a real directory <base>/srv/ci/<name>; with layout "symlink" the component
			// <base>/srv is a symbolic link to <base>/mnt/disk2 (same workspace_root string, other real path)
			base, _ := req["base"].(string)
			name := b2s(req["name"])
			if base == "" || name == "" {
				return nil, fmt.Errorf("base/name missing")
			}
			os.RemoveAll(base)
			defer os.RemoveAll(base)
			if layout == "symlink" {
				if err := os.MkdirAll(filepath.Join(base, "mnt", "disk2", "ci", name), 0755); err != nil {
					return nil, err
				}
				if err := os.Symlink(filepath.Join(base, "mnt", "disk2"), filepath.Join(base, "srv")); err != nil {
					return nil, err
				}
			} else if err := os.MkdirAll(filepath.Join(base, "srv", "ci", name), 0755); err != nil {
				return nil, err
			}
			root = filepath.Join(base, "srv", "ci", name)
			if _, err := os.Stat(root); err != nil {
				return nil, err
			}
		}
		config.Global = config.WorkspaceConfig{Root: "/nonexistent", WorkspaceRoot: root, LogLevel: "error", LogOutputPath: "stderr"}
		ctx := console.WithLogger(context.Background(), console.InitLogger())
		client := &recS3{}
		c, err := backends.NewS3CacheWithClient(ctx, config.S3CacheConfig{Bucket: b2s(req["bucket"]), Prefix: b2s(req["prefix"])}, client)
		if err != nil {
			return map[string]any{"ok": false}, nil
		}
		calls, _ := req["calls"].([]any)
		for i, cl := range calls {
			p, _ := cl.([]any)
			path, key := b2s(p[0]), b2s(p[1])
			switch i % 3 {
			case 0:
				_, _ = c.Exists(ctx, path, key)
			case 1:
				_ = c.Set(ctx, path, key, bytes.NewReader(nil))
			default:
				_, _ = c.Get(ctx, path, key)
			}
		}
		out := []any{}
		for _, cl := range client.calls {
			out = append(out, []any{s2b(cl[0]), s2b(cl[1])})
		}
		return map[string]any{"ok": true, "objects": out, "ws": s2b(strings.Trim(config.GetWorkspaceCachePrefix(root), "/")), "root": s2b(root),
			"local_cache_dir_name": s2b(filepath.Base(config.Global.GetWorkspaceRootDir()))}, nil
	})
}

// ------------------------------------------------------------------------------------------------
// C08: object names composed by the real GCSCache (recording HTTP server behind STORAGE_EMULATOR_HOST)
// ------------------------------------------------------------------------------------------------

type gcsRecorder struct {
	mu      sync.Mutex
	objects [][2]string
}

func (g *gcsRecorder) ServeHTTP(w http.ResponseWriter, r *http.Request) {
	p := r.URL.EscapedPath()
	if i := strings.Index(p, "/b/"); i >= 0 {
		rest := p[i+3:]
		if j := strings.Index(rest, "/o/"); j >= 0 {
			bucket, _ := url.PathUnescape(rest[:j])
			object, _ := url.PathUnescape(rest[j+3:])
			g.mu.Lock()
			g.objects = append(g.objects, [2]string{bucket, object})
			g.mu.Unlock()
		}
	}
	w.Header().Set("Content-Type", "application/json")
	w.WriteHeader(http.StatusNotFound)
	w.Write([]byte(`{"error":{"code":404,"message":"No such object","errors":[{"reason":"notFound"}]}}`))
}

func init() {
	// {"op":"store.gcspath","bucket","prefix","root","shared":bool,"calls":[[path,key],..]} -> {"objects":[[bucket,object],..]}
	register("store.gcspath", func(req map[string]any) (any, error) {
		rec := &gcsRecorder{}
		srv := httptest.NewServer(rec)
		defer srv.Close()
		os.Setenv("STORAGE_EMULATOR_HOST", strings.TrimPrefix(srv.URL, "http://"))
		defer os.Unsetenv("STORAGE_EMULATOR_HOST")
		root := b2s(req["root"])
		config.Global = config.WorkspaceConfig{Root: "/nonexistent", WorkspaceRoot: root, LogLevel: "error", LogOutputPath: "stderr"}
		ctx, cancel := context.WithTimeout(console.WithLogger(context.Background(), console.InitLogger()), 20*time.Second)
		defer cancel()
		shared, _ := req["shared"].(bool)
		c, err := backends.NewGCSCache(ctx, config.GCSCacheConfig{Bucket: b2s(req["bucket"]), Prefix: b2s(req["prefix"]), SharedCache: shared})
		if err != nil {
			return map[string]any{"ok": false, "msg": err.Error()}, nil
		}
		calls, _ := req["calls"].([]any)
		for _, cl := range calls {
			p, _ := cl.([]any)
			_, _ = c.Exists(ctx, b2s(p[0]), b2s(p[1]))
		}
		out := []any{}
		for _, o := range rec.objects {
			out = append(out, []any{s2b(o[0]), s2b(o[1])})
		}
		return map[string]any{"ok": true, "objects": out}, nil
	})
}
