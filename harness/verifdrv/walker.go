//go:build verif

package main

// walker.run: run the real dag.Walker (optionally with the real worker pool behind the callback)
// on a generated graph and return the trace of visible events, stamped by a logical clock that is
// taken under one mutex:
//
//	["s",i]        callback of node i entered
//	["cs",i]       "command" of node i started (inside the pool task when a pool is used)
//	["ce",i]       "command" of node i ended
//	["e",i,r]      callback of node i returned r ∈ ok | fail | cancelled
//	["c"]          the harness is about to cancel the parent context
//	["r",err]      Walk returned (err = it returned a non-nil error)
//
// Nothing here inspects walker internals: only NewDirectedGraph/AddNode/AddEdge/NewWalker/Walk,
// worker.NewTaskWorkerPool/StartWorkers/Run/Shutdown.

import (
	"context"
	"encoding/json"
	"errors"
	"fmt"
	"runtime"
	"sync"
	"time"

	tea "github.com/charmbracelet/bubbletea"
	"go.uber.org/zap"
	"go.uber.org/zap/zapcore"

	"grog/internal/config"
	"grog/internal/console"
	"grog/internal/dag"
	"grog/internal/label"
	"grog/internal/model"
	"grog/internal/worker"
)

type walkerCase struct {
	N        int      `json:"n"`
	Edges    [][2]int `json:"edges"` // [dependency, dependant]
	Unsel    []int    `json:"unsel"` // nodes that are not selected
	FailFast bool     `json:"failFast"`
	Fail     []int    `json:"fail"`
	LatUs    []int    `json:"latUs"`    // per node, 0 = return immediately
	OnCancel []string `json:"onCancel"` // per node: abort | fail | ignore
	FailKind []string `json:"failKind"` // per node: how a failing callback fails: error | deadline (wraps context.DeadlineExceeded)
	Yield    bool     `json:"yield"`    // runtime.Gosched() in zero-latency callbacks
	Workers  int      `json:"workers"`  // 0 = callbacks run directly, >0 = through the real worker pool
	// external cancellation: after this many logged events (-1 = never) and/or after this many µs
	CancelAfterEvents int `json:"cancelAfterEvents"`
	CancelAtUs        int `json:"cancelAtUs"`
	// cancel the parent context synchronously before Walk is called (a signal that arrived during loading / selection / lock wait)
	PreCancel bool `json:"preCancel"`
	TimeoutMs         int `json:"timeoutMs"`
}

type walkerLog struct {
	mu       sync.Mutex
	cond     *sync.Cond
	trace    [][]any
	inflight int
	cmds     int
	maxCmds  int
	starts   map[int]int
}

func (l *walkerLog) add(ev ...any) {
	l.trace = append(l.trace, ev)
	l.cond.Broadcast()
}

func runWalkerCase(wc walkerCase) (map[string]any, error) {
	if wc.N <= 0 {
		return nil, errors.New("n must be positive")
	}
	config.Global.DisableNonDeterministicLogging = true
	logger := console.NewFromSugared(zap.NewNop().Sugar(), zapcore.ErrorLevel)
	parent, cancel := context.WithCancel(console.WithLogger(context.Background(), logger))
	defer cancel()

	unsel := map[int]bool{}
	for _, u := range wc.Unsel {
		unsel[u] = true
	}
	nodes := make([]*model.Target, wc.N)
	idx := map[label.TargetLabel]int{}
	g := dag.NewDirectedGraph()
	for i := 0; i < wc.N; i++ {
		nodes[i] = &model.Target{Label: label.TargetLabel{Package: "p", Name: fmt.Sprintf("n%d", i)}, IsSelected: !unsel[i]}
		idx[nodes[i].Label] = i
		g.AddNode(nodes[i])
	}
	for _, e := range wc.Edges {
		if err := g.AddEdge(nodes[e[0]], nodes[e[1]]); err != nil {
			return nil, err
		}
	}
	failing := map[int]bool{}
	for _, f := range wc.Fail {
		failing[f] = true
	}
	lat := func(i int) time.Duration {
		if i < len(wc.LatUs) {
			return time.Duration(wc.LatUs[i]) * time.Microsecond
		}
		return 0
	}
	onCancel := func(i int) string {
		if i < len(wc.OnCancel) {
			return wc.OnCancel[i]
		}
		return "abort"
	}

	lg := &walkerLog{starts: map[int]int{}}
	lg.cond = sync.NewCond(&lg.mu)

	var pool *worker.TaskWorkerPool[dag.CacheResult]
	if wc.Workers > 0 {
		pool = worker.NewTaskWorkerPool[dag.CacheResult](logger, wc.Workers, func(_ tea.Msg) {}, wc.N)
		pool.StartWorkers(parent)
		defer pool.Shutdown()
	}

	// the "command": what the executor would run inside a pool task
	command := func(ctx context.Context, i int) string {
		lg.mu.Lock()
		lg.cmds++
		if lg.cmds > lg.maxCmds {
			lg.maxCmds = lg.cmds
		}
		lg.add("cs", i)
		lg.mu.Unlock()
		res := "ok"
		if failing[i] {
			res = "fail"
		}
		if d := lat(i); d > 0 {
			select {
			case <-time.After(d):
			case <-ctx.Done():
				switch onCancel(i) {
				case "abort":
					res = "cancelled"
				case "fail":
					res = "fail"
				}
			}
		} else if wc.Yield {
			runtime.Gosched()
		}
		if res == "cancelled" && ctx.Err() == nil {
			res = "fail"
		}
		lg.mu.Lock()
		lg.cmds--
		lg.add("ce", i)
		lg.mu.Unlock()
		return res
	}

	callback := func(ctx context.Context, node model.BuildNode) (dag.CacheResult, error) {
		i := idx[node.GetLabel()]
		lg.mu.Lock()
		lg.inflight++
		lg.starts[i]++
		lg.add("s", i)
		lg.mu.Unlock()
		var res string
		if pool != nil {
			_, err := pool.Run(func(update worker.StatusFunc) (dag.CacheResult, error) {
				r := command(ctx, i)
				switch r {
				case "ok":
					return dag.CacheMiss, nil
				case "cancelled":
					return dag.CacheMiss, ctx.Err()
				}
				return dag.CacheMiss, errors.New("command failed")
			})
			switch {
			case err == nil:
				res = "ok"
			case errors.Is(err, context.Canceled):
				res = "cancelled"
			default:
				res = "fail"
			}
		} else {
			res = command(ctx, i)
		}
		lg.mu.Lock()
		lg.inflight--
		lg.add("e", i, res)
		lg.mu.Unlock()
		switch res {
		case "ok":
			return dag.CacheMiss, nil
		case "cancelled":
			return dag.CacheMiss, fmt.Errorf("interrupted: %w", context.Canceled)
		}
		if i < len(wc.FailKind) && wc.FailKind[i] == "spurious-cancel" {
			// e.g. a cache client or a tool that gave up on a context of its own: NOT a cancellation of the walk
			return dag.CacheMiss, fmt.Errorf("remote cache: %w", context.Canceled)
		}
		if i < len(wc.FailKind) && wc.FailKind[i] == "deadline" {
			// what a target that exceeds its own `timeout:` may look like: a failure, not a cancellation of the walk
			return dag.CacheMiss, fmt.Errorf("timeout after 1s: %w", context.DeadlineExceeded)
		}
		return dag.CacheMiss, errors.New("target failed")
	}

	// external cancellation
	stopCanceller := make(chan struct{})
	var cancelTime time.Time
	doCancel := func() {
		lg.mu.Lock()
		lg.add("c")
		cancelTime = time.Now()
		lg.mu.Unlock()
		cancel()
	}
	if wc.PreCancel {
		doCancel()
	} else if wc.CancelAfterEvents >= 0 {
		go func() {
			lg.mu.Lock()
			for len(lg.trace) < wc.CancelAfterEvents {
				select {
				case <-stopCanceller:
					lg.mu.Unlock()
					return
				default:
				}
				lg.cond.Wait()
			}
			lg.mu.Unlock()
			select {
			case <-stopCanceller:
				return
			default:
			}
			doCancel()
		}()
	} else if wc.CancelAtUs >= 0 {
		go func() {
			select {
			case <-time.After(time.Duration(wc.CancelAtUs) * time.Microsecond):
				doCancel()
			case <-stopCanceller:
			}
		}()
	}

	walker := dag.NewWalker(g, callback, wc.FailFast)
	type walkRes struct {
		cm  dag.CompletionMap
		err error
	}
	resCh := make(chan walkRes, 1)
	cancelToReturnUs := int64(-1)
	go func() {
		cm, err := walker.Walk(parent)
		lg.mu.Lock()
		lg.add("r", err != nil)
		if !cancelTime.IsZero() {
			cancelToReturnUs = time.Since(cancelTime).Microseconds()
		}
		lg.mu.Unlock()
		resCh <- walkRes{cm, err}
	}()
	timeout := time.Duration(wc.TimeoutMs) * time.Millisecond
	if timeout <= 0 {
		timeout = 20 * time.Second
	}
	out := map[string]any{"hang": false}
	var wr walkRes
	select {
	case wr = <-resCh:
	case <-time.After(timeout):
		out["hang"] = true
	}
	close(stopCanceller)
	lg.mu.Lock()
	lg.cond.Broadcast()
	lg.mu.Unlock()

	comps := [][]any{}
	errKind := "none"
	if out["hang"] == false {
		if wr.err != nil {
			if errors.Is(wr.err, context.Canceled) {
				errKind = "canceled"
			} else {
				errKind = "other"
			}
		}
		// let callbacks that are still in flight (Walk returned through ctx.Done) finish, and give
		// routines that hold both a ready and a cancel message the chance to make their choice
		// (a pool job stranded in the queue by a cancelled context never answers: do not wait long then)
		wait := 3 * time.Second
		if errKind == "canceled" && pool != nil {
			wait = 250 * time.Millisecond
		}
		deadline := time.Now().Add(wait)
		for {
			lg.mu.Lock()
			n, before := lg.inflight, len(lg.trace)
			lg.mu.Unlock()
			if n == 0 {
				if errKind == "none" && !wc.FailFast {
					break
				}
				time.Sleep(3 * time.Millisecond)
				lg.mu.Lock()
				quiet := lg.inflight == 0 && len(lg.trace) == before
				lg.mu.Unlock()
				if quiet {
					break
				}
			} else {
				time.Sleep(time.Millisecond)
			}
			if time.Now().After(deadline) {
				break
			}
		}
		for lbl, c := range wr.cm {
			comps = append(comps, []any{idx[lbl], c.IsSuccess})
		}
	}
	lg.mu.Lock()
	trace := make([][]any, len(lg.trace))
	copy(trace, lg.trace)
	dup := []int{}
	for i, k := range lg.starts {
		if k > 1 {
			dup = append(dup, i)
		}
	}
	out["stranded"] = lg.inflight
	out["cancelToReturnUs"] = cancelToReturnUs
	out["maxCmds"] = lg.maxCmds
	lg.mu.Unlock()
	out["trace"] = trace
	out["completions"] = comps
	out["err"] = errKind
	out["startedTwice"] = dup
	return out, nil
}

func init() {
	register("walker.run", func(req map[string]any) (any, error) {
		raw, err := json.Marshal(req)
		if err != nil {
			return nil, err
		}
		wc := walkerCase{CancelAfterEvents: -1, CancelAtUs: -1}
		if err := json.Unmarshal(raw, &wc); err != nil {
			return nil, err
		}
		return runWalkerCase(wc)
	})
}
