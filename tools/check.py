#!/usr/bin/env python3
"""Entry point of every registered check:  tools/check.py <property id> [--tier quick|thorough] [--replay file]

  1. theorem side  : lake build of the Lean project, axiom audit of the property's obligations, source grep
  2. correspondence: the property's module drives the real code (built from the repository's current
                     working tree) and the Lean model on the same inputs and runs its oracle
  3. verdict       : VIOLATION lines, KNOWN-FINDING lines, evidence/<id>.json, exit status
"""
import argparse, importlib, json, os, sys, traceback
sys.path.insert(0, os.path.dirname(os.path.abspath(__file__)))
import vlib


def main():
    ap = argparse.ArgumentParser()
    ap.add_argument("prop")
    ap.add_argument("--tier", default=os.environ.get("VERIF_TIER", "quick"), choices=["quick", "thorough"])
    ap.add_argument("--replay")
    ap.add_argument("--skip-lean", action="store_true", help="development only: skip the theorem side")
    a = ap.parse_args()
    seed = int(os.environ.get("VERIF_SEED", "1") or 1)
    mod = importlib.import_module("checks." + a.prop.lower())
    ctx = vlib.Ctx(mod, a.tier, seed)
    if a.replay:
        rc = mod.replay(ctx, json.load(open(a.replay)))
        ctx.cleanup()
        sys.exit(rc)
    try:
        if a.skip_lean:
            ctx.theorem_side = {"obligations": 0, "discharged": 0, "failures": []}
        else:
            vlib.theorem_side(ctx)
        before = len(ctx.violations)
        mod.run(ctx)
        fails = ctx.theorem_side.get("failures", [])
        if fails:
            # A proof obligation no longer checks. The correspondence run above already searched the
            # implementation for a failing input; if it reported one, that is the replay. Otherwise the
            # property is no longer shown to hold: report, naming the theorem.
            if not any(found for _, found in ctx.violations[before:]):
                ctx.violation("proof obligation(s) no longer check: " + ", ".join(f["theorem"] for f in fails),
                              {"kind": "theorem-broken", "failures": fails}, found_input=False)
    except Exception:
        ctx.violation("check crashed", {"kind": "check-crashed", "traceback": traceback.format_exc()}, found_input=False)
    sys.exit(ctx.finish())


if __name__ == "__main__":
    main()
