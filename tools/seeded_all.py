#!/usr/bin/env python3
"""Run every seeded mutation under seeded/ against its property's quick check, in scratch worktrees of the
repository (GROG_REPO), several in parallel; evidence and replays of these runs go to scratch directories.
Writes seeded/RESULTS.md and records `final_run` (with --first: `first_run`) in each meta.json.
tools/seeded_all.py [-j 3] [--only C01,C02] [--ids C11-m10,C11-m11] [--first]"""
import argparse, json, os, subprocess, sys, shutil, time
from concurrent.futures import ThreadPoolExecutor
import threading, queue
VERIF = os.path.dirname(os.path.dirname(os.path.abspath(__file__)))

def sh(cmd, **kw):
    return subprocess.run(cmd, shell=True, capture_output=True, text=True, **kw)

def main():
    ap = argparse.ArgumentParser(); ap.add_argument("-j", type=int, default=3); ap.add_argument("--only"); ap.add_argument("--ids"); ap.add_argument("--first", action="store_true")
    a = ap.parse_args()
    ids = sorted(d for d in os.listdir(os.path.join(VERIF, "seeded")) if os.path.isfile(os.path.join(VERIF, "seeded", d, "patch.diff")))
    if a.only:
        ids = [i for i in ids if i.split("-")[0] in a.only.split(",")]
    if a.ids:
        ids = [i for i in ids if i in a.ids.split(",")]
    base = os.path.join("/tmp", "seeded_all_%d" % os.getpid())
    os.makedirs(base)
    wts = queue.Queue()
    for k in range(a.j):
        wt = os.path.join(base, "wt%d" % k)
        r = sh(f"git -C /repo worktree add -q --detach {wt} HEAD")
        assert r.returncode == 0, r.stderr
        wts.put(wt)
    results = {}
    def job(mid):
        wt = wts.get()
        try:
            meta = json.load(open(os.path.join(VERIF, "seeded", mid, "meta.json")))
            prop = meta["property"]
            sh(f"git -C {wt} checkout -q -- . && git -C {wt} clean -fdq")
            r = sh(f"git -C {wt} apply {os.path.join(VERIF, 'seeded', mid, 'patch.diff')}")
            if r.returncode != 0:
                return mid, prop, "PATCH-DOES-NOT-APPLY (code changed since it was written)", 0
            cb = subprocess.run("go build ./... 2>&1 | tail -3", shell=True, cwd=wt, env=dict(os.environ, GOFLAGS="-mod=mod", GOPROXY="off"), capture_output=True, text=True)
            sh(f"git -C {wt} checkout -q -- go.mod go.sum")
            if cb.stdout.strip():
                return mid, prop, "PATCH-NO-LONGER-COMPILES (code changed since it was written)", 0
            env = dict(os.environ, GROG_REPO=wt, VERIF_EVIDENCE_DIR=os.path.join(base, "ev", mid), VERIF_REPLAY_DIR=os.path.join(base, "rp", mid))
            t = time.time()
            c = subprocess.run(f"python3 tools/check.py {prop} --tier quick", shell=True, cwd=VERIF, env=env, capture_output=True, text=True)
            viol = [l for l in c.stdout.splitlines() if l.startswith("VIOLATION")]
            if c.returncode == 1 and viol:
                with_input = [v for v in viol if not v.rstrip().endswith("no-failing-input-found")]
                verdict = "CAUGHT" if with_input else "CAUGHT (no-failing-input-found)"
            elif c.returncode == 0:
                verdict = "MISSED"
            else:
                verdict = f"ERROR rc={c.returncode}"
            return mid, prop, verdict, time.time() - t
        finally:
            sh(f"git -C {wt} checkout -q -- . && git -C {wt} clean -fdq")
            wts.put(wt)
    with ThreadPoolExecutor(a.j) as ex:
        for mid, prop, verdict, wall in ex.map(job, ids):
            print(f"{mid} {prop}: {verdict} ({wall:.0f}s)", flush=True)
            results[mid] = verdict
            mp = os.path.join(VERIF, "seeded", mid, "meta.json")
            meta = json.load(open(mp)); meta["first_run" if a.first else "final_run"] = verdict
            json.dump(meta, open(mp, "w"), indent=1)
    while not wts.empty():
        sh(f"git -C /repo worktree remove --force {wts.get()}")
    shutil.rmtree(base, ignore_errors=True)
    lines = ["# Seeded mutations: result of the quick check of the property each one breaks", "",
             "Each mutation was written by an independent sub-agent that saw only the property text (and, from round b on, the list of earlier ideas) and its own",
             "scratch worktree; every one was confirmed (existing tests unchanged, demo fails with it and passes without) before it was kept. `first run` = the check as",
             "it was when the mutation was written; `final run` = `tools/seeded_all.py` on the final tree (patch applied in a scratch worktree, quick tier, seed 1).",
             "PATCH-DOES-NOT-APPLY / PATCH-NO-LONGER-COMPILES: the mutated code was changed by a later `fix:` commit. MISSED in the final run: see the note (both are",
             "equivalent mutants on the final tree).", "",
             "| id | property | round | first run | final run | note |", "|---|---|---|---|---|---|"]
    for mid in sorted(os.listdir(os.path.join(VERIF, "seeded"))):
        mp = os.path.join(VERIF, "seeded", mid, "meta.json")
        if os.path.isfile(mp):
            m = json.load(open(mp))
            rnd = m.get("round", "")
            rnd = "d" if rnd.startswith("fourth") else "c" if rnd.startswith("third") else "b" if "second" in rnd or "generalis" in rnd else ("a" if not rnd else rnd[:12])
            note = m.get("final_run_note", "") or m.get("strengthened", "")
            lines.append(f"| {mid} | {m['property']} | {rnd} | {m.get('first_run', m.get('caught_by', ''))} | {m.get('final_run', '')} | {note} |")
    open(os.path.join(VERIF, "seeded", "RESULTS.md"), "w").write("\n".join(lines) + "\n")

if __name__ == "__main__":
    main()
