#!/usr/bin/env python3
"""Shared machinery of the grog verification checks.

A check module (tools/checks/cXX.py) defines

    PROPERTY    = "C17"
    LEVEL       = "proof"
    OBLIGATIONS = ["Grog.C17.parse_print_label", ...]   # theorems that must exist in Props/CXX.lean
    PROP_MODULES = ["GrogModel.Props.C17"]               # optional, defaults to Props.<id>
    def run(ctx): ...                                    # correspondence + oracle, uses ctx

and check.py drives it:  theorem side (lake build, axiom audit, source grep), correspondence
side (ctx.impl / ctx.model run the Go and Lean drivers on the same JSON lines), verdict, evidence.
"""
import hashlib, json, os, random, re, shutil, subprocess, sys, time, fcntl

VERIF = os.path.dirname(os.path.dirname(os.path.abspath(__file__)))
REPO = os.path.abspath(os.environ.get("GROG_REPO", "/repo"))
LEAN = os.path.join(VERIF, "lean")
_tag = "main" if REPO == "/repo" else hashlib.sha1(REPO.encode()).hexdigest()[:10]
BUILD = os.path.join(VERIF, ".build", _tag)
WORK = os.path.join(VERIF, ".work")
ALLOWED_AXIOMS = {"propext", "Classical.choice", "Quot.sound"}
FORBIDDEN = re.compile(r"\bsorry\b|\badmit\b|^\s*axiom\s|native_decide|bv_decide|implemented_by|\bunsafe\s|maxHeartbeats\s+0\b")


def log(*a):
    print(*a, file=sys.stderr, flush=True)


class Lock:
    """Serialise builds that share output directories (lake project, go build dir)."""

    def __init__(self, name):
        os.makedirs(os.path.join(VERIF, ".build"), exist_ok=True)
        self.path = os.path.join(VERIF, ".build", name + ".lock")

    def __enter__(self):
        self.f = open(self.path, "w")
        fcntl.flock(self.f, fcntl.LOCK_EX)
        return self

    def __exit__(self, *a):
        fcntl.flock(self.f, fcntl.LOCK_UN)
        self.f.close()


# ----------------------------------------------------------------------------------------------
# Go side
# ----------------------------------------------------------------------------------------------

def go_env():
    env = dict(os.environ)
    env["GOFLAGS"] = "-mod=mod"
    env["GOPROXY"] = "off"
    env["GOTOOLCHAIN"] = "auto"
    env.pop("GOSUMDB", None)
    env.pop("GOWORK", None)
    env["GONOSUMDB"] = "*"
    env["GONOSUMCHECK"] = "1"
    env["GOFLAGS"] = "-mod=mod"
    return env


def prepare_overlay():
    """Overlay /verif/harness into module grog without touching the repository:
         harness/verifdrv/*.go          -> <repo>/internal/zz_verif/verifdrv/
         harness/intest/<pkg path>/*.go -> <repo>/<pkg path>/        (extra _test.go files)
       and a private copy of go.mod/go.sum (so that -mod=mod never rewrites the repo's)."""
    os.makedirs(BUILD, exist_ok=True)
    replace = {}
    hdir = os.path.join(VERIF, "harness")
    for sub in sorted(os.listdir(hdir)):
        full = os.path.join(hdir, sub)
        if not os.path.isdir(full) or sub == "intest":
            continue
        for f in sorted(os.listdir(full)):
            if f.endswith(".go"):
                replace[os.path.join(REPO, "internal", "zz_verif", sub, f)] = os.path.join(full, f)
    intest = os.path.join(hdir, "intest")
    if os.path.isdir(intest):
        for root, _, files in os.walk(intest):
            rel = os.path.relpath(root, intest)
            for f in files:
                if f.endswith(".go"):
                    replace[os.path.join(REPO, rel, f)] = os.path.join(root, f)
    ov = os.path.join(BUILD, "overlay.json")
    with open(ov, "w") as fh:
        json.dump({"Replace": replace}, fh, indent=1)
    for f in ("go.mod", "go.sum"):
        shutil.copyfile(os.path.join(REPO, f), os.path.join(BUILD, f))
    return ov


def go_flags():
    return ["-tags", "verif", "-overlay", os.path.join(BUILD, "overlay.json"),
            "-modfile", os.path.join(BUILD, "go.mod")]


def go_build(pkg, out, extra=()):
    """Build a package of module grog from the *current working tree* of REPO."""
    with Lock("go-" + _tag):
        prepare_overlay()
        cmd = ["go", "build", *go_flags(), *extra, "-o", out, pkg]
        t = time.time()
        p = subprocess.run(cmd, cwd=REPO, env=go_env(), capture_output=True, text=True)
        log(f"[go build {pkg}] {time.time()-t:.1f}s rc={p.returncode}")
        return p.returncode == 0, p.stdout + p.stderr


def build_verifdrv(name="verifdrv", extra=()):
    out = os.path.join(BUILD, name + ("-race" if "-race" in extra else ""))
    ok, msg = go_build("grog/internal/zz_verif/" + name, out, extra)
    return (out if ok else None), msg


def build_grog():
    out = os.path.join(BUILD, "grog")
    ok, msg = go_build(".", out)
    return (out if ok else None), msg


def go_test(pkg, run, extra=(), timeout=1200, env_extra=None):
    """Run overlay-provided tests of a package built from the current tree."""
    with Lock("go-" + _tag):
        prepare_overlay()
    env = go_env()
    if env_extra:
        env.update(env_extra)
    cmd = ["go", "test", *go_flags(), *extra, "-count=1", "-vet=off", "-run", run, pkg]
    t = time.time()
    try:
        p = subprocess.run(cmd, cwd=REPO, env=env, capture_output=True, text=True, timeout=timeout)
        rc, out = p.returncode, p.stdout + p.stderr
    except subprocess.TimeoutExpired as e:
        rc, out = 124, (e.stdout or b"").decode(errors="replace") + "\nTIMEOUT"
    log(f"[go test {pkg} -run {run}] {time.time()-t:.1f}s rc={rc}")
    return rc, out


# ----------------------------------------------------------------------------------------------
# Lean side
# ----------------------------------------------------------------------------------------------

def lean_build(targets=("GrogModel", "grogdrv")):
    with Lock("lake"):
        subprocess.run([sys.executable, os.path.join(VERIF, "tools", "gen_lean.py")], check=True)
        t = time.time()
        p = subprocess.run(["lake", "build", *targets], cwd=LEAN, capture_output=True, text=True)
        log(f"[lake build {' '.join(targets)}] {time.time()-t:.1f}s rc={p.returncode}")
        return p.returncode == 0, p.stdout + p.stderr


def lean_audit(modules):
    """-> {theorem name: [axioms]} for all theorems declared in the given modules."""
    p = subprocess.run(["lake", "env", "lean", "--run", "AuditMain.lean", *modules],
                       cwd=LEAN, capture_output=True, text=True)
    res = {}
    if p.returncode != 0:
        return None, p.stdout + p.stderr
    for line in p.stdout.splitlines():
        line = line.strip()
        if line.startswith("{"):
            j = json.loads(line)
            res[j["name"]] = j["axioms"]
    return res, ""


def strip_comments(src):
    # remove /- ... -/ (nested) and -- line comments, and string literals
    out, i, depth, n = [], 0, 0, len(src)
    while i < n:
        if src.startswith("/-", i):
            depth += 1; i += 2; continue
        if depth and src.startswith("-/", i):
            depth -= 1; i += 2; continue
        if depth:
            if src[i] == "\n":
                out.append("\n")
            i += 1; continue
        if src.startswith("--", i):
            while i < n and src[i] != "\n":
                i += 1
            continue
        if src[i] == '"':
            i += 1
            while i < n and src[i] != '"':
                i += 2 if src[i] == "\\" else 1
            i += 1; out.append('""'); continue
        out.append(src[i]); i += 1
    return "".join(out)


def lean_source_grep():
    """Forbidden constructs anywhere in the Lean sources (outside comments and strings)."""
    hits = []
    for root, _, files in os.walk(LEAN):
        if ".lake" in root:
            continue
        for f in files:
            if not f.endswith(".lean"):
                continue
            path = os.path.join(root, f)
            code = strip_comments(open(path).read())
            for ln, line in enumerate(code.splitlines(), 1):
                if FORBIDDEN.search(line):
                    hits.append(f"{os.path.relpath(path, VERIF)}:{ln}: {line.strip()[:120]}")
    return hits


def lean_imports_closure(mod):
    """Transitive GrogModel.* imports of a module (source level)."""
    seen, todo = set(), [mod]
    while todo:
        m = todo.pop()
        if m in seen:
            continue
        seen.add(m)
        path = os.path.join(LEAN, *m.split(".")) + ".lean"
        if not os.path.exists(path):
            continue
        for line in open(path):
            mm = re.match(r"\s*(?:public\s+)?import\s+(GrogModel[\w.]*)", line)
            if mm:
                todo.append(mm.group(1))
    return sorted(seen)


# ----------------------------------------------------------------------------------------------
# Drivers
# ----------------------------------------------------------------------------------------------

def run_lines(binary, reqs, timeout=3600, env=None, cwd=None):
    """Feed JSON requests to a driver, return the list of decoded replies (None for a missing one)."""
    os.makedirs(WORK, exist_ok=True)
    data = "".join(json.dumps(r, ensure_ascii=True) + "\n" for r in reqs)
    p = subprocess.run([binary], input=data, capture_output=True, text=True, timeout=timeout, env=env, cwd=cwd)
    outs = []
    for line in p.stdout.split("\n"):      # not splitlines(): replies may contain U+0085, U+001C.. inside strings
        line = line.strip(" \r\t")
        if not line:
            continue
        try:
            outs.append(json.loads(line))
        except Exception:
            outs.append({"error": "unparsable reply", "raw": line[:200]})
    crashed = p.returncode != 0
    while len(outs) < len(reqs):
        outs.append({"error": "no reply (driver died)" if crashed else "no reply",
                     "stderr": p.stderr[-2000:] if len(outs) == len(reqs) - 1 or crashed else ""})
        crashed = False
    return outs


def canon(x):
    """Canonical JSON text for comparison."""
    return json.dumps(x, sort_keys=True, ensure_ascii=True)


# ----------------------------------------------------------------------------------------------
# Known findings
# ----------------------------------------------------------------------------------------------

def known_findings():
    path = os.path.join(VERIF, "KNOWN_FINDINGS.json")
    if not os.path.exists(path):
        return []
    return json.load(open(path)).get("findings", [])


# ----------------------------------------------------------------------------------------------
# Check context
# ----------------------------------------------------------------------------------------------

class Ctx:
    def __init__(self, mod, tier, seed):
        self.mod = mod
        self.prop = mod.PROPERTY
        self.tier = tier
        self.seed = seed
        self.rng = random.Random(seed)
        self.t0 = time.time()
        self.coverage = {"evaluations": 0, "distinct_nontrivial": 0, "samples": []}
        self.assumptions = []
        self.violations = []      # (replay path, found_input)
        self.known_hits = []      # (signature, description)
        self.notes = []
        self.theorem_side = None
        self._impl = None
        self._model = None
        self._grog = None
        self._replay_n = 0
        self._sig_count = {}
        self.workdir = os.path.join(WORK, f"{self.prop}-{os.getpid()}")

    # --- scratch space -----------------------------------------------------------------------
    def scratch(self, name=""):
        d = os.path.join(self.workdir, name)
        os.makedirs(d, exist_ok=True)
        return d

    def cleanup(self):
        shutil.rmtree(self.workdir, ignore_errors=True)

    # --- binaries ----------------------------------------------------------------------------
    def impl_binary(self):
        if self._impl is None:
            path, msg = build_verifdrv()
            if path is None:
                self.harness_broken("go build of the correspondence driver failed against the current tree", msg)
                self._impl = False
            else:
                self._impl = path
        return self._impl or None

    def model_binary(self):
        return os.path.join(LEAN, ".lake", "build", "bin", "grogdrv")

    def grog_binary(self):
        if self._grog is None:
            path, msg = build_grog()
            if path is None:
                self.harness_broken("go build of grog failed", msg)
                self._grog = False
            else:
                self._grog = path
        return self._grog or None

    def impl(self, reqs, **kw):
        b = self.impl_binary()
        if not b:
            return None
        return run_lines(b, reqs, **kw)

    def model(self, reqs, **kw):
        return run_lines(self.model_binary(), reqs, **kw)

    # --- differential helper -----------------------------------------------------------------
    def diff(self, reqs, key=None, chunk=20000):
        """Run reqs on both sides; return list of (req, impl_out, model_out) that differ.
        `key` maps a reply to the part that must agree (default: whole reply)."""
        bad = []
        for i in range(0, len(reqs), chunk):
            part = reqs[i:i + chunk]
            a = self.impl(part)
            if a is None:
                return None
            b = self.model(part)
            for r, x, y in zip(part, a, b):
                kx, ky = (key(x), key(y)) if key else (x, y)
                if canon(kx) != canon(ky):
                    bad.append((r, x, y))
        self.coverage["evaluations"] += len(reqs)
        return bad

    # --- reporting ---------------------------------------------------------------------------
    def sample(self, x, limit=6):
        if len(self.coverage["samples"]) < limit:
            self.coverage["samples"].append(x)

    def write_replay(self, obj):
        d = os.path.join(os.environ.get("VERIF_REPLAY_DIR") or os.path.join(VERIF, "replays"), self.prop)
        os.makedirs(d, exist_ok=True)
        self._replay_n += 1
        path = os.path.join(d, f"{self.tier}-seed{self.seed}-{self._replay_n}.json")
        obj = dict(obj)
        obj.setdefault("property", self.prop)
        obj.setdefault("seed", self.seed)
        obj.setdefault("tier", self.tier)
        with open(path, "w") as fh:
            json.dump(obj, fh, indent=1, sort_keys=True)
        return path

    def known(self, signature):
        for f in known_findings():
            if f.get("status") == "open" and f.get("property") == self.prop and f.get("signature") == signature:
                return f
        return None

    def violation(self, what, replay_obj, signature=None, found_input=True):
        """Report a violation of the property. `signature` identifies the failing input class; if it is
        listed as an open known finding the check prints KNOWN-FINDING and continues."""
        if signature is not None and found_input:
            f = self.known(signature)
            if f is not None:
                if signature not in [s for s, _ in self.known_hits]:
                    self.known_hits.append((signature, f.get("what", what)))
                return
        if signature is not None:
            self._sig_count[signature] = self._sig_count.get(signature, 0) + 1
            if self._sig_count[signature] > 1:
                return      # one replay per failing-input class
        replay_obj = dict(replay_obj)
        replay_obj["what"] = what
        replay_obj["found_failing_input"] = bool(found_input)
        if signature:
            replay_obj["signature"] = signature
        path = self.write_replay(replay_obj)
        self.violations.append((path, found_input))

    def harness_broken(self, what, detail):
        self.violation(what, {"kind": "correspondence-not-established", "correspondence": what,
                              "detail": detail[-6000:]}, found_input=False)

    # --- finishing ---------------------------------------------------------------------------
    def finish(self):
        cov = self.coverage
        ts = self.theorem_side or {}
        cov.update({
            "obligations": ts.get("obligations", 0),
            "discharged": ts.get("discharged", 0),
            "checker_cmd": ts.get("checker_cmd", ""),
            "trusted_base": ts.get("trusted_base", []),
            "theorems": ts.get("theorems", {}),
        })
        if self.notes:
            cov["notes"] = self.notes
        if self.known_hits:
            cov["known_findings_reproduced"] = [s for s, _ in self.known_hits]
        ev = {
            "property_id": self.prop, "tier": self.tier, "seed": self.seed,
            "level": getattr(self.mod, "LEVEL", "proof"),
            "coverage": cov,
            "assumptions": self.assumptions + list(getattr(self.mod, "ASSUMPTIONS", [])),
            "wall_s": round(time.time() - self.t0, 2),
            "violations": len(self.violations),
        }
        evdir = os.environ.get("VERIF_EVIDENCE_DIR") or os.path.join(VERIF, "evidence")   # override: seeded-mutation runs only
        os.makedirs(evdir, exist_ok=True)
        with open(os.path.join(evdir, self.prop + ".json"), "w") as fh:
            json.dump(ev, fh, indent=1, sort_keys=True)
        for sig, what in self.known_hits:
            print(f"KNOWN-FINDING: property={self.prop} {sig}: {what}")
        for path, found in self.violations:
            print(f"VIOLATION property={self.prop} replay={path}" + ("" if found else " no-failing-input-found"))
        sys.stdout.flush()
        self.cleanup()
        return 1 if self.violations else 0


def theorem_side(ctx):
    """lake build, audit axioms of the registered obligations, grep sources. Returns dict."""
    mod = ctx.mod
    prop_modules = getattr(mod, "PROP_MODULES", ["GrogModel.Props." + mod.PROPERTY])
    obligations = list(mod.OBLIGATIONS)
    res = {"obligations": len(obligations), "discharged": 0, "theorems": {},
           "checker_cmd": "cd lean && lake build && lake env lean --run AuditMain.lean " + " ".join(prop_modules),
           "trusted_base": ["Lean 4 kernel (lake build of the property modules)",
                            "axioms: subset of propext, Classical.choice, Quot.sound (audited per theorem)",
                            "hand-written model tied to the code only by the correspondence run of this check"]}
    failures = []
    ok, out = lean_build(tuple(prop_modules) + ("grogdrv",))
    if not ok:
        failures.append({"theorem": "(lake build)", "reason": "lake build failed", "detail": out[-4000:]})
    else:
        axioms, err = lean_audit(prop_modules)
        if axioms is None:
            failures.append({"theorem": "(audit)", "reason": "audit failed", "detail": err[-4000:]})
        else:
            for name in obligations:
                if name not in axioms:
                    failures.append({"theorem": name, "reason": "obligation not present as a theorem in " + ",".join(prop_modules)})
                elif not set(axioms[name]) <= ALLOWED_AXIOMS:
                    failures.append({"theorem": name, "reason": "uses axioms " + ",".join(sorted(set(axioms[name]) - ALLOWED_AXIOMS))})
                else:
                    res["discharged"] += 1
                    res["theorems"][name] = axioms[name]
            if ctx.tier == "thorough":
                with Lock("lake"):
                    p = subprocess.run(["lake", "env", "leanchecker", *prop_modules], cwd=LEAN, capture_output=True, text=True)
                res["leanchecker_rc"] = p.returncode
                if p.returncode != 0:
                    failures.append({"theorem": "(leanchecker)", "reason": "leanchecker rejected", "detail": (p.stdout + p.stderr)[-3000:]})
    hits = lean_source_grep()
    if hits:
        failures.append({"theorem": "(source grep)", "reason": "forbidden construct in Lean sources", "detail": "\n".join(hits[:50])})
    res["failures"] = failures
    ctx.theorem_side = res
    return res
