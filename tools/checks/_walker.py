"""Shared helpers of the walker group (C03, C04, C05, C18): DAG generators, the run of the real
walker through verifdrv (`walker.run`), the replay of the recorded trace through the Lean model
(`walker.replay`), and the model-independent oracles on the real trace."""
import json, os, subprocess, sys, time

# ------------------------------------------------------------------------------------------------
# graph generators: a case is a dict understood by harness/verifdrv/walker.go
# ------------------------------------------------------------------------------------------------

def g_chain(n):
    return n, [[i, i + 1] for i in range(n - 1)], "chain"


def g_fanout(n):
    return n, [[0, i] for i in range(1, n)], "fanout"


def g_fanin(n):
    return n, [[i, n - 1] for i in range(n - 1)], "fanin"


def g_diamonds(k):
    # k stacked diamonds: a -> (b, c) -> d -> (e, f) -> g ...
    edges, top = [], 0
    nxt = 1
    for _ in range(k):
        b, c, d = nxt, nxt + 1, nxt + 2
        edges += [[top, b], [top, c], [b, d], [c, d]]
        top, nxt = d, nxt + 3
    return nxt, edges, "diamonds"


def g_layered(rng, n, layers, fan):
    layers = max(1, min(layers, n))
    lay = [[] for _ in range(layers)]
    for i in range(n):
        lay[min(layers - 1, i * layers // n)].append(i)
    edges = []
    for li in range(1, layers):
        for m in lay[li]:
            prev = lay[li - 1] if rng.random() < 0.8 else lay[rng.randrange(li)]
            if not prev:
                continue
            for d in rng.sample(prev, min(len(prev), rng.randint(1, fan))):
                edges.append([d, m])
    return n, edges, "layered"


def g_forest(n):
    return n, [], "independent"


def g_bipartite(a, b):
    # a roots, b sinks, complete: every sink waits for every root
    return a + b, [[i, a + j] for i in range(a) for j in range(b)], "bipartite"


def dependants(n, edges):
    out = [[] for _ in range(n)]
    for d, m in edges:
        out[d].append(m)
    return out


def deps_of(n, edges):
    ins = [[] for _ in range(n)]
    for d, m in edges:
        ins[m].append(d)
    return ins


def descendants(n, edges, a):
    out = dependants(n, edges)
    seen, todo = set(), list(out[a])
    while todo:
        t = todo.pop()
        if t in seen:
            continue
        seen.add(t)
        todo += out[t]
    return seen


def ancestors_all(n, edges):
    """list of ancestor sets, by a topological sweep (edges go from lower to higher index in all generators)"""
    ins = deps_of(n, edges)
    anc = [set() for _ in range(n)]
    for m in range(n):
        for d in ins[m]:
            anc[m].add(d)
            anc[m] |= anc[d]
    return anc


def path_count(n, edges, a):
    """number of paths starting at a (what GetDescendants enumerates)"""
    out = dependants(n, edges)
    memo = {}

    def cnt(x):
        if x not in memo:
            memo[x] = sum(1 + cnt(y) for y in out[x])
        return memo[x]
    sys.setrecursionlimit(10000)
    return cnt(a)


def random_graph(rng, maxn):
    k = rng.random()
    if k < 0.12:
        return g_chain(rng.randint(1, min(maxn, 60)))
    if k < 0.30:
        return g_fanout(rng.randint(2, maxn))
    if k < 0.42:
        return g_fanin(rng.randint(2, maxn))
    if k < 0.52:
        return g_diamonds(rng.randint(1, min(6, max(1, (maxn - 1) // 3))))
    if k < 0.60:
        return g_forest(rng.randint(1, maxn))
    if k < 0.68:
        a = rng.randint(1, max(1, min(12, maxn // 2)))
        b = rng.randint(1, max(1, min(30, maxn - a)))
        return g_bipartite(a, b)
    n = rng.randint(2, maxn)
    return g_layered(rng, n, rng.randint(2, 6), rng.randint(1, 3))


def make_case(rng, maxn=400, workers=None, fail_fast=None, cancel=False, family=None, lat_scale=300):
    n, edges, fam = family if family else random_graph(rng, maxn)
    if edges and rng.random() < 0.2:
        # the same dependency listed more than once: analysis.BuildGraph adds one edge per listed label
        edges = list(edges) + [list(rng.choice(edges)) for _ in range(rng.randint(1, 3))]
        edges.sort(key=lambda e: (e[1], e[0]))
    c = {"n": n, "edges": edges, "family": fam}
    c["failFast"] = rng.random() < 0.4 if fail_fast is None else fail_fast
    # failing subset
    r = rng.random()
    if r < 0.25:
        fail = []
    elif r < 0.6:
        fail = [rng.randrange(n)]
    else:
        fail = sorted(set(rng.randrange(n) for _ in range(max(1, n // 10))))
    # GetDescendants enumerates paths (F-paths, owned by the graph group): keep it small here
    fail = [f for f in fail if path_count(n, edges, f) <= 20000]
    c["fail"] = fail
    # latencies: zero, tiny, mixed
    mode = rng.random()
    if mode < 0.35:
        lat = [0] * n
    elif mode < 0.6:
        lat = [rng.choice([0, 0, 1, 20, lat_scale]) for _ in range(n)]
    else:
        lat = [rng.randint(0, lat_scale) for _ in range(n)]
    c["latUs"] = lat
    c["yield"] = rng.random() < 0.5
    c["onCancel"] = [rng.choice(["abort", "abort", "fail", "ignore"]) for _ in range(n)]
    c["failKind"] = [rng.choice(["error", "error", "deadline", "spurious-cancel"]) for _ in range(n)]
    c["workers"] = rng.choice([0, 0, 1, 2, 3, 8]) if workers is None else workers
    # unselected nodes: a set closed under dependants (so the selection is closed under dependencies)
    unsel = set()
    if rng.random() < 0.3 and n > 2:
        for _ in range(rng.randint(1, 3)):
            u = rng.randrange(n)
            unsel.add(u)
            unsel |= descendants(n, edges, u)
        if len(unsel) == n:
            unsel = set()
    c["unsel"] = sorted(unsel)
    c["cancelAfterEvents"] = -1
    if cancel:
        c["cancelAfterEvents"] = rng.randint(0, max(1, 3 * n))
        if rng.random() < 0.5:
            c["latUs"] = [max(l, rng.choice([0, 200, 2000])) for l in lat]
    c["timeoutMs"] = 20000
    return c


# ------------------------------------------------------------------------------------------------
# running
# ------------------------------------------------------------------------------------------------

def run_impl(ctx, cases, chunk=40, max_hangs=None):
    """Run cases on the real walker. A driver death (Go runtime fatal error) is isolated by
    re-running the chunk case by case. Returns list of replies (dict), a crashed case has key 'crash'."""
    outs = []
    for i in range(0, len(cases), chunk):
        part = cases[i:i + chunk]
        reqs = [dict(c, op="walker.run") for c in part]
        res = ctx.impl(reqs)
        if res is None:
            return None
        if any("error" in r and "driver died" in str(r.get("error")) for r in res):
            res = []
            for rq in reqs:
                one = ctx.impl([rq])[0]
                if "error" in one and "no reply" in str(one.get("error")):
                    one = {"crash": True, "stderr": one.get("stderr", "")[-3000:]}
                res.append(one)
        outs += res
        if max_hangs is not None and sum(1 for o in outs if o.get("hang")) >= max_hangs:
            break       # enough evidence; every further hang costs the full time bound (the caller truncates its case list)
    return outs


def replay_model(ctx, cases, outs):
    reqs = []
    for c, o in zip(cases, outs):
        fails = sorted({e[1] for e in o.get("trace", []) if e[0] == "e" and e[2] == "fail"})
        reqs.append({"op": "walker.replay", "n": c["n"], "edges": c["edges"], "unsel": c.get("unsel", []),
                     "failFast": c["failFast"], "descFor": fails, "trace": o.get("trace", [])})
    return ctx.model(reqs)


# ------------------------------------------------------------------------------------------------
# oracles on the real trace (no model involved)
# ------------------------------------------------------------------------------------------------

def oracle(c, o):
    """-> list of (property id, signature, message). Independent of the Lean model."""
    bad = []
    n, edges = c["n"], c["edges"]
    if o.get("crash"):
        return [("C04", "walker-runtime-crash", "Go runtime fatal error / panic while walking: " + o.get("stderr", "")[-400:])]
    if "error" in o:
        return [("C04", "walker-harness-error", "harness error: " + str(o["error"]))]
    if o.get("hang"):
        spurious = [m for m in c.get("fail", []) if c.get("failKind", [])[m:m + 1] == ["spurious-cancel"]]
        if spurious and c.get("cancelAfterEvents", -1) < 0 and not c.get("cancelAtUs") and not c.get("preCancel"):
            return [("C04", "walker-hang-spurious-cancel", "Walk did not return within the time bound; nobody cancelled the walk context but "
                     f"the callbacks of {spurious[:5]} return an error wrapping context.Canceled")]
        return [("C04", "walker-hang", "Walk did not return within the time bound")]
    ins = deps_of(n, edges)
    unsel = set(c.get("unsel", []))
    tr = o["trace"]
    started, ended, okset, cmd_open = {}, {}, set(), set()
    cancelled_at = None
    ret_at = None
    ext_cancel = False
    for t, e in enumerate(tr):
        k = e[0]
        if k == "s":
            m = e[1]
            if m in started:
                bad.append(("C03", "callback-entered-twice", f"callback of node {m} entered twice"))
            started[m] = t
            if m in unsel:
                bad.append(("C03", "unselected-node-started", f"unselected node {m} was started"))
            for d in ins[m]:
                if d not in okset:
                    bad.append(("C03", "started-before-dependency-succeeded",
                                f"node {m} started at {t} before its dependency {d} finished successfully"))
        elif k == "e":
            m, r = e[1], e[2]
            if m not in started or m in ended:
                bad.append(("C03", "end-without-start", f"callback end of {m} without a matching start"))
            ended[m] = r
            if r == "ok":
                okset.add(m)
        elif k == "cs":
            m = e[1]
            if m not in started or m in ended:
                bad.append(("C03", "command-outside-callback", f"command of {m} started outside its callback"))
            cmd_open.add(m)
        elif k == "ce":
            cmd_open.discard(e[1])
        elif k == "c":
            ext_cancel = True
            cancelled_at = t
        elif k == "r":
            ret_at = t
    if c.get("workers", 0) > 0 and o.get("maxCmds", 0) > c["workers"]:
        bad.append(("C03", "more-commands-than-workers", f"{o['maxCmds']} commands ran concurrently with {c['workers']} workers"))
    if o.get("startedTwice"):
        bad.append(("C03", "callback-entered-twice", f"nodes started twice: {o['startedTwice']}"))
    comps = {m: s for m, s in o.get("completions", [])}
    if ret_at is None:
        bad.append(("C04", "walker-hang", "no return event"))
        return bad
    err = o.get("err")
    if err == "other":
        bad.append(("C04", "walk-unexpected-error", "Walk returned an unexpected error"))
    if err == "canceled" and not ext_cancel:
        bad.append(("C18", "cancel-error-without-cancel", "Walk returned context.Canceled although nobody cancelled the parent context"))
    failed_nodes = {m for m, r in ended.items() if r == "fail"}
    sel = [m for m in range(n) if m not in unsel]
    if not ext_cancel and err == "none":
        # completions agree with what the callbacks returned
        for m, s in comps.items():
            if ended.get(m) not in ("ok", "fail") or (ended[m] == "ok") != s:
                bad.append(("C04", "completion-disagrees-with-callback", f"completion of {m} = {s} but callback returned {ended.get(m)}"))
        if not c["failFast"]:
            anc = ancestors_all(n, edges)
            for m in sel:
                below_failure = bool(anc[m] & failed_nodes)
                if below_failure and m in started:
                    bad.append(("C05", "executed-below-failure", f"node {m} ran although a transitive dependency failed"))
                if not below_failure and m not in started:
                    bad.append(("C05", "healthy-node-not-built", f"node {m} has no failed transitive dependency but was never run"))
                if m in started and m not in comps:
                    bad.append(("C04", "selected-node-unresolved", f"node {m} ran but has no completion"))
                if m not in started and m in comps:
                    bad.append(("C04", "completion-without-run", f"node {m} has a completion but never ran"))
            if (len(failed_nodes) > 0) != any(not s for s in comps.values()):
                bad.append(("C05", "failure-not-reported", "failed callbacks and failed completions disagree"))
        else:
            if failed_nodes and not any(not s for s in comps.values()):
                bad.append(("C05", "failure-not-reported", "fail-fast: a callback failed but no completion is a failure"))
    return bad


# ------------------------------------------------------------------------------------------------
# in-package harness (overlay test in package dag): synctest bubble / race detector
# ------------------------------------------------------------------------------------------------

def run_intest(ctx, cases, mode, timeout=1500):
    """mode = 'synctest' | 'race'. Returns (results by case id, info) where info has
       'fatal' (Go runtime fatal error text or None), 'races' (set of case ids with a race report),
       'raw' (tail of the test output), 'rc'."""
    import vlib
    d = ctx.scratch("intest-" + mode)
    cpath, opath = os.path.join(d, "cases.json"), os.path.join(d, "out.jsonl")
    for i, c in enumerate(cases):
        c["id"] = i
    with open(cpath, "w") as fh:
        json.dump([{k: v for k, v in c.items() if k not in ("family", "workers", "timeoutMs", "cancelAtUs")} for c in cases], fh)
    if os.path.exists(opath):
        os.remove(opath)
    name = "TestVerifWalkerSynctest$" if mode == "synctest" else "TestVerifWalkerRace$"
    extra = ("-race",) if mode == "race" else ()
    rc, out = vlib.go_test("./internal/dag/", name, extra=extra, timeout=timeout,
                           env_extra={"VERIF_WALKER_CASES": cpath, "VERIF_WALKER_OUT": opath})
    res = {}
    if os.path.exists(opath):
        for line in open(opath):
            line = line.strip()
            if line:
                try:
                    j = json.loads(line)
                    res[j["id"]] = j
                except Exception:
                    pass
    info = {"rc": rc, "raw": out[-6000:], "fatal": None, "races": set(), "built": True}
    if "fatal error:" in out:
        i = out.index("fatal error:")
        info["fatal"] = out[i:i + 1500]
    import re
    for m in re.finditer(r"--- FAIL: TestVerifWalkerRace/case(\d+)", out):
        cid = int(m.group(1))
        # the lines following the FAIL line say why
        tail = out[m.end():m.end() + 200]
        if "race detected" in tail:
            info["races"].add(cid)
    if "DATA RACE" in out:
        i = out.index("DATA RACE")
        rep = out[max(0, i - 40):i + 2500]
        info["race_report"] = rep
        first = rep.split("Goroutine ")[0]          # the two conflicting accesses of the first report
        fns = sorted(set(re.findall(r"grog/internal/dag\.\(\*Walker\)\.(\w+)\(", first)))
        info["race_where"] = "+".join(fns) if fns else "harness-only"
    if rc != 0 and not res and "fatal error:" not in out and "DATA RACE" not in out and "--- FAIL" not in out:
        info["built"] = False
    return res, info


def intest_as_out(r):
    """shape a result of the in-package harness like a walker.run reply (for oracle / replay)"""
    return {"trace": r.get("trace") or [], "completions": r.get("completions") or [], "err": r.get("err", "none"),
            "hang": (not r.get("returned")) and bool(r.get("deadlock")), "startedTwice": [], "maxCmds": 0}


# ------------------------------------------------------------------------------------------------
# CLI workspaces: generated targets whose commands append "s <name> <ns>" / "e <name> <ns>" lines
# to an O_APPEND trace and fail according to flag files that are not declared inputs
# ------------------------------------------------------------------------------------------------

class CliWs:
    """kinds: per node one of None | 'exit' | 'exit-logged' | 'timeout' | 'missing' | 'missing-first' | 'check'; a node fails with its kind
    until heal() creates its flag file. sleep: per node seconds of `sleep` inside the command.
    Options (all default to nothing):
      dir_outputs   nodes that also declare a directory output d<i>/ (one.txt and sub/two.txt)
      sleep_after   nodes that produce their outputs before sleeping
      dup_deps      nodes that list every dependency twice, as ":tD" and as "//pkg:tD"
      no_outputs    nodes that declare no outputs (their dependants do not read anything from them)
      check_only    nodes with an EMPTY command and one output check whose command logs "cs i"/"ce i" and sleeps sleep[i]
      via_alias     nodes d whose dependants depend on the alias ":a<d>" (actual ":t<d>") instead of on ":t<d>"
      timeouts      {node: "300ms"} explicit `timeout:` values (kind 'timeout' sets 300ms itself)"""

    def __init__(self, ctx, name, n, edges, kinds=None, sleep=None, workers=2, dir_outputs=(), sleep_after=(),
                 dup_deps=(), no_outputs=(), check_only=(), via_alias=(), timeouts=None, toml_extra=""):
        self.grog = ctx.grog_binary()
        self.d = ctx.scratch(name)
        self.ws = os.path.join(self.d, "ws")
        self.root = os.path.join(self.d, "root")
        self.trace = os.path.join(self.d, "trace")
        self.n, self.edges = n, edges
        self.kinds = kinds or [None] * n
        os.makedirs(os.path.join(self.ws, "pkg"), exist_ok=True)
        os.makedirs(self.root, exist_ok=True)
        with open(os.path.join(self.ws, "grog.toml"), "w") as fh:
            fh.write(f"num_workers = {workers}\n{toml_extra}")
        ins = deps_of(n, edges)
        targets = []
        for i in range(n):
            flag = os.path.join(self.d, f"flag{i}")
            k = self.kinds[i]
            readable = [d for d in ins[i] if d not in no_outputs and d not in check_only]
            gate, produce = "", f"cat {' '.join(f't{d}.out' for d in readable)} /dev/null > t{i}.out; echo t{i} >> t{i}.out"
            deps = []
            for d in ins[i]:
                lbl = f":a{d}" if d in via_alias else f":t{d}"
                deps.append(lbl)
                if i in dup_deps:
                    deps.append(f"//pkg:a{d}" if d in via_alias else f"//pkg:t{d}")
            t = {"name": f"t{i}", "dependencies": deps, "outputs": [f"t{i}.out"]}
            if i in dir_outputs:
                t["outputs"] = [f"dir::d{i}", f"t{i}.out"]
                produce += f"; mkdir -p d{i}/sub; echo one{i} > d{i}/one.txt; echo two{i} > d{i}/sub/two.txt"
            if i in no_outputs:
                t["outputs"] = []
                produce = "true"
            if k == "exit":
                gate = f"test -f {flag} || exit 3; "
            elif k == "timeout":
                gate = f"test -f {flag} || exec sleep 30; "
                t["timeout"] = "300ms"
            elif k == "missing":
                produce = f"if test -f {flag}; then {produce}; fi"
            elif k == "missing-first":
                # two declared outputs, the FIRST one is not created until healed
                t["outputs"] = [f"t{i}.extra"] + t["outputs"]
                produce = f"{produce}; if test -f {flag}; then echo x > t{i}.extra; fi"
            elif k == "check":
                t["output_checks"] = [{"command": f"test -f {flag}"}]
            if timeouts and i in timeouts:
                t["timeout"] = timeouts[i]
            sl = f"sleep {sleep[i]}; " if sleep and sleep[i] else ""
            body = f"{produce}; {sl}true" if i in sleep_after else f"{sl}{produce}"   # sleep_after: outputs exist while the command still runs
            t["command"] = (f'echo "s {i} $(date +%s%N)" >> {self.trace}; {gate}{body}; '
                            f'echo "e {i} $(date +%s%N)" >> {self.trace}')
            if k == "exit-logged":
                # runs (sleeps), logs its end line and only then fails: the end line is the moment of the failure
                t["command"] = (f'echo "s {i} $(date +%s%N)" >> {self.trace}; {sl}echo "e {i} $(date +%s%N)" >> {self.trace}; '
                                f'test -f {flag} || exit 3; {produce}')
            if i in check_only:
                t["command"] = ""
                t["outputs"] = []
                t["output_checks"] = [{"command": f'echo "cs {i} $(date +%s%N)" >> {self.trace}; {sl}echo "ce {i} $(date +%s%N)" >> {self.trace}'}]
            targets.append(t)
        pkg = {"targets": targets}
        if via_alias:
            pkg["aliases"] = [{"name": f"a{d}", "actual": f":t{d}"} for d in sorted(via_alias)]
        with open(os.path.join(self.ws, "pkg", "BUILD.json"), "w") as fh:
            json.dump(pkg, fh)

    def env(self, extra=None):
        env = dict(os.environ, GROG_ROOT=self.root, HOME=self.d, GROG_DISABLE_TEA="true")
        env.pop("CI", None)
        if extra:
            env.update(extra)
        return env

    def heal(self, nodes=None):
        for i in (range(self.n) if nodes is None else nodes):
            open(os.path.join(self.d, f"flag{i}"), "w").close()

    def read_trace(self, clear=True):
        ev = []
        if os.path.exists(self.trace):
            for line in open(self.trace):
                p = line.split()
                if len(p) == 3 and p[0] in ("s", "e", "cs", "ce"):
                    try:
                        ev.append((p[0], int(p[1]), int(p[2])))
                    except ValueError:
                        pass
            if clear:
                os.remove(self.trace)
        return ev

    def build(self, args=("//...",), flags=(), timeout=120):
        t0 = time.time()
        try:
            p = subprocess.run([self.grog, "build", *flags, *args], cwd=self.ws, env=self.env(), capture_output=True, text=True, timeout=timeout)
            rc, out = p.returncode, p.stdout + p.stderr
        except subprocess.TimeoutExpired as e:
            rc, out = 124, ((e.stdout or b"").decode(errors="replace") if isinstance(e.stdout, bytes) else (e.stdout or "")) + "\nTIMEOUT"
        return {"rc": rc, "out": out, "wall": time.time() - t0, "trace": self.read_trace()}

    def target_cache_entries(self):
        n = 0
        for root, dirs, files in os.walk(self.root):
            if os.path.basename(root) == "target" and os.path.basename(os.path.dirname(root)) == "cache":
                n += len(files)
                for d in dirs:
                    n += sum(len(f) for _, _, f in os.walk(os.path.join(root, d)))
                dirs[:] = []
        return n

    def cleanup(self):
        import shutil
        shutil.rmtree(self.d, ignore_errors=True)


def failed_labels(out):
    import re
    return sorted({int(m.group(1)) for m in re.finditer(r"Target //pkg:t(\d+) failed", out)})


# ------------------------------------------------------------------------------------------------
# step-level correspondence of onComplete (in-package test TestVerifOnCompleteSteps vs walker.steps)
# ------------------------------------------------------------------------------------------------

def run_steps(ctx, cases, timeout=900):
    """-> (list of (case, real steps, model reply) that disagree, info dict). Deterministic: the real onComplete is
    called node by node; after every call the ready / cancel state of every node must equal the model's."""
    import vlib
    d = ctx.scratch("intest-steps")
    cpath, opath = os.path.join(d, "cases.json"), os.path.join(d, "out.jsonl")
    for i, c in enumerate(cases):
        c["id"] = i
    with open(cpath, "w") as fh:
        json.dump([{k: v for k, v in c.items() if k in ("id", "n", "edges", "unsel", "failFast", "fail")} for c in cases], fh)
    if os.path.exists(opath):
        os.remove(opath)
    rc, out = vlib.go_test("./internal/dag/", "TestVerifOnCompleteSteps$", timeout=timeout,
                           env_extra={"VERIF_WALKER_CASES": cpath, "VERIF_WALKER_OUT": opath})
    res = {}
    if os.path.exists(opath):
        for line in open(opath):
            if line.strip():
                j = json.loads(line)
                res[j["id"]] = j
    info = {"rc": rc, "raw": out[-4000:], "built": bool(res) or rc == 0, "n": len(res), "steps": 0}
    if not res:
        return [], info
    order = [i for i in range(len(cases)) if i in res]
    reqs = [{"op": "walker.steps", "n": cases[i]["n"], "edges": cases[i]["edges"], "unsel": cases[i].get("unsel", []),
             "failFast": cases[i]["failFast"], "descFor": cases[i]["fail"], "steps": [[s[0], s[1]] for s in (res[i].get("steps") or [])]} for i in order]
    reps = ctx.model(reqs)
    bad = []
    for i, m in zip(order, reps):
        real = res[i].get("steps") or []
        info["steps"] += len(real)
        if res[i].get("panic"):
            bad.append((cases[i], real, {"panic": res[i]["panic"]}, None))
            continue
        if not m.get("ok"):
            bad.append((cases[i], real, m, len(m.get("done", []))))
            continue
        for k, (a, b) in enumerate(zip(real, m["steps"])):
            if list(a) != list(b):
                bad.append((cases[i], real, m, k))
                break
    return bad, info


def describe_step_diff(c, real, m, k):
    if k is None or "steps" not in m or k >= len(real) or k >= len(m["steps"]):
        return str({kk: vv for kk, vv in m.items() if kk != "done"})[:300]
    a, b = real[k], m["steps"][k]
    msgs = []
    for name, idx in (("ready", 2), ("cancel", 3)):
        diff = [i for i in range(len(a[idx])) if a[idx][i] != b[idx][i]]
        if diff:
            msgs.append(f"{name} differs at nodes {diff[:8]} (real {''.join(a[idx][i] for i in diff[:8])}, model {''.join(b[idx][i] for i in diff[:8])})")
    if a[4] != b[4]:
        msgs.append(f"failFastTriggered real {a[4]} model {b[4]}")
    if a[5] != b[5]:
        msgs.append(f"context cancelled real {a[5]} model {b[5]}")
    return f"after onComplete(node {a[0]}, success={a[1]}) [step {k}]: " + "; ".join(msgs)


def step_oracle(c, real):
    """model-independent reading of the step records: a node may hold a ready message only if all its dependencies were
    completed successfully before; -> list of (prop, signature, message)"""
    ins = deps_of(c["n"], c["edges"])
    okset, bad = set(), []
    failed_seen = False
    for k, s in enumerate(real):
        node, ok, ready = s[0], s[1], s[2]
        if ok:
            okset.add(node)
        else:
            failed_seen = True
        for m, bit in enumerate(ready):
            if bit == "1" and any(d not in okset for d in ins[m]):
                bad.append(("C03", "released-before-dependencies-succeeded",
                            f"after onComplete({node}, {ok}) node {m} holds a ready message although not all its dependencies completed successfully"))
                return bad
        if c["failFast"] and failed_seen and not s[5]:
            bad.append(("C05", "fail-fast-context-not-cancelled", f"fail-fast: a failure was observed (step {k}) but the walk context is not cancelled"))
            return bad
    return bad


def confirmed(fn, ctx, idx, *args):
    """CLI scenarios depend on timing and on the machine: an oracle failure counts only if it shows up again when the scenario is
    repeated in a fresh workspace. What does not repeat is kept in the evidence (`unconfirmed`, with the scenario's record) and never
    becomes a VIOLATION line."""
    r = fn(ctx, idx, *args)
    if r.get("bad"):
        r2 = fn(ctx, idx + 7000, *args)
        sig2 = {x[0] for x in r2["bad"]}
        r["unconfirmed"] = [x[0] for x in r["bad"] if x[0] not in sig2]
        if r["unconfirmed"]:
            r["unconfirmed_record"] = {k: (v[-3000:] if isinstance(v, str) else v) for k, v in r.items() if k in ("out", "out1", "out_tail", "stderr", "b1", "runs")}
        r["bad"] = [x for x in r["bad"] if x[0] in sig2]
    return r
