"""C19 — graph algorithms scale polynomially, not with the number of paths.

Theorem side : GrogModel/Props/C19.lean — step count of the visited-set traversals (GetDescendants, GetAncestors,
               SelectTargetsForBuild) <= |V| + |E| for all graphs; they return the same sets as the path-enumerating
               versions of the old tree; the old versions cost >= 2^d on the width-2 ladder of depth d.
Correspondence: dag.GetDescendants/GetAncestors/GetDependencies/GetDependants of the current tree vs the model on
               random DAGs, layered DAGs, ladders, chains (multisets: a duplicate is a difference).
Oracle (no model): (1) every returned list is exactly the reachable set, each node once (python BFS);
               (2) cost proxy on the real code, no hooks: runtime.MemStats.Mallocs delta (and CPU time, recorded only)
               around one in-process call on a ladder of depth d and d+4 and on a chain with the same node count:
               growth ladder(d+4)/ladder(d) must be < 4 (linear: ~1.4, path enumeration: 16) and ladder/chain < 20
               (ratios are applied only when the deeper ladder needs >= 3000 allocations; current code: < 400);
               (3) one in-process call on a 100-level ladder within 20 s; (4) CLI: build, build with a failing bottom
               target (failure propagation), deps -t, rdeps -t, list, changes --dependents=transitive on a 200-target
               ladder, each within 30 s (normal: < 2 s; path enumeration: 2^99 steps).
"""
import os, subprocess
from . import _graph as G

PROPERTY = "C19"
LEVEL = "proof"
LEVEL_TEXT = ("Lean 4 theorems for all graphs about an executable model of internal/dag traversals and build selection: the number of loop "
              "iterations plus calls of the visited-set traversals is at most |V|+|E| (descendants, ancestors, selection with shared visited set), "
              "they compute the same sets as the path-enumerating versions of the old tree, whose cost on the width-2 ladder of depth d is at least 2^d. "
              "The model is tied to the code by a differential run on generated DAGs; wall time is not a mathematical object: it is measured on the "
              "real code (allocation counts and time on ladders vs chains, in process and through the CLI) with thresholds an order of magnitude away "
              "from both behaviours.")
LEVEL_NOTE = ("Partial in the sense of DESIGN section 8: operation counts of the model are proved, real time/allocations are sampled. The output-conflict "
              "pass is modelled with its memo table (pair loops + memoised ancestor search, cost bound 3|pairs| + |V|(1+2|E|(1+|V|))); its sets are tied through an "
              "in-package go test, its real cost is measured (allocations over graph families x output profiles); which overlaps are conflicts belongs to C11. "
              "Trusted: Lean kernel; propext/Classical.choice/Quot.sound; the correspondence harness.")
TECHNIQUE = "Lean 4 proof of operation-count bounds over an executable model + differential correspondence + measured growth factors on the real code"
OBLIGATIONS = [
    "Grog.C19.visited_cost_le",
    "Grog.C19.ancestors_cost_le",
    "Grog.C19.select_cost_le",
    "Grog.C19.same_answer",
    "Grog.C19.same_answer_ancestors",
    "Grog.C19.ladder_exponential",
    "Grog.C19.ladder_visited_linear",
    "Grog.C19.changes_cost_le",
    "Grog.C19.ancestor_set_cost_le",
    "Grog.C19.conflict_pass_cost_le",
    "Grog.C19.changes_filter_independent",
    "Grog.C19.visited_nodup",
]
ASSUMPTIONS = [
    "cost of the real code is observed through allocation counts / wall time only (no hooks); thresholds: growth < 4, ladder/chain < 20 (applied when the deeper ladder needs >= 3000 allocations), absolute bounds 20 s / 30 s",
    "the cost unit of the model is one loop iteration or one recursive call of the Go traversal",
]

GROWTH_MAX = 4.0
LADDER_CHAIN_MAX = 20.0
MALLOC_FLOOR = 3000      # ratios of small counts are noise: a violation also needs this many allocations on the deeper ladder
                         # (measured at depth 14: current code 13..360, path enumeration 24 000..100 000)
D0 = 10
BIG_DEPTH = 100
CLI_BOUND = 30.0


def trav_req(n, es, qs):
    return {"op": "graph.trav", "n": n, "edges": [list(e) for e in es], "q": qs}


def run(ctx):
    rng = ctx.rng
    quick = ctx.tier == "quick"
    cov = ctx.coverage
    # ---------------- correspondence + set oracle on generated graphs ---------------------------------
    cases = []
    for _ in range(400 if quick else 6000):
        n = rng.randint(1, 16)
        cases.append((n, G.gen_dag(rng, n, dup=rng.choice([0, 0, 0.2]))))
    for _ in range(60 if quick else 600):
        cases.append(G.gen_layered(rng, rng.randint(2, 6), rng.randint(2, 4)))
    for d in range(1, 9 if quick else 12):
        cases.append(G.ladder(d))
        cases.append(G.chain(2 * (d + 1)))
    # targeted: diamonds, duplicate edges, self loop / unknown node rejected
    cases += [(4, [(0, 1), (0, 2), (1, 3), (2, 3)]), (4, [(0, 1), (0, 1), (1, 2), (1, 2), (2, 3)]),
              (3, [(0, 1), (1, 1)]), (3, [(0, 1), (1, 5)]), (1, []), (3, [(2, 1), (1, 0)])]
    reqs, anc_reqs = [], []
    for n, es in cases:
        qs = [{"k": k, "v": v} for v in range(n) for k in ("desc", "anc", "deps", "rdeps")]
        reqs.append(trav_req(n, es, qs))
        # getAncestorSet of the output-conflict detection, in a shuffled order with one shared memo cache per graph; it is unexported and
        # reached through an in-package test of the overlay (go test), so that renaming it costs only this sub-tie
        order = list(range(n))
        rng.shuffle(order)
        anc_reqs.append({"n": n, "edges": [list(e) for e in es], "order": order})
    # boundary sizes: fan-out / fan-in / depth around powers of two (few queries each: the model's visited list is quadratic)
    nb = 0
    for size in (G.BOUNDARY_SIZES if not quick else G.BOUNDARY_SIZES[:9] + [1025]):
        for n, es in (G.star(size, True), G.star(size, False), G.chain(size)):
            qs = [{"k": k, "v": v} for v in (0, 1, n // 2, n - 1) for k in ("desc", "anc", "deps", "rdeps")]
            reqs.append(trav_req(n, es, qs))
            nb += 1
    cov["boundary_graphs"] = nb
    impl = ctx.impl(reqs)
    if impl is None:
        return
    model = ctx.model(reqs)
    cov["evaluations"] = sum(len(r["q"]) for r in reqs)
    cov["rule"] = ("random DAGs (<=16 nodes, 4 densities, optional duplicate edges), layered DAGs, ladders, chains, targeted diamonds; every node "
                   "queried for descendants/ancestors/deps/rdeps; non-trivial = distinct (graph, query) whose answer has >= 2 nodes")
    nontrivial, shapes, max_cost_ratio = set(), {"diamond_rich": 0, "tree_like": 0, "rejected": 0}, 0.0
    bad_corr = []
    for r, a, b in zip(reqs, impl, model):
        ka = {k: a.get(k) for k in ("ok", "res", "err")}
        kb = {k: b.get(k) for k in ("ok", "res", "err")}
        if ka != kb:
            bad_corr.append((r, a, b))
        if "panic" in a or "error" in a:
            ctx.violation("graph API crashed", {"kind": "impl-crash", "request": r, "impl": a}, signature="graph-crash")
            continue
        if not a.get("ok"):
            shapes["rejected"] += 1
            continue
        es = [tuple(e) for e in r["edges"]]
        has_diamond = False
        for q, res in zip(r["q"], a["res"]):
            if q["k"] in ("desc", "anc"):
                exp = sorted(G.reach(es, q["v"], forward=(q["k"] == "desc")))
                npaths = G.count_paths(es, q["v"], forward=(q["k"] == "desc"))
                if npaths > len(exp):
                    has_diamond = True
                if res != exp:
                    sig = "transitive-traversal-returns-one-element-per-path" if sorted(set(res)) == exp and len(res) == npaths else "transitive-traversal-wrong-set"
                    ctx.violation("GetDescendants/GetAncestors does not return the reachable set with each node once "
                                  "(one element per path: the traversal enumerates paths)" if sig.endswith("per-path") else
                                  "GetDescendants/GetAncestors returns a wrong set",
                                  {"kind": "oracle", "oracle": "reachable set, each node once", "request": dict(r, q=[q]), "impl": res, "expected": exp,
                                   "paths": npaths}, signature=sig)
            if len(res) >= 2:
                nontrivial.add((r["n"], tuple(es), q["k"], q["v"]))
        shapes["diamond_rich" if has_diamond else "tree_like"] += 1
        if b.get("ok") and b.get("cost"):
            # model cost vs |V|+|E| (sanity of the proved bound on the sampled graphs; recorded)
            bound = r["n"] + b["edges"]
            max_cost_ratio = max(max_cost_ratio, max(b["cost"]) / max(bound, 1))
    cov["distinct_nontrivial"] = len(nontrivial)
    cov["graph_shapes"] = shapes
    cov["model_cost_over_bound_max"] = round(max_cost_ratio, 3)
    cov["traces_validated_against_impl"] = cov["evaluations"]
    ctx.sample({"graph.trav": {"n": cases[5][0], "edges": cases[5][1][:12]}, "impl": impl[5].get("res", [])[:4]})

    anc_bad, anc_broken = ancestor_sets(ctx, anc_reqs)

    # ---------------- cost oracle on the real code ---------------------------------------------------
    costs = {}
    growth_failed = False
    creqs = []
    for what in ("desc", "anc", "select", "conflicts"):
        for shape, depth in (("ladder", D0), ("ladder", D0 + 4), ("chain", D0 + 4)):
            creqs.append({"op": "graph.cost", "shape": shape, "depth": depth, "what": what, "reps": 3})
    cres = ctx.impl(creqs, timeout=600)
    for rq, rs in zip(creqs, cres):
        if not rs.get("ok"):
            ctx.violation("cost probe failed", {"kind": "impl-crash", "request": rq, "impl": rs}, found_input=False)
            return
        costs[(rq["what"], rq["shape"], rq["depth"])] = rs
    table = {}
    for what in ("desc", "anc", "select", "conflicts"):
        l0, l1, c1 = (costs[(what, "ladder", D0)], costs[(what, "ladder", D0 + 4)], costs[(what, "chain", D0 + 4)])
        growth = l1["mallocs"] / max(l0["mallocs"], 1)
        ratio = l1["mallocs"] / max(c1["mallocs"], 1)
        table[what] = {"mallocs_ladder_d": l0["mallocs"], "mallocs_ladder_d+4": l1["mallocs"], "mallocs_chain": c1["mallocs"],
                       "growth": round(growth, 2), "ladder_over_chain": round(ratio, 2),
                       "ns_ladder_d": l0["ns"], "ns_ladder_d+4": l1["ns"], "ns_chain": c1["ns"]}
        if (growth >= GROWTH_MAX or ratio >= LADDER_CHAIN_MAX) and l1["mallocs"] >= MALLOC_FLOOR:
            growth_failed = True
            fn = {"desc": "GetDescendants", "anc": "GetAncestors", "select": "SelectTargetsForBuild", "conflicts": "analysis.BuildGraph (output-conflict detection)"}[what]
            ctx.violation(f"{fn}: cost on the width-2 ladder grows with the number of paths (x{growth:.1f} for 4 more levels; "
                          f"{ratio:.0f}x a chain with the same node count)",
                          {"kind": "oracle", "oracle": "allocation growth ladder(d+4)/ladder(d) < 4 and ladder/chain < 20",
                           "request": {"op": "graph.cost", "shape": "ladder", "depth": D0 + 4, "what": what, "reps": 3}, "d": D0, "measured": table[what]},
                          signature="path-enumeration:" + what)
    cov["cost_table"] = table
    cov["evaluations"] += len(creqs)
    ctx.sample({"cost_probe": table["select"]})

    if not growth_failed:
        # big ladder in process, one request per process with a time limit
        big = {}
        for what in ("desc", "anc", "select", "conflicts"):
            rq = {"op": "graph.cost", "shape": "ladder", "depth": BIG_DEPTH, "what": what, "reps": 1}
            try:
                rs = ctx.impl([rq], timeout=20)[0]
            except subprocess.TimeoutExpired:
                rs = {"timeout": True}
            big[what] = rs.get("ns", -1)
            if not rs.get("ok"):
                ctx.violation(f"{what} on a {BIG_DEPTH}-level ladder did not finish within 20 s", {"kind": "oracle", "oracle": "absolute bound", "request": rq, "impl": rs},
                              signature="path-enumeration:" + what)
        cov["big_ladder_ns"] = big
        cov["evaluations"] += 4
        conflict_profiles(ctx)
        cli_ladder(ctx)
        cli_filtered(ctx)

    cov["disagreements"] = len(bad_corr) + len(anc_bad)
    if not ctx.violations:
        if anc_broken is not None:
            ctx.harness_broken("the in-package harness for getAncestorSet (harness/intest/internal/analysis/zz_c19_verif_test.go) does not build or run "
                               "against the current tree", anc_broken)
        elif anc_bad:
            r, x, y = min(anc_bad, key=lambda t: len(t[0]["edges"]))
            ctx.violation("model and implementation disagree (correspondence getAncestorSet vs GrogModel.Graph.ancestorSetV)",
                          {"kind": "correspondence", "correspondence": "getAncestorSet (shared memo cache) vs ancestorSetV", "ancset_request": r, "impl": x, "model": y,
                           "n_disagreements": len(anc_bad)}, found_input=False)
    if bad_corr and not ctx.violations:
        r, a, b = min(bad_corr, key=lambda t: len(t[0]["edges"]))
        ctx.violation("model and implementation disagree (correspondence dag traversals vs GrogModel.Graph)",
                      {"kind": "correspondence", "correspondence": "graph.trav: dag.GetDescendants/GetAncestors/GetDependencies/GetDependants vs GrogModel.Graph",
                       "request": r, "impl": a, "model": b, "n_disagreements": len(bad_corr)}, found_input=False)


def ancestor_sets(ctx, anc_reqs):
    """getAncestorSet through `go test` of package analysis (in-package overlay test) vs the model's ancestorSetV and a python BFS.
    -> (disagreements with the model, build/run failure text or None)"""
    import json, vlib
    d = ctx.scratch("ancset")
    reqf, outf = os.path.join(d, "req.jsonl"), os.path.join(d, "out.jsonl")
    with open(reqf, "w") as fh:
        for r in anc_reqs:
            fh.write(json.dumps(r) + "\n")
    rc, tout = vlib.go_test("./internal/analysis/", "TestVerifC19AncestorSets$", env_extra={"C19_REQ": reqf, "C19_OUT": outf})
    impl = [json.loads(l) for l in open(outf).read().split("\n") if l.strip()] if os.path.exists(outf) else []
    if rc != 0 or len(impl) != len(anc_reqs):
        return [], tout[-3000:]
    model = ctx.model([{"op": "graph.trav", "n": r["n"], "edges": r["edges"], "q": [{"k": "ancset", "v": v} for v in r["order"]]} for r in anc_reqs])
    bad = []
    for r, a, b in zip(anc_reqs, impl, model):
        if "sets" not in a:
            if b.get("ok"):
                bad.append((r, a, b))
            continue
        es = [tuple(e) for e in r["edges"]]
        for v, got in zip(r["order"], a["sets"]):
            exp = sorted(G.reach(es, v, forward=False))
            ctx.coverage["evaluations"] += 1
            if got != exp:
                ctx.violation("getAncestorSet (output-conflict detection) does not return the set of transitive dependencies",
                              {"kind": "oracle", "oracle": "reachable set", "ancset_request": r, "query": v, "impl": got, "expected": exp}, signature="ancestor-set-wrong")
        if not b.get("ok") or a["sets"] != b["res"]:
            bad.append((r, a, b))
    ctx.coverage["ancestor_set_graphs"] = len(anc_reqs)
    return bad, None


CONFLICT_PROFILES = {"file": (200, 400), "dir": (200, 400), "docker": (200, 400), "multidir": (100, 200), "mixed": (100, 200)}


def conflict_profiles(ctx):
    """Output-conflict pass of analysis.BuildGraph: graph family (chain, ladder, dense DAG) x output profile (file outputs incl. one shared by
    ordered targets / one dir:: output per target / several dir:: outputs / docker tags / dir+file mix) at two sizes.
    Rule (allocations are load-independent): mallocs <= 250 N + 10 E at the larger size — measured: current code 14..26 per node
    (an order of magnitude below), ancestor sets rebuilt per pair of outputs: 1 800..80 000 per node (one to three orders above).
    Absolute bound: all probes of one profile within 60 s (normal: < 1 s)."""
    table = {}
    for profile, sizes in CONFLICT_PROFILES.items():
        reqs = [{"op": "graph.conflicts", "shape": sh, "size": n, "profile": profile, "reps": 2} for sh in ("chain", "ladder", "dense") for n in sizes]
        res = None
        for attempt in range(2):          # a slow measurement is repeated once before it is reported
            try:
                res = ctx.impl(reqs, timeout=60)
                break
            except subprocess.TimeoutExpired:
                res = None
        ctx.coverage["evaluations"] += len(reqs)
        if res is None:
            ctx.violation(f"output-conflict detection with profile '{profile}' on chains/ladders/dense DAGs of <= {sizes[1]} targets did not finish within 60 s (twice)",
                          {"kind": "oracle", "oracle": "absolute bound (conflict pass)", "request": reqs[-1], "profile": profile}, signature="conflict-pass-cost:" + profile)
            continue
        for rq, rs in zip(reqs, res):
            if not rs.get("ok"):
                ctx.violation("conflict-pass probe failed (the generated outputs are conflict-free)", {"kind": "impl-crash", "request": rq, "impl": rs}, found_input=False)
                return
        for sh in ("chain", "ladder", "dense"):
            small, big = [rs for rq, rs in zip(reqs, res) if rq["shape"] == sh]
            bound = 250 * big["nodes"] + 10 * big["edges"]
            table[f"{profile}/{sh}"] = {"N": big["nodes"], "E": big["edges"], "records": big["records"], "mallocs": big["mallocs"], "bound": bound,
                                        "growth_x2": round(big["mallocs"] / max(small["mallocs"], 1), 2), "ms": round(big["ns"] / 1e6, 1)}
            if big["mallocs"] > bound:
                ctx.violation(f"output-conflict detection: {big['mallocs']} allocations for {big['nodes']} targets / {big['records']} outputs on a {sh} "
                              f"(profile '{profile}'): more than 250 N + 10 E = {bound}; x{big['mallocs'] / max(small['mallocs'], 1):.1f} for twice the size "
                              "(ancestor sets are recomputed per pair of outputs)",
                              {"kind": "oracle", "oracle": "allocations of the conflict pass <= 250 N + 10 E", "request": {"op": "graph.conflicts", "shape": sh,
                               "size": big["nodes"], "profile": profile, "reps": 1}, "measured": table[f"{profile}/{sh}"]}, signature="conflict-pass-cost:" + profile)
    ctx.coverage["conflict_pass_table"] = table


def cli_filtered(ctx):
    """Every query command with every filter on a ladder whose intermediate layers are filtered OUT (40 library layers below two tests and
    a bin target): a traversal whose visited set depends on the filter walks 2^40 paths. Each command within CLI_BOUND (normal: 0.03 s)."""
    grog = ctx.grog_binary()
    if not grog:
        return
    L = 40
    nodes, es = [], []
    N = lambda name, tags, bin=False: {"pkg": "", "name": name, "target": True, "tags": tags, "platforms": [], "bin": bin}
    for l in range(L + 1):
        for j in (0, 1):
            nodes.append(N(f"lib_{l}_{j}", ["lib"]))
            if l > 0:
                es += [(2 * (l - 1), len(nodes) - 1), (2 * (l - 1) + 1, len(nodes) - 1)]
    tops = [("a_test", False), ("b_test", False), ("tool", True)]
    for name, is_bin in tops:
        nodes.append(N(name, ["top"], is_bin))
        es += [(2 * L, len(nodes) - 1), (2 * L + 1, len(nodes) - 1)]
    scratch = ctx.scratch("filtered")
    ws = os.path.join(scratch, "ws")
    G.write_workspace(ws, nodes, es, inputs={0: ["src.txt"]})
    env = G.grog_env(scratch)
    genv = dict(env, GIT_CONFIG_GLOBAL="/dev/null", GIT_CONFIG_SYSTEM="/dev/null", GIT_AUTHOR_NAME="v", GIT_AUTHOR_EMAIL="v@v", GIT_COMMITTER_NAME="v", GIT_COMMITTER_EMAIL="v@v")
    have_git = all(subprocess.run(c, cwd=ws, env=genv, capture_output=True).returncode == 0 for c in (["git", "init", "-q"], ["git", "add", "-A"], ["git", "commit", "-q", "-m", "x"]))
    if have_git:
        with open(os.path.join(ws, "src.txt"), "a") as fh:
            fh.write("edit\n")
    filters = {"type=test": (["--target-type=test"], "test", [], []), "type=no_test": (["--target-type=no_test"], "no_test", [], []),
               "type=bin_output": (["--target-type=bin_output"], "bin_output", [], []), "tag=top": (["--tag=top"], "all", ["top"], []),
               "exclude-tag=lib": (["--exclude-tag=lib"], "all", [], ["lib"])}
    desc0 = G.reach(es, 0, forward=True)
    anc_top = G.reach(es, 2 * L + 2, forward=False)
    cmds = {"rdeps-t": (["rdeps", "-t", "//:lib_0_0"], desc0, env), "deps-t": (["deps", "-t", "//:a_test"], anc_top, env),
            "list": (["list", "//..."], set(range(len(nodes))), env)}
    if have_git:
        cmds["changes"] = (["changes", "--since=HEAD", "--dependents=transitive"], desc0 | {0}, genv)
    else:
        ctx.notes.append("git not usable in the scratch workspace: filtered `changes` not measured")
    times, slow_kinds = {}, set()
    for cname, (args, universe, cenv) in cmds.items():
        for fname, (flags, typ, tags, ex) in filters.items():
            if cname in slow_kinds:
                continue
            want = sorted(G.label_str(nodes[i]) for i in universe if G.ref_matches_filters(nodes[i], [], tags, ex, typ))
            rc, out, err, dt = G.run_grog(grog, args + flags, ws, cenv, timeout=CLI_BOUND)
            if rc == 124:        # repeat a slow measurement once before reporting
                rc, out, err, dt = G.run_grog(grog, args + flags, ws, cenv, timeout=CLI_BOUND)
            times[f"{cname} {fname}"] = round(dt, 2)
            ctx.coverage["evaluations"] += 1
            if rc == 124:
                slow_kinds.add(cname)
                ctx.violation(f"`grog {' '.join(args + flags)}` on a ladder of {L} filtered-out library layers did not finish within {CLI_BOUND:.0f} s (twice; normal: 0.03 s): "
                              "the traversal depends on the filter",
                              {"kind": "oracle", "oracle": "absolute bound (CLI, filtered ladder)", "cli": args + flags, "layers": L}, signature="filtered-ladder-bound-exceeded:" + cname)
            elif rc != 0:
                ctx.violation(f"`grog {' '.join(args + flags)}` failed on the filtered ladder workspace", {"kind": "correspondence", "correspondence": "CLI filtered ladder",
                              "cli": args + flags, "rc": rc, "stderr": err[-1500:]}, found_input=False)
            elif out != want:
                ctx.violation(f"`grog {' '.join(args + flags)}` on the filtered ladder prints a wrong set", {"kind": "oracle", "oracle": "reference set (filtered ladder)",
                              "cli": args + flags, "printed": out[:10], "expected": want[:10], "n_printed": len(out), "n_expected": len(want)},
                              signature="filtered-ladder-wrong-set:" + cname)
    ctx.coverage["cli_filtered_ladder_seconds"] = times


def cli_ladder(ctx):
    """200-target ladder through the real CLI."""
    grog = ctx.grog_binary()
    if not grog:
        return
    depth = 99
    n, es = G.ladder(depth)
    nodes = [{"pkg": "", "name": f"n{i}", "target": True, "tags": [], "platforms": [], "bin": False} for i in range(n)]
    times = {}

    def step(name, ws, args, env, expect_rc0=True):
        rc, out, err, dt = G.run_grog(grog, args, ws, env, timeout=CLI_BOUND)
        if rc == 124:        # repeat a slow measurement once before reporting
            rc, out, err, dt = G.run_grog(grog, args, ws, env, timeout=CLI_BOUND)
        times[name] = round(dt, 2)
        ctx.coverage["evaluations"] += 1
        if rc == 124:
            ctx.violation(f"`grog {' '.join(args)}` on a {n}-target ladder did not finish within {CLI_BOUND:.0f} s",
                          {"kind": "oracle", "oracle": "absolute bound (CLI)", "cli": args, "ladder_depth": depth}, signature="cli-bound-exceeded:" + name)
            return None
        if expect_rc0 and rc != 0:
            ctx.violation(f"`grog {' '.join(args)}` failed on the ladder workspace", {"kind": "correspondence", "correspondence": "CLI ladder workspace",
                          "cli": args, "rc": rc, "stderr": err[-1500:]}, found_input=False)
            return None
        return rc, out

    scratch = ctx.scratch("ladder")
    ws = os.path.join(scratch, "ws")
    G.write_workspace(ws, nodes, es, inputs={0: ["src.txt"]})
    env = G.grog_env(scratch)
    r = step("deps-t", ws, ["deps", "-t", f"//:n{n-1}"], env)
    if r and len(r[1]) != n - 2:
        ctx.violation("deps -t on the ladder does not list every lower node once", {"kind": "oracle", "oracle": "ladder deps -t", "got": len(r[1]), "want": n - 2},
                      signature="ladder-deps-wrong")
    r = step("rdeps-t", ws, ["rdeps", "-t", "//:n0"], env)
    if r and len(r[1]) != n - 2:
        ctx.violation("rdeps -t on the ladder does not list every higher node once", {"kind": "oracle", "oracle": "ladder rdeps -t", "got": len(r[1]), "want": n - 2},
                      signature="ladder-rdeps-wrong")
    step("list", ws, ["list", "//..."], env)
    step("build", ws, ["build", f"//:n{n-1}"], env)
    # changes --dependents=transitive needs a git repository
    genv = dict(env, GIT_CONFIG_GLOBAL="/dev/null", GIT_CONFIG_SYSTEM="/dev/null", GIT_AUTHOR_NAME="v", GIT_AUTHOR_EMAIL="v@v", GIT_COMMITTER_NAME="v", GIT_COMMITTER_EMAIL="v@v")
    ok = True
    for cmd in (["git", "init", "-q"], ["git", "add", "-A"], ["git", "commit", "-q", "-m", "x"]):
        if subprocess.run(cmd, cwd=ws, env=genv, capture_output=True).returncode != 0:
            ok = False
    if ok:
        with open(os.path.join(ws, "src.txt"), "a") as fh:
            fh.write("edit\n")
        r = step("changes", ws, ["changes", "--since=HEAD", "--dependents=transitive"], genv)
        if r and len(r[1]) != n - 1:
            ctx.violation("changes --dependents=transitive on the ladder does not list the owner and every node above the bottom level once",
                          {"kind": "oracle", "oracle": "ladder changes", "got": len(r[1]), "want": n - 1}, signature="ladder-changes-wrong")
    else:
        ctx.notes.append("git not usable in the scratch workspace: `changes` not measured")
    # failure propagation: the bottom node fails, every descendant is cancelled (walker calls GetDescendants)
    scratch2 = ctx.scratch("ladderfail")
    ws2 = os.path.join(scratch2, "ws")
    G.write_workspace(ws2, nodes, es, commands={0: "exit 1"})
    r = step("build-failing-bottom", ws2, ["build", "//..."], G.grog_env(scratch2), expect_rc0=False)
    if r and r[0] == 0:
        ctx.violation("build with a failing bottom target exited 0", {"kind": "oracle", "oracle": "failing build exits non-zero"}, signature="ladder-fail-rc0")
    # output-conflict detection: every target declares a directory output shared with the ordered targets of its column
    scratch3 = ctx.scratch("ladderout")
    ws3 = os.path.join(scratch3, "ws")
    G.write_workspace(ws3, nodes, es, outputs={i: [f"dir::out_{i % 2}"] for i in range(n)})
    r = step("list-with-dir-outputs", ws3, ["list", "//..."], G.grog_env(scratch3))
    if r and len(r[1]) != n:
        ctx.violation("list on the ladder with shared directory outputs of ordered targets does not list every target",
                      {"kind": "oracle", "oracle": "ladder list", "got": len(r[1]), "want": n}, signature="ladder-list-wrong")
    ctx.coverage["cli_ladder_seconds"] = times


def replay(ctx, rep):
    if rep.get("ancset_request"):
        bad, broken = ancestor_sets(ctx, [rep["ancset_request"]])
        print("getAncestorSet vs model: disagreements", bad, "harness", broken)
        return 0
    r = rep.get("request")
    if not r:
        print("nothing to replay in this file (see 'kind'):", rep.get("what"))
        return 0
    a = ctx.impl([r], timeout=120)[0]
    print("impl :", a)
    if r["op"] not in ("graph.cost", "graph.conflicts"):
        print("model:", ctx.model([r])[0])
        pq = [q for q in r["q"] if q["k"] in ("desc", "anc")]
        if pq:
            print("model (path enumeration, old tree):", ctx.model([dict(r, op="graph.paths", q=pq)])[0])
    return 0
