"""C19 — graph algorithms scale polynomially, not with the number of paths.

Theorem side : GrogModel/Props/C19.lean — step count of the visited-set traversals (GetDescendants, GetAncestors,
               SelectTargetsForBuild) <= |V| + |E| for all graphs; they return the same sets as the path-enumerating
               versions of the old tree; the old versions cost >= 2^d on the width-2 ladder of depth d.
Correspondence: dag.GetDescendants/GetAncestors/GetDependencies/GetDependants of the current tree vs the model on
               random DAGs, layered DAGs, ladders, chains (multisets: a duplicate is a difference).
Oracle (no model): (1) every returned list is exactly the reachable set, each node once (python BFS);
               (2) cost proxy on the real code, no hooks: runtime.MemStats.Mallocs delta (and CPU time, recorded only)
               around one in-process call on a ladder of depth d and d+4 and on a chain with the same node count:
               growth ladder(d+4)/ladder(d) must be < 4 (linear: ~1.4, path enumeration: 16) and ladder/chain < 20
               (ratios are applied only when the deeper ladder needs >= 3000 allocations; current code: < 400);
               (3) one in-process call on a 100-level ladder within 20 s; (4) CLI: build, build with a failing bottom
               target (failure propagation), deps -t, rdeps -t, list, changes --dependents=transitive on a 200-target
               ladder, each within 30 s (normal: < 2 s; path enumeration: 2^99 steps).
"""
import os, subprocess
from . import _graph as G

PROPERTY = "C19"
LEVEL = "proof"
LEVEL_TEXT = ("Lean 4 theorems for all graphs about an executable model of internal/dag traversals and build selection: the number of loop "
              "iterations plus calls of the visited-set traversals is at most |V|+|E| (descendants, ancestors, selection with shared visited set), "
              "they compute the same sets as the path-enumerating versions of the old tree, whose cost on the width-2 ladder of depth d is at least 2^d. "
              "The model is tied to the code by a differential run on generated DAGs; wall time is not a mathematical object: it is measured on the "
              "real code (allocation counts and time on ladders vs chains, in process and through the CLI) with thresholds an order of magnitude away "
              "from both behaviours.")
LEVEL_NOTE = ("Partial in the sense of DESIGN section 8: operation counts of the model are proved, real time/allocations are sampled. Output-conflict "
              "detection (already a visited-set traversal with a cache) is only measured through `grog list/build` on the ladder, not modelled here. "
              "Trusted: Lean kernel; propext/Classical.choice/Quot.sound; the correspondence harness.")
TECHNIQUE = "Lean 4 proof of operation-count bounds over an executable model + differential correspondence + measured growth factors on the real code"
OBLIGATIONS = [
    "Grog.C19.visited_cost_le",
    "Grog.C19.ancestors_cost_le",
    "Grog.C19.select_cost_le",
    "Grog.C19.same_answer",
    "Grog.C19.same_answer_ancestors",
    "Grog.C19.ladder_exponential",
    "Grog.C19.ladder_visited_linear",
    "Grog.C19.changes_cost_le",
    "Grog.C19.ancestor_set_cost_le",
    "Grog.C19.visited_nodup",
]
ASSUMPTIONS = [
    "cost of the real code is observed through allocation counts / wall time only (no hooks); thresholds: growth < 4, ladder/chain < 20 (applied when the deeper ladder needs >= 3000 allocations), absolute bounds 20 s / 30 s",
    "the cost unit of the model is one loop iteration or one recursive call of the Go traversal",
]

GROWTH_MAX = 4.0
LADDER_CHAIN_MAX = 20.0
MALLOC_FLOOR = 3000      # ratios of small counts are noise: a violation also needs this many allocations on the deeper ladder
                         # (measured at depth 14: current code 13..360, path enumeration 24 000..100 000)
D0 = 10
BIG_DEPTH = 100
CLI_BOUND = 30.0


def trav_req(n, es, qs):
    return {"op": "graph.trav", "n": n, "edges": [list(e) for e in es], "q": qs}


def run(ctx):
    rng = ctx.rng
    quick = ctx.tier == "quick"
    cov = ctx.coverage
    # ---------------- correspondence + set oracle on generated graphs ---------------------------------
    cases = []
    for _ in range(400 if quick else 6000):
        n = rng.randint(1, 16)
        cases.append((n, G.gen_dag(rng, n, dup=rng.choice([0, 0, 0.2]))))
    for _ in range(60 if quick else 600):
        cases.append(G.gen_layered(rng, rng.randint(2, 6), rng.randint(2, 4)))
    for d in range(1, 9 if quick else 12):
        cases.append(G.ladder(d))
        cases.append(G.chain(2 * (d + 1)))
    # targeted: diamonds, duplicate edges, self loop / unknown node rejected
    cases += [(4, [(0, 1), (0, 2), (1, 3), (2, 3)]), (4, [(0, 1), (0, 1), (1, 2), (1, 2), (2, 3)]),
              (3, [(0, 1), (1, 1)]), (3, [(0, 1), (1, 5)]), (1, []), (3, [(2, 1), (1, 0)])]
    reqs = []
    for n, es in cases:
        qs = [{"k": k, "v": v} for v in range(n) for k in ("desc", "anc", "deps", "rdeps")]
        # getAncestorSet of the output-conflict detection, in a shuffled order with one shared memo cache per request
        order = list(range(n))
        rng.shuffle(order)
        qs += [{"k": "ancset", "v": v} for v in order]
        reqs.append(trav_req(n, es, qs))
    # boundary sizes: fan-out / fan-in / depth around powers of two (few queries each: the model's visited list is quadratic)
    nb = 0
    for size in (G.BOUNDARY_SIZES if not quick else G.BOUNDARY_SIZES[:9] + [1025]):
        for n, es in (G.star(size, True), G.star(size, False), G.chain(size)):
            qs = [{"k": k, "v": v} for v in (0, 1, n // 2, n - 1) for k in ("desc", "anc", "deps", "rdeps")]
            reqs.append(trav_req(n, es, qs))
            nb += 1
    cov["boundary_graphs"] = nb
    impl = ctx.impl(reqs)
    if impl is None:
        return
    model = ctx.model(reqs)
    cov["evaluations"] = sum(len(r["q"]) for r in reqs)
    cov["rule"] = ("random DAGs (<=16 nodes, 4 densities, optional duplicate edges), layered DAGs, ladders, chains, targeted diamonds; every node "
                   "queried for descendants/ancestors/deps/rdeps; non-trivial = distinct (graph, query) whose answer has >= 2 nodes")
    nontrivial, shapes, max_cost_ratio = set(), {"diamond_rich": 0, "tree_like": 0, "rejected": 0}, 0.0
    bad_corr = []
    for r, a, b in zip(reqs, impl, model):
        ka = {k: a.get(k) for k in ("ok", "res", "err")}
        kb = {k: b.get(k) for k in ("ok", "res", "err")}
        if ka != kb:
            bad_corr.append((r, a, b))
        if "panic" in a or "error" in a:
            ctx.violation("graph API crashed", {"kind": "impl-crash", "request": r, "impl": a}, signature="graph-crash")
            continue
        if not a.get("ok"):
            shapes["rejected"] += 1
            continue
        es = [tuple(e) for e in r["edges"]]
        has_diamond = False
        for q, res in zip(r["q"], a["res"]):
            if q["k"] == "ancset":
                exp = sorted(G.reach(es, q["v"], forward=False))
                if res != exp:
                    ctx.violation("getAncestorSet (output-conflict detection) does not return the set of transitive dependencies",
                                  {"kind": "oracle", "oracle": "reachable set", "request": dict(r, q=[x for x in r["q"] if x["k"] == "ancset"]), "query": q,
                                   "impl": res, "expected": exp}, signature="ancestor-set-wrong")
            if q["k"] in ("desc", "anc"):
                exp = sorted(G.reach(es, q["v"], forward=(q["k"] == "desc")))
                npaths = G.count_paths(es, q["v"], forward=(q["k"] == "desc"))
                if npaths > len(exp):
                    has_diamond = True
                if res != exp:
                    sig = "transitive-traversal-returns-one-element-per-path" if sorted(set(res)) == exp and len(res) == npaths else "transitive-traversal-wrong-set"
                    ctx.violation("GetDescendants/GetAncestors does not return the reachable set with each node once "
                                  "(one element per path: the traversal enumerates paths)" if sig.endswith("per-path") else
                                  "GetDescendants/GetAncestors returns a wrong set",
                                  {"kind": "oracle", "oracle": "reachable set, each node once", "request": dict(r, q=[q]), "impl": res, "expected": exp,
                                   "paths": npaths}, signature=sig)
            if len(res) >= 2:
                nontrivial.add((r["n"], tuple(es), q["k"], q["v"]))
        shapes["diamond_rich" if has_diamond else "tree_like"] += 1
        if b.get("ok") and b.get("cost"):
            # model cost vs |V|+|E| (sanity of the proved bound on the sampled graphs; recorded)
            bound = r["n"] + b["edges"]
            max_cost_ratio = max(max_cost_ratio, max(b["cost"]) / max(bound, 1))
    cov["distinct_nontrivial"] = len(nontrivial)
    cov["graph_shapes"] = shapes
    cov["model_cost_over_bound_max"] = round(max_cost_ratio, 3)
    cov["traces_validated_against_impl"] = cov["evaluations"]
    ctx.sample({"graph.trav": {"n": cases[5][0], "edges": cases[5][1][:12]}, "impl": impl[5].get("res", [])[:4]})

    # ---------------- cost oracle on the real code ---------------------------------------------------
    costs = {}
    growth_failed = False
    creqs = []
    for what in ("desc", "anc", "select", "conflicts"):
        for shape, depth in (("ladder", D0), ("ladder", D0 + 4), ("chain", D0 + 4)):
            creqs.append({"op": "graph.cost", "shape": shape, "depth": depth, "what": what, "reps": 3})
    cres = ctx.impl(creqs, timeout=600)
    for rq, rs in zip(creqs, cres):
        if not rs.get("ok"):
            ctx.violation("cost probe failed", {"kind": "impl-crash", "request": rq, "impl": rs}, found_input=False)
            return
        costs[(rq["what"], rq["shape"], rq["depth"])] = rs
    table = {}
    for what in ("desc", "anc", "select", "conflicts"):
        l0, l1, c1 = (costs[(what, "ladder", D0)], costs[(what, "ladder", D0 + 4)], costs[(what, "chain", D0 + 4)])
        growth = l1["mallocs"] / max(l0["mallocs"], 1)
        ratio = l1["mallocs"] / max(c1["mallocs"], 1)
        table[what] = {"mallocs_ladder_d": l0["mallocs"], "mallocs_ladder_d+4": l1["mallocs"], "mallocs_chain": c1["mallocs"],
                       "growth": round(growth, 2), "ladder_over_chain": round(ratio, 2),
                       "ns_ladder_d": l0["ns"], "ns_ladder_d+4": l1["ns"], "ns_chain": c1["ns"]}
        if (growth >= GROWTH_MAX or ratio >= LADDER_CHAIN_MAX) and l1["mallocs"] >= MALLOC_FLOOR:
            growth_failed = True
            fn = {"desc": "GetDescendants", "anc": "GetAncestors", "select": "SelectTargetsForBuild", "conflicts": "analysis.BuildGraph (output-conflict detection)"}[what]
            ctx.violation(f"{fn}: cost on the width-2 ladder grows with the number of paths (x{growth:.1f} for 4 more levels; "
                          f"{ratio:.0f}x a chain with the same node count)",
                          {"kind": "oracle", "oracle": "allocation growth ladder(d+4)/ladder(d) < 4 and ladder/chain < 20",
                           "request": {"op": "graph.cost", "shape": "ladder", "depth": D0 + 4, "what": what, "reps": 3}, "d": D0, "measured": table[what]},
                          signature="path-enumeration:" + what)
    cov["cost_table"] = table
    cov["evaluations"] += len(creqs)
    ctx.sample({"cost_probe": table["select"]})

    if not growth_failed:
        # big ladder in process, one request per process with a time limit
        big = {}
        for what in ("desc", "anc", "select", "conflicts"):
            rq = {"op": "graph.cost", "shape": "ladder", "depth": BIG_DEPTH, "what": what, "reps": 1}
            try:
                rs = ctx.impl([rq], timeout=20)[0]
            except subprocess.TimeoutExpired:
                rs = {"timeout": True}
            big[what] = rs.get("ns", -1)
            if not rs.get("ok"):
                ctx.violation(f"{what} on a {BIG_DEPTH}-level ladder did not finish within 20 s", {"kind": "oracle", "oracle": "absolute bound", "request": rq, "impl": rs},
                              signature="path-enumeration:" + what)
        cov["big_ladder_ns"] = big
        cov["evaluations"] += 4
        cli_ladder(ctx)

    cov["disagreements"] = len(bad_corr)
    if bad_corr and not ctx.violations:
        r, a, b = min(bad_corr, key=lambda t: len(t[0]["edges"]))
        ctx.violation("model and implementation disagree (correspondence dag traversals vs GrogModel.Graph)",
                      {"kind": "correspondence", "correspondence": "graph.trav: dag.GetDescendants/GetAncestors/GetDependencies/GetDependants vs GrogModel.Graph",
                       "request": r, "impl": a, "model": b, "n_disagreements": len(bad_corr)}, found_input=False)


def cli_ladder(ctx):
    """200-target ladder through the real CLI."""
    grog = ctx.grog_binary()
    if not grog:
        return
    depth = 99
    n, es = G.ladder(depth)
    nodes = [{"pkg": "", "name": f"n{i}", "target": True, "tags": [], "platforms": [], "bin": False} for i in range(n)]
    times = {}

    def step(name, ws, args, env, expect_rc0=True):
        rc, out, err, dt = G.run_grog(grog, args, ws, env, timeout=CLI_BOUND)
        times[name] = round(dt, 2)
        ctx.coverage["evaluations"] += 1
        if rc == 124:
            ctx.violation(f"`grog {' '.join(args)}` on a {n}-target ladder did not finish within {CLI_BOUND:.0f} s",
                          {"kind": "oracle", "oracle": "absolute bound (CLI)", "cli": args, "ladder_depth": depth}, signature="cli-bound-exceeded:" + name)
            return None
        if expect_rc0 and rc != 0:
            ctx.violation(f"`grog {' '.join(args)}` failed on the ladder workspace", {"kind": "correspondence", "correspondence": "CLI ladder workspace",
                          "cli": args, "rc": rc, "stderr": err[-1500:]}, found_input=False)
            return None
        return rc, out

    scratch = ctx.scratch("ladder")
    ws = os.path.join(scratch, "ws")
    G.write_workspace(ws, nodes, es, inputs={0: ["src.txt"]})
    env = G.grog_env(scratch)
    r = step("deps-t", ws, ["deps", "-t", f"//:n{n-1}"], env)
    if r and len(r[1]) != n - 2:
        ctx.violation("deps -t on the ladder does not list every lower node once", {"kind": "oracle", "oracle": "ladder deps -t", "got": len(r[1]), "want": n - 2},
                      signature="ladder-deps-wrong")
    r = step("rdeps-t", ws, ["rdeps", "-t", "//:n0"], env)
    if r and len(r[1]) != n - 2:
        ctx.violation("rdeps -t on the ladder does not list every higher node once", {"kind": "oracle", "oracle": "ladder rdeps -t", "got": len(r[1]), "want": n - 2},
                      signature="ladder-rdeps-wrong")
    step("list", ws, ["list", "//..."], env)
    step("build", ws, ["build", f"//:n{n-1}"], env)
    # changes --dependents=transitive needs a git repository
    genv = dict(env, GIT_CONFIG_GLOBAL="/dev/null", GIT_CONFIG_SYSTEM="/dev/null", GIT_AUTHOR_NAME="v", GIT_AUTHOR_EMAIL="v@v", GIT_COMMITTER_NAME="v", GIT_COMMITTER_EMAIL="v@v")
    ok = True
    for cmd in (["git", "init", "-q"], ["git", "add", "-A"], ["git", "commit", "-q", "-m", "x"]):
        if subprocess.run(cmd, cwd=ws, env=genv, capture_output=True).returncode != 0:
            ok = False
    if ok:
        with open(os.path.join(ws, "src.txt"), "a") as fh:
            fh.write("edit\n")
        r = step("changes", ws, ["changes", "--since=HEAD", "--dependents=transitive"], genv)
        if r and len(r[1]) != n - 1:
            ctx.violation("changes --dependents=transitive on the ladder does not list the owner and every node above the bottom level once",
                          {"kind": "oracle", "oracle": "ladder changes", "got": len(r[1]), "want": n - 1}, signature="ladder-changes-wrong")
    else:
        ctx.notes.append("git not usable in the scratch workspace: `changes` not measured")
    # failure propagation: the bottom node fails, every descendant is cancelled (walker calls GetDescendants)
    scratch2 = ctx.scratch("ladderfail")
    ws2 = os.path.join(scratch2, "ws")
    G.write_workspace(ws2, nodes, es, commands={0: "exit 1"})
    r = step("build-failing-bottom", ws2, ["build", "//..."], G.grog_env(scratch2), expect_rc0=False)
    if r and r[0] == 0:
        ctx.violation("build with a failing bottom target exited 0", {"kind": "oracle", "oracle": "failing build exits non-zero"}, signature="ladder-fail-rc0")
    # output-conflict detection: every target declares a directory output shared with the ordered targets of its column
    scratch3 = ctx.scratch("ladderout")
    ws3 = os.path.join(scratch3, "ws")
    G.write_workspace(ws3, nodes, es, outputs={i: [f"dir::out_{i % 2}"] for i in range(n)})
    r = step("list-with-dir-outputs", ws3, ["list", "//..."], G.grog_env(scratch3))
    if r and len(r[1]) != n:
        ctx.violation("list on the ladder with shared directory outputs of ordered targets does not list every target",
                      {"kind": "oracle", "oracle": "ladder list", "got": len(r[1]), "want": n}, signature="ladder-list-wrong")
    ctx.coverage["cli_ladder_seconds"] = times


def replay(ctx, rep):
    r = rep.get("request")
    if not r:
        print("nothing to replay in this file (see 'kind'):", rep.get("what"))
        return 0
    a = ctx.impl([r], timeout=120)[0]
    print("impl :", a)
    if r["op"] != "graph.cost":
        print("model:", ctx.model([r])[0])
        pq = [q for q in r["q"] if q["k"] in ("desc", "anc")]
        if pq:
            print("model (path enumeration, old tree):", ctx.model([dict(r, op="graph.paths", q=pq)])[0])
    return 0
