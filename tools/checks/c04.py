"""C04 — every build terminates with every selected target resolved.

Theorem side : GrogModel/Props/C04.lean — deadlock freedom and termination of the walker LTS (all DAGs,
               schedules, failure patterns, fail-fast on/off, cancellation), completions cover the
               selection, error-channel protocol of the directory restore never blocks.
Correspondence: (a) real dag.Walker inside testing/synctest bubbles (a deadlock is reported, not waited
               for) and under the race detector, zero-latency fan-out up to 400 (thorough: 5000) nodes,
               all failing subsets on small graphs; traces replayed through the Lean step;
               (b) real DirectoryOutputHandler.Load over a real FileSystemCache with a fault-injecting
               wrapper: every single / multiple missing blob at every depth must make Load return.
Oracle (no model): Walk returns; no Go runtime fatal error; no data race report; every selected node is
               in the completion map or was skipped below a failure; Load returns within the bound.
"""
import concurrent.futures as cf
import itertools, json, os, shutil
from checks import _walker as W
from checks import _cliworld

PROPERTY = "C04"
LEVEL = "proof"
LEVEL_TEXT = ("Lean 4 theorems over the walker transition system (all acyclic graphs, closed selections, failing subsets, fail-fast on/off, "
              "cancellation, all schedules): a reachable state without enabled event has Walk returned and every selected node terminal; a measure "
              "decreases on every event; at return through the wait group every selected node is completed or skipped below a failure; the error "
              "channel of the directory restore never blocks a producer. Tied to the code by synctest (deadlocks reported), -race, trace inclusion "
              "and a fault-injecting cache backend under the real DirectoryOutputHandler.Load.")
LEVEL_NOTE = ("Schedules of the real code are sampled (synctest bubble + Go scheduler + race detector), memory-model level crashes are outside any "
              "executable model and are covered only by the -race runs; callbacks are assumed to return (a pool job stranded by a cancelled context "
              "does not: Walk returns through ctx.Done regardless, which is what the model states).")
TECHNIQUE = "Lean 4 deadlock-freedom/termination proofs over an executable LTS + synctest/-race/trace-inclusion/fault-injection correspondence"
OBLIGATIONS = [
    "Grog.C04.stuck_all_terminal",
    "Grog.C04.terminates",
    "Grog.C04.run_length_bounded",
    "Grog.C04.can_always_finish",
    "Grog.C04.failure_always_completes",
    "Grog.C04.completions_cover",
    "Grog.C04.walk_return_enabled",
    "Grog.C04.errchan_no_deadlock",
    "Grog.C04.errchan_reports_failure",
    "Grog.C04.errchan_terminates",
    "Grog.C04.errchan_deadlock_witness",
    "Grog.C04.errchan_deadlock_witness2",
    "Grog.C04.errchan_deadlock_general",
    "Grog.C04.lost_wakeup_witness",
    "Grog.C04.spurious_cancel_is_a_failure",
    "Grog.C04.spurious_cancel_hang_witness_old",
    "Grog.C04.completions_cover_cancelled",
    "Grog.C04.pool_no_deadlock",
    "Grog.C04.pool_stranded_witness",
]
ASSUMPTIONS = [
    "selection closed under dependencies and graph acyclic (CfgOK)",
    "every entered callback eventually returns unless the context is cancelled (then Walk returns through ctx.Done); for the pool half "
    "this is pool_no_deadlock (a queued job is always served while the pool context is alive) plus: commands end (timeouts, C14)",
    "NOT assumed any more: 'a callback returns context.Canceled only under a cancelled walk context' - the model has the spurious case "
    "(cbReturn n .cancelled with ctx = false), it is a failure (spurious_cancel_is_a_failure), the harness injects it (failKind spurious-cancel)",
]


def small_exhaustive(rng):
    """all failing subsets x fail-fast on the 4-node diamond and a 3-chain+1 graph"""
    out = []
    graphs = [(4, [[0, 1], [0, 2], [1, 3], [2, 3]], "diamond4"), (4, [[0, 1], [1, 2]], "chain3+1")]
    for n, e, fam in graphs:
        for k in range(n + 1):
            for sub in itertools.combinations(range(n), k):
                for ff in (False, True):
                    c = W.make_case(rng, family=(n, e, fam), workers=0, fail_fast=ff)
                    c["fail"], c["unsel"] = list(sub), []
                    out.append(c)
    return out


def run(ctx):
    quick = ctx.tier == "quick"
    rng = ctx.rng
    cases = []
    big = (30, 200, 399) if quick else (30, 200, 399, 1500, 5000)
    for k in big:
        n, e, fam = W.g_fanout(k + 1)
        for ff in (False, True):
            c = W.make_case(rng, family=(n, e, fam), workers=0, fail_fast=ff)
            c.update(latUs=[0] * n, fail=[] if not ff else [0], unsel=[], **{"yield": False})
            cases.append(c)
        n, e, fam = W.g_bipartite(min(k, 20), min(k, 60))
        c = W.make_case(rng, family=(n, e, fam), workers=0)
        c.update(latUs=[0] * n)
        cases.append(c)
    for k in (63, 64, 65, 127, 128, 129, 255, 256, 257):
        for fam_f in (W.g_fanout, W.g_fanin):
            n, e, fam = fam_f(k)
            c = W.make_case(rng, family=(n, e, fam), workers=0)
            c.update(latUs=[0] * n, unsel=[])
            cases.append(c)
    # sizes just past powers of two (batching / chunking / buffer thresholds in set-up code), zero latency: a dependency completes while
    # Walk is still setting up the rest; keep-going with and without a failing root (lost ready / lost cancel), fail-fast
    for k in (511, 512, 513, 1023, 1024, 1025, 2047, 2048, 2049, 4097):
        for fam_f in (W.g_fanout, W.g_fanin):
            n, e, fam = fam_f(k)
            c = W.make_case(rng, family=(n, e, fam), workers=0, fail_fast=False)
            c.update(latUs=[0] * n, unsel=[], fail=[], **{"yield": False})
            cases.append(c)
        n, e, fam = W.g_fanout(k)
        c = W.make_case(rng, family=(n, e, fam), workers=0, fail_fast=(k % 2 == 0))
        c.update(latUs=[0] * n, unsel=[], fail=[0], **{"yield": False})
        cases.append(c)
    for a, b in ((3, 700), (8, 1300), (2, 2600)):
        n, e, fam = W.g_bipartite(a, b)
        c = W.make_case(rng, family=(n, e, fam), workers=0, fail_fast=False)
        c.update(latUs=[0] * n, unsel=[], fail=[], **{"yield": False})
        cases.append(c)
    cases.append(dict(W.make_case(rng, family=(1, [], "single"), workers=0, fail_fast=False), fail=[], unsel=[]))
    cases.append(dict(W.make_case(rng, family=(1, [], "single"), workers=0, fail_fast=True), fail=[0], unsel=[]))
    cases.append(dict(W.make_case(rng, family=(3, [[0, 1], [1, 2]], "nothing-selected"), workers=0, fail_fast=False), fail=[], unsel=[0, 1, 2]))
    cases += small_exhaustive(rng)
    cases += small_exhaustive(rng)      # the same inputs again: other schedules
    nrand = 300 if quick else 12000
    for i in range(nrand):
        cases.append(W.make_case(rng, maxn=400 if i % 6 == 0 else 50, workers=0, cancel=(i % 5 == 0)))
    ctx.coverage["rule"] = (f"{len(cases)} cases: zero-latency fan-out/fan-in/bipartite up to 4097 nodes (sizes around 64..4096), all failing subsets x fail-fast on two 4-node graphs, "
                            f"{nrand} random DAGs (20% with cancellation); each in a synctest bubble, a third again under -race; plus directory restores with "
                            "every missing-blob pattern; non-trivial = distinct (family,n,failFast,#fail,cancel)")
    viol_before = len(ctx.violations)
    # ---- (a1) synctest ------------------------------------------------------------------------
    res, info = W.run_intest(ctx, cases, "synctest")
    check_intest(ctx, cases, res, info, "synctest")
    # ---- (a2) race detector on a subset -------------------------------------------------------
    rcases = [dict(c) for i, c in enumerate(cases) if i % 3 == 0 and c["n"] <= 400]
    rres, rinfo = W.run_intest(ctx, rcases, "race")
    check_intest(ctx, rcases, rres, rinfo, "race")
    # ---- trace inclusion + completion oracle on what the harness recorded ------------------------
    done = [(c, W.intest_as_out(res[i])) for i, c in enumerate(cases) if i in res and res[i].get("returned")]
    n_events, disagreements, oracle_fail = 0, [], 0
    # the model-independent oracle runs on every trace; the replay through the Lean model (linear in n per event) on those up to 1100 nodes
    for c, o in done:
        if c["n"] > 1100:
            n_events += len(o["trace"])
            for prop, sig, msg in W.oracle(c, o):
                if prop == "C04":
                    oracle_fail += 1
                    ctx.violation(msg, {"kind": "oracle", "case": strip(c), "impl": {k: v for k, v in o.items() if k != "trace"}}, signature=sig)
    done = [(c, o) for c, o in done if c["n"] <= 1100]
    if done:
        reps = W.replay_model(ctx, [c for c, _ in done], [o for _, o in done])
        for (c, o), r in zip(done, reps):
            n_events += len(o["trace"])
            for prop, sig, msg in W.oracle(c, o):
                if prop == "C04":
                    oracle_fail += 1
                    ctx.violation(msg, {"kind": "oracle", "case": strip(c), "impl": o}, signature=sig)
            if not r.get("ok"):
                disagreements.append((c, o, r))
            elif o["err"] == "none" and not any(e[0] == "c" for e in o["trace"]):
                # Walk returned through the wait group: model must be all-terminal and agree on completions
                okset = {i for i, p in enumerate(r["phases"]) if p == "ok"}
                failset = {i for i, p in enumerate(r["phases"]) if p == "failed"}
                comps = {m: s for m, s in o["completions"]}
                if not c["failFast"] and (not r["allTerminal"] or okset != {m for m, s in comps.items() if s} or failset != {m for m, s in comps.items() if not s}):
                    disagreements.append((c, o, dict(r, why="final completions differ from the model's final phases")))
    classes = {(c["family"], c["n"], c["failFast"], len(c["fail"]), c["cancelAfterEvents"] >= 0) for c in cases}
    ctx.coverage["evaluations"] = len(cases) + len(rcases)
    ctx.coverage["distinct_nontrivial"] = len(classes)
    ctx.coverage["synctest_cases"] = len(cases)
    ctx.coverage["race_cases"] = len(rcases)
    ctx.coverage["traces_validated_against_impl"] = len(done)
    ctx.coverage["trace_events_replayed"] = n_events
    ctx.coverage["max_nodes"] = max(c["n"] for c in cases)
    ctx.coverage["fail_fast"] = sum(1 for c in cases if c["failFast"])
    ctx.coverage["with_cancel"] = sum(1 for c in cases if c["cancelAfterEvents"] >= 0)
    ctx.coverage["oracle_failures"] = oracle_fail
    ctx.coverage["disagreements"] = len(disagreements)
    for c, o in done[:2]:
        ctx.sample({"n": c["n"], "family": c["family"], "failFast": c["failFast"], "fail": c["fail"][:5], "trace_head": o["trace"][:6]})
    # ---- (b) directory restore with missing blobs ------------------------------------------------
    from checks import _errchan
    _errchan.run(ctx)
    # ---- (c) whole builds through the CLI under a wall bound: timeouts, lost blobs, alias fan-out -------
    run_cli(ctx)
    # ---- (d) broad randomized CLI worlds (shared generator; the C04-owned oracles — termination, crash, resolution — are reported here)
    results, cov = _cliworld.run_worlds(ctx, 30 if quick else 300, "C04")
    _cliworld.report(ctx, results, cov, "C04")
    if disagreements and len(ctx.violations) == viol_before:
        c, o, r = min(disagreements, key=lambda t: t[0]["n"])
        ctx.violation("a trace of the real walker is not a run of the model: " + str(r.get("why", r)),
                      {"kind": "correspondence", "correspondence": "in-package walker trace vs GrogModel.Walker.step", "case": strip(c), "impl": o,
                       "model": {k: v for k, v in r.items() if k not in ("phases", "snap")}, "n_disagreements": len(disagreements)}, found_input=False)


# ---------------------------------------------------------------------------------------------------------
# CLI scenarios: the whole `grog build` under a wall-clock bound
# ---------------------------------------------------------------------------------------------------------
WALL = 40      # seconds; the scenarios need 1-4 s on the unchanged tree


def cli_timeout_case(ctx, idx, with_dependants, fail_fast, workers):
    """a target that exceeds its own `timeout:` must end as failed: the build exits 1, names it, and does not wait for
    (or run) its dependants"""
    if with_dependants:
        n, edges = 4, [[0, 1], [1, 2]]          # slow <- mid <- top, plus an independent target
    else:
        n, edges = 2, []
    ws = W.CliWs(ctx, f"c04-to-{idx}", n, edges, kinds=["timeout"] + [None] * (n - 1), workers=workers)
    b = ws.build(flags=("--fail-fast",) if fail_fast else (), timeout=WALL)
    started = {m for k, m, _ in b["trace"] if k == "s"}
    res = {"scenario": "target-timeout", "n": n, "edges": edges, "failFast": fail_fast, "workers": workers, "rc": b["rc"], "wall": round(b["wall"], 1),
           "started": sorted(started), "failed_labels": W.failed_labels(b["out"]), "bad": []}
    if b["rc"] == 124:
        res["bad"].append(("build-hang:target-exceeded-its-timeout", f"grog build did not return within {WALL} s after a target exceeded its timeout "
                           f"({'with' if with_dependants else 'without'} dependants, fail-fast={fail_fast})"))
    elif b["rc"] == 0:
        res["bad"].append(("timed-out-target-unresolved", "a target exceeded its timeout but the build exited 0 and did not report it as failed"))
    elif b["rc"] != 1:
        res["bad"].append(("build-crashed", f"exit status {b['rc']}: {b['out'][-300:]}"))
    else:
        if 0 not in res["failed_labels"]:
            res["bad"].append(("timed-out-target-unresolved", f"the timed-out target is not reported as failed (reported: {res['failed_labels']})"))
        if started & {1, 2} and with_dependants:
            res["bad"].append(("executed-below-failure", f"dependants {sorted(started & {1, 2})} of the timed-out target ran"))
    if res["bad"]:
        res["out"] = b["out"][-800:]
    ws.cleanup()
    return res


def cas_blobs(ws):
    out = []
    for root, _, files in os.walk(ws.root):
        if os.path.basename(root) == "cas":
            out += [os.path.join(root, f) for f in files]
    return out


def cli_lost_blob_case(ctx, idx, which, mode):
    """build, lose a blob of a cached output (and the local outputs), rebuild: the restore fails, the target must be re-run
    and the build must return 0 with the outputs back"""
    n, edges = 3, [[0, 2], [1, 2]]              # t0: file output, t1: file + directory output (nested), t2 consumes both
    ws = W.CliWs(ctx, f"c04-blob-{idx}", n, edges, workers=2, dir_outputs=(1,))
    b1 = ws.build(timeout=WALL)
    res = {"scenario": "lost-blob", "which": which, "mode": mode, "rc1": b1["rc"], "bad": []}
    if b1["rc"] != 0:
        res["bad"].append(("build-failed", f"cold build exited {b1['rc']}: {b1['out'][-300:]}"))
        ws.cleanup()
        return res
    contents = {"file": b"t0\n", "dir-file": b"one1\n", "dir-nested-file": b"two1\n"}
    removed = 0
    for p in cas_blobs(ws):
        data = open(p, "rb").read()
        known = data in contents.values() or data == b"t1\n" or data.startswith(b"t0\nt1\n")
        if which == "all" or (which in contents and data == contents[which]) or (which == "tree" and not known):
            os.remove(p)
            removed += 1
    res["removed"] = removed
    pkg = os.path.join(ws.ws, "pkg")
    for f in os.listdir(pkg):
        if f != "BUILD.json":
            pth = os.path.join(pkg, f)
            shutil.rmtree(pth) if os.path.isdir(pth) else os.remove(pth)
    b2 = ws.build(flags=("--load-outputs=" + mode,), timeout=WALL)
    res.update(rc2=b2["rc"], wall2=round(b2["wall"], 1), restarted=sorted({m for k, m, _ in b2["trace"] if k == "s"}))
    if removed == 0:
        res["bad"].append(("harness-no-blob-removed", f"no blob matched '{which}'"))
    if b2["rc"] == 124:
        res["bad"].append(("build-hang:unreadable-cache-entry", f"grog build did not return within {WALL} s when the {which} blob of a cached output was lost "
                           f"(load_outputs={mode})"))
    elif b2["rc"] != 0:
        res["bad"].append(("rebuild-failed-after-lost-blob", f"rebuild exited {b2['rc']} after losing the {which} blob: {b2['out'][-400:]}"))
    elif mode == "all":
        exp = {"t0.out": "t0\n", "t1.out": "t1\n", "t2.out": "t0\nt1\nt2\n", "d1/one.txt": "one1\n", "d1/sub/two.txt": "two1\n"}
        wrong = [f for f, c in exp.items() if not os.path.exists(os.path.join(pkg, f)) or open(os.path.join(pkg, f)).read() != c]
        if wrong:
            res["bad"].append(("outputs-not-restored-after-lost-blob", f"after the rebuild these outputs are missing or wrong: {wrong}"))
    if res["bad"]:
        res["out"] = b2["out"][-800:]
    ws.cleanup()
    return res


def cli_alias_fanout_case(ctx, idx, width):
    """hundreds of targets that become ready at the same instant behind one ALIAS, through the real Executor"""
    d = ctx.scratch(f"c04-alias-{idx}")
    ws_dir, root = os.path.join(d, "ws"), os.path.join(d, "root")
    os.makedirs(os.path.join(ws_dir, "pkg"))
    os.makedirs(root)
    open(os.path.join(ws_dir, "grog.toml"), "w").write("num_workers = 8\n")
    targets = [{"name": "base", "command": "echo base > base.out", "outputs": ["base.out"]}]
    targets += [{"name": f"leaf{i}", "dependencies": [":stable"], "command": ""} for i in range(width)]
    json.dump({"targets": targets, "aliases": [{"name": "stable", "actual": ":base"}]}, open(os.path.join(ws_dir, "pkg", "BUILD.json"), "w"))
    import subprocess, time
    env = dict(os.environ, GROG_ROOT=root, HOME=d, GROG_DISABLE_TEA="true")
    env.pop("CI", None)
    t0 = time.time()
    try:
        p = subprocess.run([ctx.grog_binary(), "build", "//..."], cwd=ws_dir, env=env, capture_output=True, text=True, timeout=WALL * 2)
        rc, out = p.returncode, p.stdout + p.stderr
    except subprocess.TimeoutExpired:
        rc, out = 124, "TIMEOUT"
    res = {"scenario": "alias-fanout", "width": width, "rc": rc, "wall": round(time.time() - t0, 1), "bad": []}
    if rc == 124:
        res["bad"].append(("build-hang:alias-fanout", f"grog build of {width} targets behind an alias did not return within {WALL * 2} s"))
    elif rc != 0:
        first = next((l for l in out.splitlines() if l.startswith(("fatal error:", "panic:"))), None)
        if first:
            res["bad"].append(("executor-runtime-crash:" + first.split(":", 1)[1].strip().replace(" ", "-")[:50],
                               f"grog died with '{first}' building {width} targets that depend on an alias"))
        else:
            res["bad"].append(("build-failed", f"build of {width} targets behind an alias exited {rc}: {out[-300:]}"))
    elif f"{width + 1} targets completed" not in out:
        res["bad"].append(("selected-target-unresolved", f"not all {width + 1} targets completed: {out[-200:]}"))
    if res["bad"]:
        res["out"] = out[-1500:]
    shutil.rmtree(d, ignore_errors=True)
    return res


def run_cli(ctx):
    if ctx.grog_binary() is None:
        return
    quick = ctx.tier == "quick"
    jobs = []
    k = 0
    for dep in (True, False):
        for ff in (False, True):
            jobs.append((cli_timeout_case, (k, dep, ff, 2)))
            k += 1
    blob_kinds = [("file", "all"), ("dir-nested-file", "all"), ("tree", "all"), ("file", "minimal"), ("dir-file", "minimal"), ("all", "all")]
    if not quick:
        blob_kinds = [(w, m) for w in ("file", "dir-file", "dir-nested-file", "tree", "all") for m in ("all", "minimal")]
    for w, m in blob_kinds:
        jobs.append((cli_lost_blob_case, (k, w, m)))
        k += 1
    for width in ((600, 600) if quick else (600, 600, 1500, 600, 600, 600)):
        jobs.append((cli_alias_fanout_case, (k, width)))
        k += 1
    results = []
    with cf.ThreadPoolExecutor(max_workers=4) as ex:
        for f in [ex.submit(W.confirmed, fn, ctx, *args) for fn, args in jobs]:
            results.append(f.result())
    for r in results:
        for sig, msg in r["bad"]:
            ctx.violation(msg, {"kind": "oracle", "oracle": "CLI build returns, resolves every target, does not crash", "scenario": r}, signature=sig)
    ctx.coverage["cli_unconfirmed_oracle_failures"] = [(r["scenario"], r["unconfirmed"], r.get("unconfirmed_record")) for r in results if r.get("unconfirmed")]
    ctx.coverage["cli_scenarios"] = {s: sum(1 for r in results if r["scenario"] == s) for s in ("target-timeout", "lost-blob", "alias-fanout")}
    ctx.coverage["cli_max_wall_s"] = max([r.get("wall", 0) for r in results] + [r.get("wall2", 0) for r in results])
    ctx.coverage["evaluations"] += len(results)
    ctx.coverage["distinct_nontrivial"] += len(results)


def strip(c):
    c = dict(c)
    if c["n"] > 60:
        c["edges"] = "omitted: family %s n=%d (regenerate with tools/checks/_walker.py)" % (c["family"], c["n"])
        c["latUs"] = c["latUs"][:5]
        c["onCancel"] = c["onCancel"][:5]
    return c


def spurious_only(c):
    """the case has a failing callback that returns a wrapped context.Canceled and nobody cancels the walk from outside"""
    fk = c.get("failKind", [])
    return (any(m < len(fk) and fk[m] == "spurious-cancel" for m in c.get("fail", []))
            and c.get("cancelAfterEvents", -1) < 0 and not c.get("cancelAtUs") and not c.get("preCancel"))


def check_intest(ctx, cases, res, info, mode):
    if not info["built"]:
        ctx.harness_broken(f"go test of the in-package walker harness ({mode}) failed to build/run against the current tree", info["raw"])
        return
    if info["fatal"]:
        # the binary died: the first case without a result line is the one that crashed
        cid = next((i for i in range(len(cases)) if i not in res), None)
        c = cases[cid] if cid is not None else None
        first = info["fatal"].splitlines()[0]
        ctx.violation("Go runtime fatal error while walking (" + first + ")",
                      {"kind": "oracle", "oracle": f"no runtime crash ({mode})", "case": strip(c) if c else None, "output": info["fatal"]},
                      signature="walker-runtime-crash:" + first.replace("fatal error:", "").strip().replace(" ", "-"))
    for i, c in enumerate(cases):
        r = res.get(i)
        if r is None:
            continue
        if r.get("deadlock") and not r.get("returned"):
            ctx.violation(f"Walk never returns: {'all goroutines in the synctest bubble are blocked' if mode == 'synctest' else 'no return within 20 s'} "
                          f"({c['family']} n={c['n']} failFast={c['failFast']})",
                          {"kind": "oracle", "oracle": f"Walk returns ({mode})", "case": strip(c), "result": {k: v for k, v in r.items() if k != 'trace'}},
                          signature="walker-hang-spurious-cancel" if spurious_only(c) else "walker-hang")
        elif r.get("panic") and not r.get("deadlock"):
            ctx.violation("panic while walking: " + r["panic"][:200], {"kind": "oracle", "case": strip(c), "result": {k: v for k, v in r.items() if k != 'trace'}},
                          signature="walker-panic")
        elif r.get("deadlock") and r.get("returned"):
            ctx.notes.append(f"{mode}: goroutines still blocked after Walk returned in case {i} ({c['family']} n={c['n']})")
    if mode == "race" and (info["races"] or "race_report" in info):
        cid = min(info["races"]) if info["races"] else None
        ctx.violation("data race reported by the race detector while walking",
                      {"kind": "oracle", "oracle": "go test -race reports nothing", "case": strip(cases[cid]) if cid is not None else None,
                       "report": info.get("race_report", "")}, signature="walker-data-race:" + info.get("race_where", "?"))


def replay(ctx, rep):
    if "world" in rep:
        return _cliworld.replay(ctx, rep)
    if rep.get("request", {}).get("op") == "restore.load":
        import os, shutil
        rq = dict(rep["request"], dir=os.path.join(ctx.scratch("replay-restore"), "1"))
        print("impl :", ctx.impl([rq])[0])
        print("model:", ctx.model([{"op": "errchan.outcome", "nOk": len(rq["files"]) - len(rq["missing"]), "nFail": len(rq["missing"]), "cap": 1, "drop": True}])[0])
        return 0
    c = rep.get("case")
    if not c or isinstance(c.get("edges"), str):
        print("nothing to replay directly (see 'kind' / regenerate the large family)")
        return 0
    for mode in ("synctest", "race"):
        res, info = W.run_intest(ctx, [dict(c)], mode)
        print(mode, "result:", {k: v for k, v in (res.get(0) or {}).items() if k != "trace"}, "fatal:", info["fatal"], "races:", info["races"])
    return 0
