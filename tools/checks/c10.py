"""C10 — at most one grog build runs in a workspace; stale locks are recovered.

Theorem side : GrogModel/Props/C10.lean — mutual exclusion of the flock protocol for any number of processes, every
               interleaving of their file-system calls and every crash point (inductive invariant); a lock file left by dead
               processes never blocks; a waiter proceeds after release or death of the holder; regression witnesses for the
               PID-file protocol of the tree before the fix.
Correspondence: real OS processes (harness/lockproc) run the CURRENT internal/locking/workspace_locker.go, instrumented at
               check time by tools/instrument (go/ast) with a yield before every file-system call and with time.After replaced;
               a controller steps them one call at a time along schedules enumerated from the model (all interleavings of two
               contenders up to acquisition, with and without a pre-existing lock file; sampled crash insertions; random
               schedules for three), kills them (SIGKILL) between calls, and afterwards replays the recorded events through
               the model's own step function: every event must be enabled there and after every event the pending call of
               every process, the existence of the lock path and the set of processes past acquisition must coincide.
Oracle (no model): on the real processes, at no point are two live processes between Lock()=nil and Unlock(); after the
               holder released or was killed (and all other contenders were killed) the remaining contender acquires within
               a bounded number of its own calls.
"""
import hashlib, json, os, shutil, subprocess, sys
from checks import _lockload as G

PROPERTY = "C10"
LEVEL = "proof"
LEVEL_TEXT = ("Lean 4 proof (inductive invariant, no bound on the number of processes, all interleavings, all crash points) of mutual "
              "exclusion and of progress after release/death for a hand-written transition-system model of workspace_locker.go with one "
              "transition per file-system call; the model is tied to the code by stepping real OS processes that run the current, "
              "AST-instrumented locker along model-enumerated schedules with SIGKILL crashes and comparing every step (pending call, lock "
              "path, holders) with the model — that tie is sampled/exhaustive-for-two-contenders, not proved.")
LEVEL_NOTE = ("Proved: protocol model. Sampled: that the real processes take exactly the model's steps (all 2-contender interleavings up to "
              "acquisition, sampled crashes, random 3-contender schedules). Trusted: POSIX atomicity of open(O_CREAT), exclusivity of flock "
              "per open file description and its release on close/death, unlink semantics; local file system (no NFS); PID reuse is "
              "irrelevant to the flock protocol. cmds/build.go wiring (lock taken before execution, released by defer) is exercised only "
              "by a CLI smoke run.")
TECHNIQUE = "Lean 4 proof over a labelled transition system + lock-step trace correspondence with real, instrumented OS processes"
OBLIGATIONS = [
    "Grog.C10.mutex",
    "Grog.C10.stale_never_blocks",
    "Grog.C10.stale_never_blocks_others_gone",
    "Grog.C10.contender_never_stuck",
    "Grog.C10.flock_winner_acquires",
    "Grog.C10.waiter_proceeds",
    "Grog.C10.clean_without_lock_witness",
    "Grog.C10.mutex_witness_empty",
    "Grog.C10.mutex_witness_stale",
]
ASSUMPTIONS = [
    "flock(2) is exclusive per open file description and released when the descriptor is closed or the process dies; open(O_CREAT) "
    "and unlink are atomic (local POSIX file system)",
    "a yield point before each file-system call does not change the locker's behaviour (calls are the only shared-state accesses)",
    "the lock descriptor is close-on-exec, i.e. not inherited by target commands (not in the model; tested by the CLI scenario 'holder "
    "killed while a target command runs')",
    "processes are killed only between calls (a kill inside a system call is equivalent to before or after it for these atomic calls)",
]

WITNESS_EMPTY = ("none", [["s", 0], ["s", 1], ["s", 1], ["s", 1], ["s", 1], ["s", 1], ["s", 1], ["s", 0], ["s", 0]])
WITNESS_STALE = ("deadpid", [["s", 0]] * 3 + [["s", 1]] * 3 + [["s", 0]] * 4 + [["s", 1]] * 4)


def ws_lock_dir(root, ws):
    pre = hashlib.sha256(ws.encode()).hexdigest()[:16] + "-" + os.path.basename(ws)
    return os.path.join(root, pre)


def dead_pid():
    p = subprocess.Popen(["true"])
    p.wait()
    return p.pid


class Arena:
    """n real contenders on one fresh workspace."""

    def __init__(self, binary, base, idx, n, pre):
        self.root = os.path.join(base, f"r{idx}")
        self.ws = os.path.join(self.root, "ws")
        os.makedirs(self.ws)
        self.lockdir = ws_lock_dir(self.root, self.ws)
        os.makedirs(self.lockdir)
        self.lockfile = os.path.join(self.lockdir, "lockfile")
        self.procs = [G.Contender(binary, self.root, self.ws) for _ in range(n)]
        if pre != "none":
            # a lock file left behind: its content must not matter (the PID of a live unrelated process — PID reuse —
            # or of a contender itself included)
            content = {"empty": "", "garbage": "not a pid\n", "deadpid": str(dead_pid()), "whitespace": " \n\t ",
                       "hugepid": "99999999999999999999", "livepid": str(os.getpid()), "ownpid": str(self.procs[0].pid),
                       "negpid": "-1", "zeropid": "0"}[pre]
            with open(self.lockfile, "w") as fh:
                fh.write(content)
        for p in self.procs:
            p.lock()
        self.unlocking = [False] * n      # Unlock() called, os.Remove still pending
        self.unlock_called = [False] * n  # Unlock() called (the process is no contender any more)
        self.max_holders = 0
        self.events = []
        self.obs = [self.observe()]
        self.problems = []

    def crit(self):
        out = []
        for i, p in enumerate(self.procs):
            if p.alive and (p.state == "acquired" or (self.unlocking[i] and p.state == "pending")):
                out.append(i)
        return out

    def observe(self):
        c = self.crit()
        self.max_holders = max(self.max_holders, len(c))
        return {"labels": [p.label() for p in self.procs], "path": os.path.exists(self.lockfile), "crit": c}

    def enabled(self, ev):
        k, i = ev
        p = self.procs[i]
        if not p.alive:
            return False
        if k == "s":
            return p.state == "pending"
        if k == "u":
            return p.state == "acquired"
        return k == "c" and p.state not in ("released",)

    def apply(self, ev):
        """apply an event if the real process can take it; record it with the observation that follows"""
        if not self.enabled(ev):
            return False
        k, i = ev
        p = self.procs[i]
        if k == "s":
            r = p.step()
            if self.unlocking[i]:
                self.unlocking[i] = False
        elif k == "u":
            r = p.unlock()
            self.unlocking[i] = True
            self.unlock_called[i] = True
        else:
            p.kill()
            r = ("K",)
        if r[0] in ("E", "P", "TIMEOUT", "EOF"):
            self.problems.append({"event": ev, "reply": list(r)})
        self.events.append(list(ev))
        self.obs.append(self.observe())
        return True

    def close(self):
        for p in self.procs:
            p.kill()
        shutil.rmtree(self.root, ignore_errors=True)


def liveness_phase(a, rng):
    """kill every contender except the holder and one waiter, release (or kill) the holder, let the waiter run alone."""
    live = [i for i, p in enumerate(a.procs) if p.alive and p.state in ("pending", "acquired")]
    holders = [i for i in live if a.procs[i].state == "acquired"]
    waiters = [i for i in live if a.procs[i].state == "pending" and not a.unlock_called[i]]
    if not waiters:
        return None
    w = rng.choice(waiters)
    h = holders[0] if holders else None
    for i in live:
        if i not in (w, h):
            a.apply(("c", i))
    mode = "stale-file-only"
    if h is not None:
        if rng.random() < 0.5:
            mode = "holder-killed"
            a.apply(("c", h))
        else:
            mode = "holder-unlocked"
            a.apply(("u", h))
            for _ in range(12):
                if not a.apply(("s", h)):
                    break
    for _ in range(60):
        if a.procs[w].state != "pending":
            break
        a.apply(("s", w))
    return {"mode": mode, "waiter": w, "acquired": a.procs[w].state == "acquired", "waiter_state": a.procs[w].label()}


def run_schedule(binary, base, idx, n, pre, events, rng, liveness=True):
    a = Arena(binary, base, idx, n, pre)
    try:
        for ev in events:
            a.apply(tuple(ev))
        base_len = len(a.events)
        live = liveness_phase(a, rng) if liveness else None
        return {"n": n, "pre": pre, "events": a.events, "obs": a.obs, "max_holders": a.max_holders, "liveness": live,
                "base_len": base_len, "problems": a.problems}
    finally:
        a.close()


def signature_mutex(rec):
    crashed = any(e[0] == "c" for e in rec["events"])
    return "mutex-violated:" + ("stale-lock-file" if rec["pre"] != "none" or crashed else "no-preexisting-file")


def compare_with_model(rec, mrep):
    """-> None or (index of first differing event, description)"""
    if "error" in mrep:
        return (0, "model driver: " + str(mrep["error"]))
    mo = [mrep["init"]] + mrep["steps"]
    for k, (o, m) in enumerate(zip(rec["obs"], mo)):
        if k > 0 and not m["ok"]:
            return (k - 1, f"event {rec['events'][k-1]} was taken by the real process but is not enabled in the model")
        for f in ("labels", "path", "crit"):
            if o[f] != m[f]:
                return (k - 1, f"after event #{k-1} {rec['events'][k-1] if k else 'init'}: {f} impl={o[f]} model={m[f]}")
    return None


def gen_schedules(ctx, quick):
    """[(n, pre, events, family)]"""
    rng = ctx.rng
    out = [(2, WITNESS_EMPTY[0], WITNESS_EMPTY[1], "regression-empty-window"), (2, WITNESS_STALE[0], WITNESS_STALE[1], "regression-stale-race")]
    enum = ctx.model([{"op": "lock.enum", "proto": "cur", "n": 2, "pre": pre, "depth": 40} for pre in ("none", "empty")])
    two = {}
    for pre, r in zip(("none", "empty"), enum):
        two[pre] = [[["s", i] for i in s] for s in r["schedules"]]
    ctx.coverage["two_contender_interleavings_in_model"] = {k: len(v) for k, v in two.items()}
    ctx.coverage["exhaustive_two_contenders"] = True
    for pre in ("none", "empty"):
        for s in two[pre]:
            out.append((2, pre, s, "all-2-interleavings"))
    # other pre-existing contents: sample
    for pre in ("garbage", "deadpid", "whitespace", "hugepid", "livepid", "ownpid", "negpid", "zeropid"):
        for s in rng.sample(two["empty"], 10 if quick else len(two["empty"])):
            out.append((2, pre, s, "all-2-interleavings"))
    # crash / unlock insertions into 2-contender interleavings
    n_ins = 150 if quick else 3000
    for _ in range(n_ins):
        pre = rng.choice(["none", "empty", "deadpid", "livepid", "ownpid", "hugepid"])
        s = list(rng.choice(two["none" if pre == "none" else "empty"]))
        k = rng.randrange(len(s) + 1)
        who = rng.randrange(2)
        kind = rng.choice(["c", "c", "u"])
        if kind == "c":
            s = s[:k] + [["c", who]] + [e for e in s[k:] if e[1] != who]
        else:
            s = s + [["u", 0], ["u", 1]]
            tail = [["s", rng.randrange(2)] for _ in range(rng.randrange(1, 10))]
            s = s + tail
            if rng.random() < 0.5:
                s.insert(rng.randrange(len(s)), ["c", who])
        out.append((2, pre, s, "crash-or-unlock-inserted"))
    # three contenders around the release window: P0 holds, P1 has the lock file open, P0 unlocks (k of its 2 calls done),
    # P1 continues for m calls, P0 finishes, a newcomer P2 runs, P1 runs
    for pre in (("none",) if quick else ("none", "empty")):
        for a in (1, 2):
            for k in (0, 1, 2):
                for m in range(0, 8):
                    s = [["s", 0]] * 6 + [["s", 1]] * a + [["u", 0]] + [["s", 0]] * k + [["s", 1]] * m + [["s", 0]] * (2 - k) + \
                        [["s", 2]] * 8 + [["s", 1]] * 8
                    out.append((3, pre, s, "release-window-3"))
    # three contenders: random schedules
    for _ in range(100 if quick else 3000):
        pre = rng.choice(["none", "empty", "garbage", "deadpid", "livepid", "ownpid", "whitespace"])
        s = []
        for _ in range(rng.randrange(8, 45)):
            r = rng.random()
            i = rng.randrange(3)
            s.append(["s", i] if r < 0.86 else (["u", i] if r < 0.94 else ["c", i]))
        out.append((3, pre, s, "random-3"))
    return out


def run(ctx):
    quick = ctx.tier == "quick"
    binary, msg, labels = G.build_lockproc()
    if binary is None:
        ctx.harness_broken("instrumenting / building the lock contender against the current workspace_locker.go failed", msg)
        return
    ctx.coverage["instrumented_yield_points"] = labels
    base = ctx.scratch("arena")
    scheds = gen_schedules(ctx, quick)
    ctx.coverage["rule"] = ("real OS processes running the instrumented current locker, stepped one file-system call at a time: every interleaving of 2 "
                            "contenders up to acquisition enumerated from the model (lock path absent / present-empty; sampled for garbage / dead-PID "
                            "content), crash (SIGKILL) or Unlock inserted at random positions, random schedules of 3 contenders, two fixed regression "
                            "schedules; each followed by a progress phase (others killed, holder unlocked or killed, one waiter runs alone). "
                            "distinct_nontrivial = distinct executed event sequences in which at least two processes performed a file-system call")
    fam = {}
    for _, _, _, family in scheds:
        fam[family] = fam.get(family, 0) + 1
    import random
    from concurrent.futures import ThreadPoolExecutor

    def one(job):
        idx, (n, pre, events, family) = job
        rec = run_schedule(binary, base, idx, n, pre, events, random.Random(ctx.seed * 1000003 + idx))
        rec["family"] = family
        return rec
    # the arenas are independent (own directories, own processes): four at a time
    with ThreadPoolExecutor(max_workers=4) as ex:
        recs = list(ex.map(one, enumerate(scheds)))
    ctx.coverage["schedules_by_family"] = fam
    ctx.coverage["evaluations"] = len(recs)
    # ---- oracle on the real processes ---------------------------------------------------------
    distinct = set()
    n_events = n_crash = n_unlock = 0
    live_modes = {}
    pres = {}
    for rec in recs:
        pres[rec["pre"]] = pres.get(rec["pre"], 0) + 1
        n_events += len(rec["events"])
        n_crash += sum(1 for e in rec["events"] if e[0] == "c")
        n_unlock += sum(1 for e in rec["events"] if e[0] == "u")
        if len({e[1] for e in rec["events"] if e[0] == "s"}) >= 2:
            distinct.add(json.dumps([rec["pre"], rec["events"]]))
        if rec["max_holders"] > 1:
            k = next(i for i, o in enumerate(rec["obs"]) if len(o["crit"]) > 1)
            ctx.violation(f"{rec['max_holders']} live processes are past lock acquisition at the same time",
                          {"kind": "oracle", "oracle": "mutual exclusion on real processes", "n": rec["n"], "pre": rec["pre"],
                           "events": rec["events"][:k], "observations": rec["obs"][:k + 1], "family": rec["family"]},
                          signature=signature_mutex(rec))
        lv = rec["liveness"]
        if lv:
            live_modes[lv["mode"]] = live_modes.get(lv["mode"], 0) + 1
            if not lv["acquired"]:
                sig = "stale-lock-blocks" if lv["mode"] != "holder-unlocked" else "waiter-blocked-after-release"
                ctx.violation(f"the remaining contender did not acquire the lock ({lv['mode']}): it is at {lv['waiter_state']} after 60 of its own calls",
                              {"kind": "oracle", "oracle": "progress after release / death", "n": rec["n"], "pre": rec["pre"], "events": rec["events"],
                               "liveness": lv, "family": rec["family"]}, signature=sig)
        for pr in rec["problems"]:
            if pr["reply"][0] in ("P", "TIMEOUT", "EOF"):
                ctx.violation(f"contender failed: {pr['reply']}", {"kind": "oracle", "oracle": "locker does not panic / block inside a call",
                                                                  "n": rec["n"], "pre": rec["pre"], "events": rec["events"], "problem": pr},
                              signature="locker-call-" + pr["reply"][0].lower())
    ctx.coverage.update({"distinct_nontrivial": len(distinct), "transitions": n_events, "crashes_injected": n_crash, "unlocks": n_unlock,
                         "preexisting_lock_file": pres, "progress_phase": live_modes,
                         "max_simultaneous_holders_observed": max(r["max_holders"] for r in recs)})
    # ---- trace inclusion in the model ---------------------------------------------------------
    mreps = ctx.model([{"op": "lock.run", "proto": "cur", "n": r["n"], "pre": r["pre"], "events": r["events"]} for r in recs])
    bad = 0
    for rec, m in zip(recs, mreps):
        d = compare_with_model(rec, m)
        if d:
            bad += 1
            k, why = d
            ctx.violation("lock protocol: real processes and model disagree — " + why,
                          {"kind": "correspondence", "correspondence": "stepped lockproc processes vs GrogModel.Lock.step (trace inclusion, lock-step)",
                           "n": rec["n"], "pre": rec["pre"], "events": rec["events"][:k + 1], "observations": rec["obs"][:k + 2],
                           "model": ([m["init"]] + m["steps"])[:k + 2] if "steps" in m else m, "family": rec["family"]},
                          signature="corr:lock-trace", found_input=False)
    ctx.coverage["traces_validated_against_impl"] = len(recs) - bad
    ctx.coverage["disagreements"] = bad
    for rec in recs[2:5]:
        ctx.sample({"n": rec["n"], "pre": rec["pre"], "events": rec["events"], "final": rec["obs"][-1], "progress": rec["liveness"]})
    cli_smoke(ctx)
    cli_killed_while_command_runs(ctx)
    cli_commands(ctx)
    cli_run_minimal(ctx)
    ctx.violations.sort(key=lambda v: not v[1])      # violations with a concrete failing input first


def cli_smoke(ctx):
    """build.go wiring: two real `grog build` processes on one workspace never overlap; a killed holder does not block."""
    grog = ctx.grog_binary()
    if not grog:
        return
    ws = ctx.scratch("cli/ws")
    root = ctx.scratch("cli/root")
    trace = os.path.join(ctx.scratch("cli"), "trace")
    open(os.path.join(ws, "grog.toml"), "w").write("")
    json.dump({"targets": [{"name": "t", "command": f"echo B $$ >> {trace}; sleep 0.4; echo E $$ >> {trace}", "tags": ["no-cache"]}]},
              open(os.path.join(ws, "BUILD.json"), "w"))
    env = dict(os.environ, GROG_ROOT=root, HOME=ctx.scratch("cli/home"))
    def start():
        return subprocess.Popen([grog, "build", "//:t"], cwd=ws, env=env, stdout=subprocess.PIPE, stderr=subprocess.STDOUT)
    ps = [start() for _ in range(3)]
    outs = [p.communicate(timeout=120)[0].decode(errors="replace") for p in ps]
    lines = open(trace).read().split() if os.path.exists(trace) else []
    toks = list(zip(lines[0::2], lines[1::2]))
    depth = mx = 0
    for k, _ in toks:
        depth += 1 if k == "B" else -1
        mx = max(mx, depth)
    res = {"builds": len(ps), "exit_codes": [p.returncode for p in ps], "commands_run": sum(1 for k, _ in toks if k == "B"), "max_overlap": mx}
    ctx.coverage["cli_smoke"] = res
    if mx > 1:
        ctx.violation("two grog build processes executed targets of one workspace at the same time",
                      {"kind": "oracle", "oracle": "CLI: no overlap of target commands", "trace": toks, "outputs": [o[-800:] for o in outs]},
                      signature="cli:overlapping-builds")
    elif any(p.returncode != 0 for p in ps) or res["commands_run"] != len(ps):
        ctx.notes.append("cli smoke run inconclusive: " + json.dumps(res) + " " + outs[0][-300:])
    # killed holder
    open(trace, "w").close()
    h = start()
    import time
    for _ in range(100):
        if os.path.getsize(trace) > 0:
            break
        time.sleep(0.05)
    h.kill(); h.wait()
    w = start()
    try:
        out = w.communicate(timeout=60)[0].decode(errors="replace")
        ok = w.returncode == 0
    except subprocess.TimeoutExpired:
        w.kill(); ok = False; out = "timeout"
    ctx.coverage["cli_smoke"]["build_after_killed_holder_ok"] = ok
    if not ok:
        ctx.violation("a grog build started after the previous one was killed (SIGKILL) did not complete",
                      {"kind": "oracle", "oracle": "CLI: stale lock never blocks", "output": out[-1500:]}, signature="cli:stale-lock-blocks")


CLI_SCENARIOS = [("build", "test"), ("test", "build"), ("build", "run"), ("run", "build"), ("test", "run"), ("run", "test"), ("build", "build2"),
                 ("build", "test", "run"), ("run", "test", "build"), ("test", "run", "build2"),
                 ("build", "clean", "build2"), ("test", "clean", "build"), ("run", "clean", "test"), ("build", "clean", "clean", "test"),
                 # `clean --expunge` run from ANOTHER workspace that shares GROG_ROOT, while a build of this workspace is running
                 ("build", "expunge@other", "build2"), ("test", "expunge@other", "expunge@other", "run"),
                 # the same workspace entered through a symlink ($PWD names the link), and from a sub-directory with a RELATIVE GROG_ROOT
                 ("build", "build2@link"), ("build@link", "test"), ("build", "build2@sub"), ("run@sub", "build"),
                 # flags that select what is built must not select a different lock: platform, all platforms, hash algorithm, load-outputs, profile
                 ("build", "build2@plat"), ("test@plat", "build"), ("build", "run@allplat"), ("build@sha", "build2"), ("build", "test@minimal"),
                 ("build", "build2@profile"), ("run@plat", "test@sha", "build"),
                 # the same grog root spelled differently (trailing slash, `/./`, `/../`) by builds and by clean / expunge
                 ("build", "build2@slashroot"), ("build@dotroot", "test@dotdotroot"), ("build", "clean@slashroot", "build2"),
                 ("test", "expunge@dotroot", "build"), ("build@slashroot", "expunge@dotdotroot", "run@slashroot"), ("run", "clean@dotdotroot", "build2@dotroot")]
CLI_ARGV = {"build": ["build", "//:b"], "build2": ["build", "//:b2"], "test": ["test", "//:unit_test"], "run": ["run", "//:app"], "clean": ["clean"],
            "expunge": ["clean", "--expunge"]}


def cli_place(kind):
    base_, _, where = kind.partition("@")
    return base_, where


def cli_scenario(grog, base, idx, kinds):
    """Start the given grog commands on ONE workspace, each once the previous one is past lock acquisition (its target command has started)
    or has had 0.4 s to get there; every child runs with GOGC=1 and its target commands print megabytes, so that a lock that is only
    kept alive by an unreachable variable is garbage-collected mid-build. -> record with the B/E trace of the target commands."""
    import time
    d = os.path.join(base, f"s{idx}")
    ws, root = os.path.join(d, "ws"), os.path.join(d, "root")
    os.makedirs(ws); os.makedirs(root); os.makedirs(os.path.join(d, "home"))
    trace = os.path.join(d, "trace")
    open(trace, "w").close()
    open(os.path.join(ws, "grog.toml"), "w").write("")
    noise = "i=0; while [ $i -lt 40 ]; do head -c 100000 /dev/zero | tr '\\0' x; echo; i=$((i+1)); sleep 0.015; done"

    def cmd(name, extra=""):
        return f"echo B {name} >> {trace}; {noise}; {extra}echo E {name} >> {trace}"
    json.dump({"targets": [
        {"name": "b", "command": cmd("b"), "tags": ["no-cache"]},
        {"name": "b2", "command": cmd("b2"), "tags": ["no-cache"]},
        {"name": "unit_test", "command": cmd("unit_test"), "tags": ["no-cache"]},
        {"name": "app", "command": cmd("app", "printf '#!/bin/sh\\necho ran\\n' > app.sh; chmod +x app.sh; "), "bin_output": "app.sh", "tags": ["no-cache"]},
    ]}, open(os.path.join(ws, "BUILD.json"), "w"))
    os.makedirs(os.path.join(ws, "pk"))
    json.dump({"targets": [{"name": "inpk", "command": "true"}]}, open(os.path.join(ws, "pk", "BUILD.json"), "w"))
    env = dict(os.environ, GROG_ROOT=root, HOME=os.path.join(d, "home"), GOGC="1")
    places = {w for _, w in map(cli_place, kinds)}
    other, link, sub = os.path.join(d, "other-ws"), os.path.join(d, "ws-link"), os.path.join(ws, "sub")
    if "other" in places:
        os.makedirs(other)
        open(os.path.join(other, "grog.toml"), "w").write("")
    if "link" in places:
        os.symlink(ws, link)
    if "profile" in places:
        open(os.path.join(ws, "grog.alt.toml"), "w").write('hash_algorithm = "sha256"\nload_outputs = "minimal"\n')
    if "sub" in places:
        os.makedirs(sub)
        env["GROG_ROOT"] = "relroot"          # relative: must mean one directory for the whole workspace, not one per cwd
    procs = []
    for k, kind_full in enumerate(kinds):
        kind, where = cli_place(kind_full)
        before = os.path.getsize(trace)
        cwd = {"other": other, "link": link, "sub": sub}.get(where, ws)
        penv = dict(env, PWD=cwd)
        extra = {"plat": ["--platform=plan9/arm"], "allplat": ["--all-platforms"], "minimal": ["--load-outputs=minimal"], "profile": ["--profile=alt"]}.get(where, [])
        if where == "sha":
            penv["GROG_HASH_ALGORITHM"] = "sha256"
        if where in ("slashroot", "dotroot", "dotdotroot"):
            penv["GROG_ROOT"] = {"slashroot": root + "/", "dotroot": d + "/./root",
                                 "dotdotroot": d + "/ws/../root"}[where]
        p = subprocess.Popen([grog] + CLI_ARGV[kind] + extra, cwd=cwd, env=penv, stdout=subprocess.PIPE, stderr=subprocess.STDOUT)
        procs.append(p)
        t0 = time.time()
        # first command: wait until its target command runs (it holds the lock); later ones: give them 0.4 s
        limit = 20 if k == 0 and kind not in ("clean", "expunge") else 0.4
        while time.time() - t0 < limit:
            if kind in ("clean", "expunge"):
                if p.poll() is not None:
                    break
            elif os.path.getsize(trace) > before:
                break
            time.sleep(0.02)
    outs, codes = [], []
    for p in procs:
        try:
            o = p.communicate(timeout=90)[0].decode(errors="replace")
        except subprocess.TimeoutExpired:
            p.kill()
            o = "TIMEOUT " + p.communicate()[0].decode(errors="replace")
        outs.append(o[-600:]); codes.append(p.returncode)
    toks = [l.split() for l in open(trace).read().splitlines() if l.strip()]
    depth = mx = 0
    for t in toks:
        depth += 1 if t[0] == "B" else -1
        mx = max(mx, depth)
    link_list = None
    if "link" in places:
        # relative patterns must work when the workspace was entered through the symlink
        pl = subprocess.run([grog, "list", ":all"], cwd=os.path.join(link, "pk"), env=dict(env, PWD=os.path.join(link, "pk")), capture_output=True, text=True, timeout=60)
        link_list = {"exit": pl.returncode, "stdout": pl.stdout[-300:]}
    shutil.rmtree(d, ignore_errors=True)
    where_txt = {"plat": "   [--platform=plan9/arm]", "allplat": "   [--all-platforms]", "sha": "   [GROG_HASH_ALGORITHM=sha256]", "minimal": "   [--load-outputs=minimal]",
                 "profile": "   [--profile=alt: sha256, minimal]", "slashroot": "   [GROG_ROOT=<root>/]", "dotroot": "   [GROG_ROOT=<dir>/./root]",
                 "dotdotroot": "   [GROG_ROOT=<dir>/ws/../root]", "": "", "other": "   [in another workspace sharing GROG_ROOT]", "link": "   [cwd and $PWD = a symlink to the workspace]",
                 "sub": "   [cwd = <workspace>/sub, GROG_ROOT=relroot (relative)]"}
    return {"commands": [" ".join(["grog"] + CLI_ARGV[cli_place(k)[0]]) + where_txt[cli_place(k)[1]] for k in kinds], "kinds": list(kinds), "trace": [" ".join(t) for t in toks],
            "max_overlap": mx, "exit_codes": codes, "outputs": outs, "list_from_link": link_list}


def cli_commands(ctx):
    """every grog command that builds (`build`, `test`, `run`) and `clean` as an interferer, pairs and triples in both orders on one
    workspace: the target commands of different grog processes must never overlap and no command may fail because of another."""
    from concurrent.futures import ThreadPoolExecutor
    grog = ctx.grog_binary()
    if not grog:
        return
    base = ctx.scratch("cli3")
    with ThreadPoolExecutor(max_workers=4) as ex:
        recs = list(ex.map(lambda j: cli_scenario(grog, base, j[0], j[1]), enumerate(CLI_SCENARIOS)))
    summary = []
    for rec in recs:
        ctx.coverage["evaluations"] += 1
        summary.append({"commands": rec["kinds"], "max_overlap": rec["max_overlap"], "exit_codes": rec["exit_codes"]})
        ll = rec.get("list_from_link")
        if ll is not None and (ll["exit"] != 0 or "//pk:inpk" not in ll["stdout"]):
            ctx.violation("`grog list :all` run from <symlink to the workspace>/pk does not print the targets of package pk (relative patterns are resolved "
                          "against an unresolved working directory)", {"kind": "oracle", "oracle": "CLI: entering the workspace through a symlink", **rec},
                          signature="cli:relative-pattern-through-symlink")
        n_build = sum(1 for k in rec["kinds"] if cli_place(k)[0] not in ("clean", "expunge"))
        started = sum(1 for t in rec["trace"] if t.startswith("B "))
        if rec["max_overlap"] > 1:
            kinds = sorted(set(k.replace("2", "") for k in rec["kinds"]))
            ctx.violation("target commands of different grog processes ran at the same time on one workspace: " + " | ".join(rec["commands"]),
                          {"kind": "oracle", "oracle": "CLI: commands that build serialise on the workspace lock (GOGC=1, output-heavy commands)", **rec},
                          signature="cli:overlap:" + "+".join(kinds))
        elif any(c != 0 for c in rec["exit_codes"]) or started != n_build:
            ctx.violation("a grog command failed (or did not run its target) only because another grog command ran on the same workspace: "
                          + " | ".join(rec["commands"]) + f" -> exit codes {rec['exit_codes']}",
                          {"kind": "oracle", "oracle": "CLI: concurrent commands do not break each other", **rec},
                          signature="cli:concurrent-command-fails:" + "+".join(sorted(set(k.replace("2", "") for k in rec["kinds"]))))
    ctx.coverage.setdefault("cli_smoke", {})["command_mixes"] = summary


def cli_run_minimal(ctx):
    """`grog run` with load_outputs=minimal restores the outputs of the run target's dependencies into the workspace after its build. That is
    build work too: it must happen under the workspace lock. The controller plays a contender that follows the lock protocol (open, flock,
    re-check) and watches the workspace while it holds the lock."""
    import fcntl, time
    grog = ctx.grog_binary()
    if not grog:
        return
    d = ctx.scratch("cli4")
    ws, root = os.path.join(d, "ws"), os.path.join(d, "root")
    os.makedirs(ws); os.makedirs(root)
    open(os.path.join(ws, "grog.toml"), "w").write("")
    json.dump({"targets": [
        {"name": "dep", "command": "mkdir -p out; i=0; while [ $i -lt 1500 ]; do echo $i > out/f$i; i=$((i+1)); done", "outputs": ["dir::out"]},
        {"name": "app", "command": "printf '#!/bin/sh\\necho ran\\n' > app.sh; chmod +x app.sh", "dependencies": [":dep"], "bin_output": "app.sh"}]},
        open(os.path.join(ws, "BUILD.json"), "w"))
    env = dict(os.environ, GROG_ROOT=root, HOME=ctx.scratch("cli4/home"))
    p = subprocess.run([grog, "build", "//:app"], cwd=ws, env=env, capture_output=True, text=True, timeout=120)
    res = {"first_build_exit": p.returncode}
    ctx.coverage.setdefault("cli_smoke", {})["run_minimal"] = res
    if p.returncode != 0:
        ctx.notes.append("cli scenario 'run with load_outputs=minimal' inconclusive: the preparing build failed: " + (p.stdout + p.stderr)[-300:])
        return
    shutil.rmtree(os.path.join(ws, "out"), ignore_errors=True)
    lockfile = os.path.join(ws_lock_dir(root, ws), "lockfile")
    out_dir = os.path.join(ws, "out")

    def count():
        try:
            return len(os.listdir(out_dir))
        except OSError:
            return 0
    r = subprocess.Popen([grog, "run", "//:app", "--load-outputs=minimal"], cwd=ws, env=env, stdout=subprocess.PIPE, stderr=subprocess.STDOUT)
    held = grown = 0
    observations = []
    t0 = time.time()
    while r.poll() is None and time.time() - t0 < 90:
        try:
            fd = os.open(lockfile, os.O_RDWR | os.O_CREAT, 0o644)
        except OSError:
            time.sleep(0.01)
            continue
        try:
            try:
                fcntl.flock(fd, fcntl.LOCK_EX | fcntl.LOCK_NB)
            except OSError:
                time.sleep(0.01)
                continue
            try:
                same = os.fstat(fd).st_ino == os.stat(lockfile).st_ino
            except OSError:
                same = False
            if not same:
                continue
            # the controller is now past lock acquisition
            held += 1
            c1 = count(); time.sleep(0.05); c2 = count()
            if c2 != c1:
                grown += 1
                if len(observations) < 5:
                    observations.append({"t": round(time.time() - t0, 2), "files_in_out_before": c1, "after_50ms": c2})
            try:
                os.unlink(lockfile)
            except OSError:
                pass
        finally:
            os.close(fd)
        time.sleep(0.01)
    try:
        out = r.communicate(timeout=30)[0].decode(errors="replace")
    except subprocess.TimeoutExpired:
        r.kill(); out = "TIMEOUT"
    res.update({"run_exit": r.returncode, "times_controller_held_lock": held, "times_workspace_changed_while_held": grown, "files_restored": count()})
    if grown:
        ctx.violation("grog run --load-outputs=minimal writes the outputs of the run target's dependencies into the workspace while another process "
                      "holds the workspace lock (the lock is released after the build and not taken again for loading)",
                      {"kind": "oracle", "oracle": "CLI: the workspace is only written under the workspace lock",
                       "scenario": ["grog build //:app   (dep has a directory output of 1500 files)", "rm -rf out", "grog run //:app --load-outputs=minimal",
                                    "meanwhile a contender takes the workspace lock by the protocol (open, flock, re-check) and lists out/ twice, 50 ms apart"],
                       "observations": observations, "output_of_run": out[-800:]}, signature="cli:run-loads-dependency-outputs-outside-lock")


def cli_killed_while_command_runs(ctx):
    """The holder is killed (SIGKILL) *while one of its target commands is running*: the command survives as an orphan. The lock
    must die with the holder, not live on in the orphan (which it does if the lock descriptor is inherited by target commands)."""
    import signal, time
    grog = ctx.grog_binary()
    if not grog:
        return
    ws = ctx.scratch("cli2/ws")
    root = ctx.scratch("cli2/root")
    marker = os.path.join(ctx.scratch("cli2"), "trace-orphan")
    open(os.path.join(ws, "grog.toml"), "w").write("")
    json.dump({"targets": [{"name": "long", "command": f"echo B >> {marker}; sleep 45.0173; echo E >> {marker}", "tags": ["no-cache"]},
                           {"name": "quick", "command": f"echo Q >> {marker}", "tags": ["no-cache"]}]},
              open(os.path.join(ws, "BUILD.json"), "w"))
    env = dict(os.environ, GROG_ROOT=root, HOME=ctx.scratch("cli2/home"))
    h = subprocess.Popen([grog, "build", "//:long"], cwd=ws, env=env, stdout=subprocess.DEVNULL, stderr=subprocess.DEVNULL, start_new_session=True)
    started = False
    for _ in range(400):
        if os.path.exists(marker) and os.path.getsize(marker) > 0:
            started = True
            break
        time.sleep(0.05)
    res = {"command_started": started}
    try:
        if not started:
            ctx.notes.append("cli scenario 'holder killed while a command runs' inconclusive: the command did not start within 20 s")
            return
        h.send_signal(signal.SIGKILL)
        h.wait()
        orphans = []
        for pid in os.listdir("/proc"):
            if pid.isdigit():
                try:
                    if marker.encode() in open(f"/proc/{pid}/cmdline", "rb").read():
                        orphans.append(int(pid))
                except OSError:
                    pass
        res["orphaned_command_processes"] = len(orphans)
        t0 = time.time()
        w = subprocess.Popen([grog, "build", "//:quick"], cwd=ws, env=env, stdout=subprocess.PIPE, stderr=subprocess.STDOUT)
        try:
            out = w.communicate(timeout=20)[0].decode(errors="replace")
            ok = w.returncode == 0
        except subprocess.TimeoutExpired:
            w.kill()
            out = w.communicate()[0].decode(errors="replace")
            ok = False
        res.update({"second_build_ok": ok, "second_build_s": round(time.time() - t0, 2)})
        if not ok:
            ctx.violation("grog build is killed (SIGKILL) while a target command runs; the command lives on as an orphan and a new grog build does not "
                          "get the workspace lock within 20 s: the dead build's lock still blocks",
                          {"kind": "oracle", "oracle": "CLI: a lock left behind by a dead process never blocks (holder killed while a command runs)",
                           "scenario": ["grog build //:long   (command: sleep 45.0173)", "kill -9 <grog> once the command has started", "grog build //:quick   (20 s bound)"],
                           "orphaned_command_processes": len(orphans), "output_of_second_build": out[-1500:]},
                          signature="cli:dead-holder-lock-survives-in-orphaned-command")
    finally:
        ctx.coverage.setdefault("cli_smoke", {})["holder_killed_while_command_runs"] = res
        for pid in os.listdir("/proc"):
            if pid.isdigit():
                try:
                    cl = open(f"/proc/{pid}/cmdline", "rb").read()
                    if marker.encode() in cl or b"45.0173" in cl:
                        os.kill(int(pid), signal.SIGKILL)
                except OSError:
                    pass
        try:
            os.killpg(h.pid, signal.SIGKILL)
        except OSError:
            pass


def replay(ctx, rep):
    binary, msg, _ = G.build_lockproc()
    if binary is None:
        print(msg)
        return 1
    if "events" not in rep:
        print("nothing to replay in this file (see 'kind')")
        return 0
    import random
    rec = run_schedule(binary, ctx.scratch("arena"), 0, rep["n"], rep["pre"], rep["events"], random.Random(1), liveness=False)
    m = ctx.model([{"op": "lock.run", "proto": "cur", "n": rec["n"], "pre": rec["pre"], "events": rec["events"]}])[0]
    mo = [m["init"]] + m["steps"]
    for k, o in enumerate(rec["obs"]):
        ev = rec["events"][k - 1] if k else "init"
        print(f"{str(ev):12} impl {o['labels']} path={o['path']} holders={o['crit']}   | model {mo[k]['labels']} path={mo[k]['path']} holders={mo[k]['crit']} enabled={mo[k]['ok']}")
    print("max simultaneous holders on the real processes:", rec["max_holders"])
    return 0
