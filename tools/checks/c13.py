"""C13 — taint, no-cache and enable_cache=false force execution precisely.

Theorem side : GrogModel/Props/C13.lean.
Correspondence: histories mixing edits, `grog taint <patterns>`, builds with and without --enable-cache, no-cache tags at
               every graph position: executed multiset / exit class / bytes / taints left per build — real CLI vs model.
               In-process (overlay test in package execution): with a slow taint store the taint is gone when Execute returns.
Oracles (no model): tainted ∧ selected ⇒ executed, and untainted after a successful build; no-cache ∧ selected ⇒ executed in
               every build; cache disabled ⇒ every selected target executed; after taints only (no edit) the executed set is
               exactly tainted ∪ no-cache (dependants are not invalidated when outputs reproduce); a no-cache dependency whose
               outputs swap contents invalidates its dependant (clean-build oracle).
"""
import os
from checks import _hist as H
from checks import _hist2 as H2
import vlib

PROPERTY = "C13"
LEVEL = "proof"
LEVEL_TEXT = ("Lean 4 theorems for all states of the per-target decision model: a tainted selected target whose dependencies succeeded "
              "executes even with a valid result and the taint is gone when its execution has succeeded; a no-cache target always executes "
              "and is never restored; with the cache disabled every target whose dependencies succeeded executes; in all three cases the "
              "output hash handed to dependants is a function of the produced output values only (injective in (definition, value); a target "
              "without outputs exposes its own key in all three cases, outputless_exposes_key), so "
              "dependants' keys change only if outputs changed. Lifted to whole builds and histories: in a mode-all build over a well-formed "
              "order a selected target whose dependencies succeeded is executed if it is tainted at the start / no-cache / the cache is "
              "disabled (forced_executed_in_build); its taint is gone iff the build marked it successful (taint_after_build); a pending taint "
              "survives edits, taints, lost blobs and builds that do not select it (taint_survives) and forces the next selecting build "
              "(taint_forces_next_selecting_build); under load_outputs=minimal the same commands execute (forced_executed_minimal, via "
              "C15's lock step). Regression witnesses for the unrepaired behaviours. Tied by history "
              "correspondence with the real CLI and an in-process test of the real Executor with a slow taint store.")
LEVEL_NOTE = ("The asynchronous taint clear of the old code is modelled as 'clear does not happen before the build returns' "
              "(Fixes.syncTaint=false); on the real side that schedule is forced by a slow taint backend in an overlaid test. "
              "A toggled no-cache tag changes the representation of the output hash and so invalidates dependants once (modelled as the code does). "
              "dependants_iff_outputs_changed is the injectivity of the model's output-hash constructors (the string level is C09); that a "
              "dependant with unchanged dependency hashes is NOT executed is C02.unchanged_not_executed / early_cutoff (per step) and the "
              "taint-only executed-set oracle. `grog taint <patterns>` is a list of labels in the model; pattern / tag selection of the "
              "taint command is compared on the real CLI (oracle taint-command-skipped-selected-target); a taint namespace spanning a "
              "local and a remote tier is C08's model (Remote). The minimal-mode corollary needs C15's hypotheses (well-formed builds, no "
              "lost blobs, check files not declared outputs).")
TECHNIQUE = "Lean 4 proof over an executable model + history correspondence with the real CLI + in-process Executor test"
OBLIGATIONS = [
    "Grog.C13.tainted_executes",
    "Grog.C13.taint_consumed",
    "Grog.C13.taint_frame",
    "Grog.C13.no_cache_always_executes",
    "Grog.C13.no_cache_never_restored",
    "Grog.C13.disabled_executes_all",
    "Grog.C13.dependants_iff_outputs_changed",
    "Grog.C13.outputless_exposes_key",
    "Grog.C13.outputless_disabled_witness",
    "Grog.C13.async_taint_witness",
    "Grog.C13.forced_executed_in_build",
    "Grog.C13.taint_after_build",
    "Grog.C13.taint_kept_if_not_selected",
    "Grog.C13.taint_survives",
    "Grog.C13.taint_forces_next_selecting_build",
    "Grog.C13.forced_executed_minimal",
]
ASSUMPTIONS = [
    "output-hash computations injective on (definition, value) lists (C09.outHash_inj; no-cache variant repaired by 6f6e2f5)",
    "builds are atomic per-target steps; the taint store is the local cache backend",
]

SIG_OUTLESS = "taint-only-executed-set:outputless-target-record-from-disabled-build"

FAMILIES_QUICK = [("taint", 9, {}), ("nocache", 7, {}), ("disabled", 6, {}), ("taintdis", 6, {}), ("taintfail", 7, {}), ("tool", 5, {}),
                  ("outless", 5, {"minimal": True}), ("taint", 4, {"minimal": True}), ("nocache", 4, {"minimal": True})]
FAMILIES_THOROUGH = [(f, n * 15, kw) for f, n, kw in FAMILIES_QUICK]

# round-c families (generators in _hist2.py)
FAMILIES2_QUICK = [("checksonly", 4, {}), ("checksonly", 2, {"minimal": True}), ("dirtaint", 3, {}), ("dirtaint", 1, {"minimal": True}),
                   ("interrupt", 3, {}), ("interrupt", 1, {"minimal": True}),
                   # round d (appended, so that the histories of the families above stay what they were)
                   ("testcmd", 3, {}), ("testcmd", 1, {"minimal": True}), ("bigout", 2, {}), ("bigout", 1, {"minimal": True})]
GEN2 = {"checksonly": H2.gen_checksonly, "dirtaint": H2.gen_dirtaint, "interrupt": H2.gen_interrupt,
        "testcmd": H2.gen_testcmd, "bigout": H2.gen_bigout}


def run(ctx):
    quick = ctx.tier == "quick"
    fams = FAMILIES_QUICK if quick else FAMILIES_THOROUGH
    hists = []
    if os.environ.get("VERIF_DEV_ONLY_NEW"):
        fams = []       # development only: run just the round-c families
    for fam, n, kw in fams:
        for _ in range(n):
            h = H.gen_history(ctx.rng, fam, **kw)
            if kw.get("minimal"):
                h["tags"].append("minimal")
            hists.append(h)
    for _ in range(2 if quick else 10):
        hists.append(H.gen_swap(ctx.rng, nocache=True))
    for fam, n, kw in FAMILIES2_QUICK:
        for _ in range(n if quick else n * 15):
            hists.append(GEN2[fam](ctx.rng, **kw))
    ctx.coverage["rule"] = ("layered DAGs of 2-6 targets with no-cache tags at random positions (p=0.3); histories mixing edits, "
                            "`grog taint` of one label or //..., builds with random selections, --enable-cache=false builds; families: "
                            + ", ".join("%s%s x%d" % (f, "(minimal)" if kw.get("minimal") else "", n) for f, n, kw in fams) +
                            " + output-swap of a no-cache dependency; taint patterns also cover a target together with one of its dependencies or a whole "
                            "package; taintdis = cache-disabled build while tainted; outless = 40% targets without outputs (also no-cache) under minimal; "
                            "tool = a no-cache target whose only output is a script that is also its input, with a cached dependant; round-c families: "
                            + ", ".join("%s%s x%d" % (f, "(minimal)" if kw.get("minimal") else "", n) for f, n, kw in FAMILIES2_QUICK) +
                            " (round d: testcmd = `grog test` steps next to `grog build`, the cache disabled by flag / GROG_ENABLE_CACHE / grog.toml; bigout = a no-cache target "
                            "rewriting a 9 MiB file output with cached dependants; checksonly = targets without inputs and outputs that only carry output checks, cached and no-cache, tainted / built with the cache "
                            "disabled; dirtaint = a tainted target with a dir:: output and dependants reproduces identical outputs; interrupt = the build that runs a "
                            "tainted target is interrupted by SIGINT/SIGTERM while a dependant of it is running); non-trivial = distinct history with >=2 builds, one executing and one with a hit")
    recs = H.run_both(ctx, hists, "c13")
    if recs is None:
        return
    st = H.stats(recs)
    ctx.coverage.update({k: v for k, v in st.items() if k != "distinct_nontrivial"})
    ctx.coverage["evaluations"] = st["builds"]
    ctx.coverage["distinct_nontrivial"] = st["distinct_nontrivial"]
    ctx.coverage["traces_validated_against_impl"] = sum(1 for r in recs if r["model"] is not None)
    for r in recs[:2] + recs[-1:]:
        ctx.sample(H.sample_of(r))
    cnt = {"tainted_builds": 0, "nocache_target_builds": 0, "disabled_builds": 0, "taint_only_builds": 0, "oracle_failures": 0}

    def fail(what, h, b, sig, **kw):
        cnt["oracle_failures"] += 1
        small = H.truncate(h, b["n"] + 1)
        ctx.violation(what, dict({"kind": "oracle", "history": small, "described": H.describe(small), "build": b["n"],
                                  "executed": b["obs"]["executed"]}, **kw), signature=sig)
    for r in recs:
        h = r["hist"]
        if "swap" in h.get("tags", []):
            fails, _ = H.clean_oracle(ctx, h, r["real"], "c13clean")
            if fails:
                cnt["oracle_failures"] += 1
                ctx.violation("outputs of a re-executed no-cache dependency changed (two outputs swapped contents) but its dependant was not invalidated",
                              {"kind": "oracle", "oracle": "real clean build", "history": h, "described": H.describe(h), "detail": fails[0]},
                              signature="nocache-output-swap-not-propagated")
            continue
        if "tool" in h.get("tags", []):
            # a (no-cache) target whose bin_output is also its input: an edit of the script must reach the dependants
            fails, _ = H.clean_oracle(ctx, h, r["real"], "c13clean", which="all")
            if fails:
                cnt["oracle_failures"] += 1
                small = H.truncate(h, fails[0]["build"] + 1)
                ctx.violation("a dependant of a re-executed target whose output changed was not invalidated (stale output after a successful build)",
                              {"kind": "oracle", "oracle": "real clean build", "history": small, "described": H.describe(small), "detail": fails[0]},
                              signature="dependant-not-invalidated-although-output-changed")
        pending = set()     # targets tainted by a `grog taint` and not yet executed successfully (tracked here, not read from the store)
        for b in H.walk(h, r["real"]):
            o, ws, s = b["obs"], b["ws"], b["step"]
            sel = H.selected(ws, s["patterns"])
            ex = set(o["executed"])
            pre_t = set(o["pre_tainted"])
            pending |= set(H.matched_targets(ws, b["taints_since"]))
            pending &= set(ws["targets"])
            pi = b["prev"]
            if pi is not None and pi["step"].get("interrupt") and s.get("enable_cache", True):
                # the previous build was interrupted. A tainted target whose command ran in it and one of whose dependants was
                # started afterwards has been executed SUCCESSFULLY (dependants start only then): its taint is consumed.
                pex = set(pi["obs"]["executed"])
                for l in sorted(set(pi["obs"]["pre_tainted"]) & pex & set(sel)):
                    if not any(l in H.rdeps(pi["ws"], y) for y in pex if y in pi["ws"]["targets"]):
                        continue
                    cnt["interrupted_taint_builds"] = cnt.get("interrupted_taint_builds", 0) + 1
                    anc = H.descendants(ws, {x for wa, wb, _, _ in b["edits_since"] for x in H.touched(wa, wb)})
                    if l in pi["obs"]["tainted"]:
                        fail("a tainted target was executed successfully (its dependant was started afterwards) but its taint marker is still "
                             "there after the build, which was interrupted later on", h, pi, "taint-not-consumed-by-successful-execution", target=l)
                    elif l in ex and l not in anc and l not in set(H.matched_targets(ws, b["taints_since"])) and not ws["targets"][l].get("nocache") \
                            and l in pi["ws"]["targets"] and H.tkey(pi["ws"], l) == H.tkey(ws, l):
                        fail("a target whose taint was consumed by a successful execution (in a build that was interrupted afterwards) was "
                             "executed again by the next build", h, b, "taint-not-consumed-by-successful-execution", target=l)
            if s.get("interrupt"):
                if o.get("rc") == 125:
                    cnt["interrupts_not_delivered"] = cnt.get("interrupts_not_delivered", 0) + 1
                pending -= set(o["executed"])       # whether these executions succeeded is judged by the oracle above
                continue
            if not (s.get("fail_fast") and not o["ok"]):
                for l in sorted(pending & set(sel)):
                    t = ws["targets"][l]
                    if H.rdeps(ws, l):
                        continue        # reached only if its dependencies succeeded: not observable from outside
                    cnt["pending_taint_builds"] = cnt.get("pending_taint_builds", 0) + 1
                    if l not in ex:
                        fail("a target that was tainted and has not been executed successfully since was not executed "
                             "(the taint was consumed by an execution that failed, or by merely looking at it)", h, b,
                             "taint-lost-without-successful-execution", target=l)
                        pending.discard(l)
                    elif t.get("beh", 0) == 0 and all(H.check_holds(c, o["fs"]) for c in t.get("checks", [])) \
                            and all(o["fs"].get(H.out_path(t, op)) is not None for op in H.all_outs(t)):
                        pending.discard(l)
            # `grog taint <patterns>` must have marked every target the patterns select
            for l in H.matched_targets(ws, b["taints_since"]):
                if l not in pre_t and l in ws["targets"]:
                    cnt["taint_cmds_checked"] = cnt.get("taint_cmds_checked", 0) + 1
                    fail("`grog taint` did not taint a target its patterns select (the next build serves it from the cache)", h, b,
                         "taint-command-skipped-selected-target", target=l, patterns=b["taints_since"])
            # dependencies of l all succeeded <=> l was reached; with keep-going and no failing commands in these families every selected target is reached
            if not o["ok"]:
                continue
            t_sel = [l for l in sel if l in pre_t]
            if t_sel:
                cnt["tainted_builds"] += 1
            for l in t_sel:
                if l not in ex:
                    fail("a tainted selected target was not executed", h, b, "tainted-not-executed", target=l)
                if l in o["tainted"]:
                    fail("the taint of a successfully executed target is still present after the build", h, b, "taint-not-consumed", target=l)
            nc = [l for l in sel if ws["targets"][l].get("nocache")]
            if nc:
                cnt["nocache_target_builds"] += 1
            for l in nc:
                if l not in ex:
                    fail("a no-cache target was not executed", h, b, "nocache-not-executed", target=l)
            if not s.get("enable_cache", True):
                cnt["disabled_builds"] += 1
                if set(sel) != ex:
                    fail("with the cache disabled not every selected target executed", h, b, "disabled-not-all-executed", selected=sel)
            prev = b["prev"]
            if (prev is not None and prev["obs"]["ok"] and not b["edits_since"] and s.get("enable_cache", True)
                    and prev["step"].get("enable_cache", True) and set(H.selected(prev["ws"], prev["step"]["patterns"])) >= set(sel)):
                cnt["taint_only_builds"] += 1
                expect = set(t_sel) | set(nc)
                if ex != expect:
                    sig = "taint-only-executed-set"
                    extra = ex - expect
                    # (repaired finding, the signature is kept) an output-less (cached) target that ran while the cache was disabled left a
                    # record that is a usable hit later and exposed the no-cache output hash; when the target ran again with the cache
                    # enabled it exposed its own change hash instead, and its dependants were invalidated once although nothing changed
                    disabled_before = any(x["k"] == "build" and not x.get("enable_cache", True) for x in H.truncate(h, b["n"] + 1)["steps"])
                    bare = {d for d in ws["targets"] if not ws["targets"][d]["outs"] and not ws["targets"][d].get("nocache") and d in ex}
                    if extra and not (expect - ex) and disabled_before and bare and extra <= H.descendants(ws, bare):
                        sig = SIG_OUTLESS
                    fail("after taints only, the executed set is not exactly the tainted and no-cache targets (a dependant was invalidated "
                         "although outputs reproduced, or a forced target was skipped)", h, b, sig, expected=sorted(expect))
    # --- in-process: the taint is consumed when Execute returns ------------------------------------
    rc, out = vlib.go_test("./internal/execution/", "TestVerifTaintConsumedWhenBuildReturns", timeout=600)
    ctx.coverage["inprocess_taint_test_rc"] = rc
    if rc != 0:
        if "VERIF-TAINT-NOT-CONSUMED" in out:
            cnt["oracle_failures"] += 1
            ctx.violation("the real Executor returned from a build that executed a tainted target successfully while the taint marker was still present",
                          {"kind": "oracle", "oracle": "in-process Executor with a slow taint store (harness/intest/internal/execution/x_taint_verif_test.go)",
                           "output": out[-1500:]}, signature="taint-not-consumed-at-return")
        else:
            ctx.harness_broken("the overlaid in-package test of execution could not be run against the current tree", out)
    ctx.coverage.update(cnt)
    bad = [r for r in recs if r["diffs"]]
    ctx.coverage["disagreements"] = len(bad)
    if bad and not any(found for _, found in ctx.violations):
        r = min(bad, key=lambda x: len(x["hist"]["steps"]))
        small = H.truncate(r["hist"], r["diffs"][0][0] + 1) if r["diffs"][0][0] >= 0 else r["hist"]
        H.report_disagreement(ctx, dict(r, hist=small), "taint / no-cache / disabled-cache histories vs GrogModel.Build.runHistory")


def replay(ctx, rep):
    if rep.get("signature") == "taint-not-consumed-at-return":
        rc, out = vlib.go_test("./internal/execution/", "TestVerifTaintConsumedWhenBuildReturns", timeout=600)
        print(out[-1500:])
        return 1 if rc else 0
    if rep.get("signature") == "taint-not-consumed-by-successful-execution":
        return H2.replay_oracles(ctx, rep)
    return H.replay_history(ctx, rep)
