"""C17 — labels and patterns follow the documented algebra.

Theorem side : GrogModel/Props/C17.lean (all strings, all labels).
Correspondence: label.ParseTargetLabel / ParseTargetPattern / Matches / String of the current tree vs the
                Lean model, exhaustively over short strings of a small alphabet and on random longer
                strings (incl. arbitrary bytes), against a bounded label universe.
Oracle (no model): print→re-parse round trips on the real code; a reference matcher written from
                docs/reference/labels.md for canonical pattern spellings.
"""
import itertools

PROPERTY = "C17"
LEVEL = "proof"
LEVEL_TEXT = ("Lean 4 theorems for all byte strings / labels (parse∘print = id for labels, shorthand, relative labels, recursive/all/name "
              "matching as iff-characterisations, print∘parse of patterns is the identity on parsed patterns) about a hand-written model of "
              "target_label.go/target_pattern.go; the model is tied to the code on every run by an exhaustive (short strings) and random "
              "differential run of the real parsers against the compiled model, plus model-independent round-trip and reference-matcher oracles.")
LEVEL_NOTE = ("Trusted: Lean kernel; axioms propext/Classical.choice/Quot.sound; the correspondence harness (sampled beyond the exhaustive bound); "
              "current package assumed a cleaned relative path (hypothesis PkgOK cur). Parser errors compared as ok/not-ok only.")
TECHNIQUE = "Lean 4 proof over an executable model + exhaustive-small/random differential correspondence with the Go parsers"
OBLIGATIONS = [
    "Grog.C17.parse_print_label",
    "Grog.C17.shorthand",
    "Grog.C17.relative",
    "Grog.C17.recursive_matches_iff",
    "Grog.C17.recursive_never_sibling",
    "Grog.C17.all_matches_iff",
    "Grog.C17.name_exact",
    "Grog.C17.print_parse_pattern",
    "Grog.C17.double_slash_witness",
    "Grog.C17.parsed_label_ok",
    "Grog.C17.parsed_pattern_ok",
    "Grog.C17.print_parse_ok",
    "Grog.C17.print_parse_pattern_matches",
    "Grog.C17.root_recursive_matches_all",
    "Grog.C17.recursive_name_exact",
    "Grog.C17.relative_matches_iff",
    "Grog.C17.pattern_shorthand",
    "Grog.C17.root_recursive_name_exact",
    "Grog.C17.parsePatterns_spec",
    "Grog.C17.parsePatterns_matches_iff",
    "Grog.C17.patternFromLabel_matches_iff",
    "Grog.C17.canBeShortened_iff",
    "Grog.C17.label_print_injective",
    "Grog.C17.matchesAny_append",
    "Grog.C17.matchesAny_perm",
    "Grog.C17.matchAll_matches",
    "Grog.C17.patternFromLabel_matches_self",
    "Grog.C17.recursive_subsumes",
    "Grog.C17.exact_subsumed",
    "Grog.C17.parsePatterns_append_isSome",
    "Grog.C17.parsePatterns_union",
]
ASSUMPTIONS = [
    "errors of the Go parsers are compared only as ok / not ok",
    "current package paths are cleaned relative paths (no ':' , no trailing '/', no '...')  — hypothesis CurOK of print_parse_pattern",
]

ALPHA = "ab/:._"
CURS_QUICK = ["", ".", "x/y"]
# current packages used for *relative labels* only (any directory name is possible there; the theorem `relative`
# says the package is the current package verbatim unless it is ".")
CURS_LABEL = ["", ".", "x/y", ".x", ".github/ci", "./a", "a/.b", "..", "a.", "_", "-x", "x/./y", "a//b"]
UNI = {"pkgs": ["", ".", "a", "b", "a/", "a/b", "a/a", "ab", "a2", "a_", "a.", "a/b/a", "b/a", "a//", "/", "//", "a/.", "x/y", "x/y/a", "x",
                # siblings sharing a string prefix, with sub-packages of their own
                "ab/a", "a2/b", "a_/b", "a./b", "a/b2/a", "a/ba/b", "x/y2/z", "x/yy", "b/a/b", "ba/a",
                "a/b/c", "a/b/c/d", "x/y/z", "a/a/b", "b/a/a"],
       "names": ["a", "b", "all", "...", "ab", "y", "a:b", "_", "a.", ".a", "c", "d", "z"]}


def labels_of(uni):
    return [(p, n) for p in uni["pkgs"] for n in uni["names"]]


def exhaustive(maxlen):
    for n in range(0, maxlen + 1):
        for t in itertools.product(ALPHA, repeat=n):
            yield "".join(t)


def random_strings(rng, n):
    pieces = ["//", ":", "...", "/", "a", "b", "all", "a2", "x/y", ".", "_", "-", "A", "9", " ", "é", "ÿ", "\x00", "//a", ":all", "/..."]
    out = []
    for _ in range(n):
        k = rng.randint(1, 7)
        s = "".join(rng.choice(pieces) for _ in range(k))
        if rng.random() < 0.5:
            s = "//" + s
        out.append(s)
    return out


def reference_match(pat, pkg, name, cur=None):
    """Reference matcher for canonical pattern spellings, written from the documentation:
       //p/... (p and below, at component boundaries), //... (everything), //p:all, //p:name, with optional
       :name / :all after a recursive pattern.  Returns None when `pat` is not one of these spellings."""
    if pat.startswith(":") and cur is not None:
        # relative pattern: the current package only (":all" / ":..." = every target of it, non-recursively)
        t = pat[1:]
        if t == "" or ":" in t:
            return None
        return pkg == cur and (t in ("all", "...") or name == t)
    if not pat.startswith("//"):
        return None
    body = pat[2:]
    tname = None
    if ":" in body:
        body, tname = body.split(":", 1)
        if tname == "" or ":" in tname:
            return None
    if "..." in body:
        if body == "...":
            base, rec = "", True
        elif body.endswith("/...") and "..." not in body[:-4] and not body[:-4].endswith("/") and body[:-4] != "":
            base, rec = body[:-4], True
        else:
            return None
    else:
        if body.endswith("/") or tname is None:
            return None
        base, rec = body, False
    if rec:
        pkg_ok = base == "" or pkg == base or pkg.startswith(base + "/")
    else:
        pkg_ok = pkg == base
    name_ok = tname in (None, "all", "...") or name == tname
    return pkg_ok and name_ok


def run(ctx):
    quick = ctx.tier == "quick"
    maxlen = 5 if quick else 7
    strings = list(exhaustive(maxlen))
    nrand = 3000 if quick else 60000
    strings += random_strings(ctx.rng, nrand)
    # targeted family: trailing-slash / ellipsis / colon boundaries of the package part
    for base in ["", "a", "a/b", "a.", "a..", "..", "a2"]:
        for k in range(0, 4):
            for suf in ["", ":x", ":all", ":...", "/...", "...", "/...:x", "...:x", ":", ":x:y", "/....", "/.../", "/.../a"]:
                strings.append("//" + base + "/" * k + suf)
    for p_ in ["a/b/c", "a/b/c/d", "x/y/z", "a/b", "a", "a/a/b", "b/a/a"]:
        strings += ["//" + p_, "//" + p_ + ":" + p_.split("/")[-1]]
    for n_ in ["lib..so", "v1...2", "....", "..", "a..b", ".", "a.", ".a", "-", "_", "a-b_c.d", "A9", "é", "a b", "a/b", "all", "..."]:
        strings += [":" + n_, "//p:" + n_]
    strings = list(dict.fromkeys(strings))
    # long family: package prefixes around buffer-size boundaries, each with its own label universe
    long_reqs = []
    for L in [31, 32, 33, 62, 63, 64, 65, 127, 128, 129, 255, 256, 257, 1023, 1024, 1025, 4097]:
        for P in ["p" * L, ("ab/" * L)[:L - 1] + "c", "a/" + "b" * (L - 2)]:
            uni = {"pkgs": [P, P + "/q", P + "2", P + "2/q", P[:-1], P[:-1] + "/q", P[:63] + "/q", P[:64] + "/q", P[:63] + "x/q", P + "/" + "q" * 70, ""],
                   "names": ["x", "all", P.split("/")[-1][:200]]}
            for suf in ["/...", "/...:x", ":all", ":x", "", "/...:" + P.split("/")[-1][:200]]:
                long_reqs.append({"op": "pattern.parse", "cur": "", "s": "//" + P + suf, "uni": uni})
            long_reqs.append({"op": "label.parse", "cur": "", "s": "//" + P})
            long_reqs.append({"op": "label.parse", "cur": "", "s": "//" + P + ":" + "n" * L})
            long_reqs.append({"op": "label.parse", "cur": P, "s": ":" + "n" * L})
    curs = CURS_QUICK if quick else CURS_QUICK + ["a", "a/b"]
    labs = labels_of(UNI)
    ctx.coverage["rule"] = (f"all strings of length <= {maxlen} over '{ALPHA}' plus {nrand} random strings built from label "
                            f"fragments and arbitrary bytes; each parsed as label and as pattern under current packages {curs}; "
                            f"every accepted pattern matched against {len(labs)} labels; non-trivial = accepted by at least one parser")
    reqs = []
    for s in strings:
        rel = s.startswith(":") or not s.startswith("//")
        for cur in (curs if rel else curs[:1]):
            reqs.append({"op": "label.parse", "cur": cur, "s": s})
            reqs.append({"op": "pattern.parse", "cur": cur, "s": s, "uni": UNI})
        if s.startswith(":") and len(s) <= 4:
            for cur in CURS_LABEL:
                if cur not in curs:
                    reqs.append({"op": "label.parse", "cur": cur, "s": s})
    reqs += long_reqs
    # --- correspondence ----------------------------------------------------------------------
    impl_out = []
    bad = []
    chunk = 20000
    for i in range(0, len(reqs), chunk):
        part = reqs[i:i + chunk]
        a = ctx.impl(part)
        if a is None:
            return
        b = ctx.model(part)
        impl_out += a
        for r, x, y in zip(part, a, b):
            if x != y:
                bad.append((r, x, y))
    ctx.coverage["evaluations"] = len(reqs)
    accepted = {(r["op"], r["cur"], r["s"]) for r, x in zip(reqs, impl_out) if x.get("ok")}
    ctx.coverage["distinct_nontrivial"] = len(accepted)
    ctx.coverage["accepted_labels"] = sum(1 for a in accepted if a[0] == "label.parse")
    ctx.coverage["accepted_patterns"] = sum(1 for a in accepted if a[0] == "pattern.parse")
    ctx.coverage["traces_validated_against_impl"] = len(reqs)
    for r, x in zip(reqs, impl_out):
        if x.get("ok") and len(r["s"]) >= 4:
            ctx.sample({"request": {k: v for k, v in r.items() if k != "uni"}, "impl": x}, limit=4)
    # --- oracle on the real code -------------------------------------------------------------
    oracle_fail = 0
    # (1) print -> parse round trips
    rt_reqs, rt_src = [], []
    for r, x in zip(reqs, impl_out):
        if not x.get("ok"):
            if "panic" in x or "error" in x:
                ctx.violation("parser crashed or driver error", {"kind": "impl-crash", "request": strip(r), "impl": x}, signature="parser-crash")
            continue
        rt_reqs.append({"op": r["op"], "cur": r["cur"], "s": x["str"], **({"uni": r["uni"]} if r["op"] == "pattern.parse" else {})})
        rt_src.append((r, x))
    rt_out = ctx.impl(rt_reqs) if rt_reqs else []
    for (r, x), rr, y in zip(rt_src, rt_reqs, rt_out):
        if r["op"] == "label.parse":
            if not y.get("ok") or y["label"] != x["label"]:
                oracle_fail += 1
                ctx.violation("printing a parsed label and parsing it again gives a different result",
                              {"kind": "oracle", "oracle": "label print/parse round trip", "request": strip(r), "first": x, "reparse_of": rr["s"], "second": y},
                              signature="label-reparse-differs")
        else:
            differs = not y.get("ok") or y["m"] != x["m"]
            if not differs and y["pat"] != x["pat"]:
                # the two parses differ structurally: look for a label that tells them apart
                u2 = {"pkgs": [x["pat"]["pfx"], y["pat"]["pfx"], x["pat"]["pfx"] + "/q", y["pat"]["pfx"] + "/q"],
                      "names": [x["pat"]["tp"] or "q", y["pat"]["tp"] or "q", "q"]}
                o1, o2 = ctx.impl([dict(r, uni=u2), dict(rr, uni=u2)])
                if o1.get("m") != o2.get("m"):
                    differs = True
                    x, y = o1, o2
                    labs_used = [(p, n) for p in u2["pkgs"] for n in u2["names"]]
                else:
                    labs_used = labels_of(r["uni"])
            else:
                labs_used = labels_of(r["uni"])
            if differs:
                oracle_fail += 1
                pkgpart = r["s"][2:].split(":")[0] if r["s"].startswith("//") else ""
                if pkgpart.endswith("//") and "..." not in pkgpart:
                    sig = "pattern-reparse-differs:package-part-ends-in-double-slash"
                else:
                    sig = "pattern-reparse-differs"
                diff = [labs_used[i] for i in range(len(labs_used)) if y.get("ok") and y["m"][i] != x["m"][i]][:5]
                ctx.violation("printing a parsed pattern and parsing it again changes the set of labels it matches",
                              {"kind": "oracle", "oracle": "pattern print/parse round trip", "request": strip(r), "first": x, "reparse_of": rr["s"], "second": y,
                               "labels_matched_differently": diff}, signature=sig)
    # (2) reference matcher on canonical spellings
    ref_checked = 0
    for r, x in zip(reqs, impl_out):
        if r["op"] != "pattern.parse" or not x.get("ok"):
            continue
        labs_r = labs if r["uni"] is UNI else labels_of(r["uni"])
        exp = [reference_match(r["s"], p, n, r["cur"]) for p, n in labs_r]
        if exp[0] is None:
            continue
        ref_checked += 1
        got = [c == "1" for c in x["m"]]
        if got != exp:
            oracle_fail += 1
            i = [k for k in range(len(labs_r)) if got[k] != exp[k]][0]
            ctx.violation("pattern matches a label the documented algebra excludes (or misses one it includes)",
                          {"kind": "oracle", "oracle": "reference matcher", "request": strip(r), "impl": x, "label": labs_r[i], "expected": exp[i]},
                          signature="pattern-match-differs-from-reference")
    # (3) relative labels resolve against the current package; shorthand //p == //p:base(p)
    by_req = {(r["op"], r["cur"], r["s"]): x for r, x in zip(reqs, impl_out)}
    rel_checked = sh_checked = 0
    for r, x in zip(reqs, impl_out):
        if r["op"] != "label.parse":
            continue
        if r["s"].startswith(":") and x.get("ok"):
            rel_checked += 1
            exp = "" if r["cur"] == "." else r["cur"]
            if x["label"]["pkg"] != exp or x["label"]["name"] != r["s"][1:]:
                oracle_fail += 1
                ctx.violation("a relative label does not resolve against the current package",
                              {"kind": "oracle", "oracle": "relative label", "request": strip(r), "impl": x, "expected_pkg": exp},
                              signature="relative-label-wrong-package")
        if r["s"].startswith("//") and ":" not in r["s"]:
            p_ = r["s"][2:]
            other = by_req.get(("label.parse", r["cur"], r["s"] + ":" + p_.split("/")[-1]))
            if other is not None:
                sh_checked += 1
                if (x.get("ok"), x.get("label")) != (other.get("ok"), other.get("label")):
                    oracle_fail += 1
                    ctx.violation("shorthand //p does not parse like //p:base(p)",
                                  {"kind": "oracle", "oracle": "shorthand", "request": strip(r), "impl": x, "explicit": other},
                                  signature="shorthand-differs")
    # (4) documented name rule: letters, digits, '_', '-', '.'; not "..."  — accepted exactly then (relative labels)
    import re as _re
    name_checked = 0
    for r, x in zip(reqs, impl_out):
        if r["op"] == "label.parse" and r["s"].startswith(":"):
            n_ = r["s"][1:]
            exp_ok = bool(_re.fullmatch(r"[A-Za-z0-9_.\-]+", n_)) and n_ != "..."
            name_checked += 1
            if bool(x.get("ok")) != exp_ok:
                oracle_fail += 1
                ctx.violation("target-name validation differs from the documented rule (letters, digits, '_', '-', '.'; not '...')",
                              {"kind": "oracle", "oracle": "name rule", "request": strip(r), "impl": x, "expected_ok": exp_ok},
                              signature="name-rule-differs")
    # (5) pattern shorthand: //p matches like //p:base(p)
    psh = 0
    for r, x in zip(reqs, impl_out):
        if r["op"] == "pattern.parse" and r["s"].startswith("//") and ":" not in r["s"] and "..." not in r["s"]:
            other = by_req.get(("pattern.parse", r["cur"], r["s"] + ":" + r["s"][2:].split("/")[-1]))
            if other is not None and r["s"][2:].split("/")[-1] != "":
                psh += 1
                if (x.get("ok"), x.get("m")) != (other.get("ok"), other.get("m")):
                    oracle_fail += 1
                    ctx.violation("shorthand pattern //p does not match like //p:base(p)",
                                  {"kind": "oracle", "oracle": "pattern shorthand", "request": strip(r), "impl": x, "explicit": other},
                                  signature="pattern-shorthand-differs")
    ctx.coverage["oracle_name_rule"] = name_checked
    ctx.coverage["oracle_pattern_shorthand_pairs"] = psh
    ctx.coverage["oracle_relative_labels"] = rel_checked
    ctx.coverage["oracle_shorthand_pairs"] = sh_checked
    # (6) labels that grog itself prints (`grog list`) for BUILD files it accepts must re-parse to themselves
    cli_labels = cli_printed_labels(ctx)
    if cli_labels is not None:
        preqs = [{"op": "label.parse", "cur": "", "s": l} for l in cli_labels]
        pout = ctx.impl(preqs) if preqs else []
        for r, x in zip(preqs, pout):
            if not x.get("ok") or x.get("str") != r["s"]:
                oracle_fail += 1
                ctx.violation("`grog list` prints a label for a target it loaded that the label parser rejects (or parses to a different label)",
                              {"kind": "oracle", "oracle": "printed labels re-parse (CLI)", "printed": r["s"], "reparse": x},
                              signature="printed-label-does-not-reparse:loader-accepted-name")
        ctx.coverage["oracle_cli_printed_labels"] = len(cli_labels)
    # (7) pattern sets (ParsePatternsOrMatchAll, the function every command passes its arguments through): model correspondence,
    #     and the oracle "the set matches exactly the union of what its canonical members match; no argument = everything"
    oracle_fail += pattern_sets(ctx, bad)
    # (8) the same through the real CLI: `grog list <patterns>` prints exactly the union; relative dependency labels in BUILD files
    #     resolve against the package that declares them
    oracle_fail += cli_patterns(ctx)
    ctx.coverage["oracle_roundtrips"] = len(rt_reqs)
    ctx.coverage["oracle_reference_patterns"] = ref_checked
    ctx.coverage["oracle_failures"] = oracle_fail
    # --- correspondence verdict --------------------------------------------------------------
    ctx.coverage["disagreements"] = len(bad)
    if bad and not ctx.violations:
        r, x, y = min(bad, key=lambda t: len(t[0]["s"]))
        ctx.violation("model and implementation disagree (correspondence label/pattern parser)",
                      {"kind": "correspondence", "correspondence": "label.parse / pattern.parse vs GrogModel.Label",
                       "request": strip(r), "impl": x, "model": y, "n_disagreements": len(bad)}, found_input=False)


SET_POOL = ["//...", "//...:a", "//...:y", "//...:all", "//a/...", "//a/...:b", "//a:all", "//a:a", "//a", "//a/b", "//a/b:a", "//ab/...", "//x/y/...:z",
            "//x/y:y", ":a", ":all", ":...", ":y", "//b/a/...", "//a/b/c:d", "//:a", "//...:...", "//a/b/...:all"]
SET_BAD = ["//a:", "a", "//a/.../b", ":", "://", "//"]


def ref_set_match(s_, pkg, name, cur):
    """reference matcher extended by the documented shorthand //p = //p:base(p)"""
    if s_.startswith("//") and ":" not in s_ and "..." not in s_ and not s_.endswith("/") and s_ != "//":
        s_ = s_ + ":" + s_[2:].split("/")[-1]
    return reference_match(s_, pkg, name, cur)


def pattern_sets(ctx, bad):
    rng = ctx.rng
    quick = ctx.tier == "quick"
    labs = labels_of(UNI)
    sets = [[]] + [[p_] for p_ in SET_POOL] + [[p_, q_] for p_ in ["//...:a", "//...:y", "//a/...:b", "//...", ":a"] for q_ in SET_POOL[:12]]
    for _ in range(400 if quick else 6000):
        k = rng.randint(0, 4)
        ss = [rng.choice(SET_POOL) for _ in range(k)]
        if rng.random() < 0.12:
            ss.insert(rng.randint(0, len(ss)), rng.choice(SET_BAD))
        sets.append(ss)
    curs = ["", "a", "x/y", "a/b"]
    reqs = [{"op": "patterns.parse", "cur": cur, "ss": ss, "uni": UNI} for ss in sets for cur in (curs if any(not x.startswith("//") for x in ss) else curs[:1])]
    lab_reqs = [{"op": "pattern.fromlabel", "pkg": p_, "name": n_, "uni": UNI} for p_, n_ in labs[::7]]
    # CanBeShortened: every label of the universe plus names that are proper suffixes / prefixes / case variants of the last package element
    short_cases = list(labs)
    for p_ in UNI["pkgs"] + ["tools/alint", "tools/lint", "a/bb", "x/yy/zz", "lint", "a/b/", "/a"]:
        last = p_.split("/")[-1]
        for n_ in {last, last[1:], last[:-1], "x" + last, last + "x", last.upper(), p_.replace("/", "_"), p_}:
            short_cases.append((p_, n_))
    short_reqs = [{"op": "label.short", "pkg": p_, "name": n_} for p_, n_ in dict.fromkeys(short_cases)]
    lab_reqs = lab_reqs + short_reqs
    out = ctx.impl(reqs + lab_reqs)
    if out is None:
        return 0
    mod = ctx.model(reqs + lab_reqs)
    for r, x, y in zip(reqs + lab_reqs, out, mod):
        if x != y:
            bad.append((dict(r, s=" ".join(r.get("ss", [r.get("pkg", "") + ":" + r.get("name", "")])), cur=r.get("cur", "")), x, y))
    ctx.coverage["evaluations"] += len(reqs) + len(lab_reqs)
    ctx.coverage["traces_validated_against_impl"] += len(reqs) + len(lab_reqs)
    fails = 0
    checked = 0
    for r, x in zip(reqs, out):
        if "panic" in x or "error" in x:
            ctx.violation("parser crashed or driver error", {"kind": "impl-crash", "request": strip(r), "impl": x}, signature="parser-crash")
            continue
        singles = [ref_set_match(s_, "", "q", r["cur"]) for s_ in r["ss"]]
        bad_member = any(s_ in SET_BAD for s_ in r["ss"])
        if bad_member != (not x.get("ok")):
            fails += 1
            ctx.violation("a pattern set is accepted although one argument is not a pattern (or rejected although every argument is one)",
                          {"kind": "oracle", "oracle": "pattern set: error iff one argument fails to parse", "request": strip(r), "impl": x},
                          signature="pattern-set-error-differs")
            continue
        if not x.get("ok") or any(v is None for v in singles):
            continue
        checked += 1
        exp = [(not r["ss"]) or any(ref_set_match(s_, p_, n_, r["cur"]) for s_ in r["ss"]) for p_, n_ in labs]
        got = [c == "1" for c in x["m"]]
        if got != exp:
            fails += 1
            i = [k for k in range(len(labs)) if got[k] != exp[k]][0]
            ctx.violation("a set of patterns matches a label that none of its patterns matches (or misses one that a pattern matches)",
                          {"kind": "oracle", "oracle": "pattern set = union of its patterns (reference matcher)", "request": strip(r), "impl": x,
                           "label": labs[i], "expected": exp[i]}, signature="pattern-set-differs-from-union")
    for r, x in zip(lab_reqs, out[len(reqs):]):
        if r["op"] == "label.short":
            exp_short = r["name"] == r["pkg"].split("/")[-1]
            if isinstance(x, dict) and "short" in x and x["short"] != exp_short:
                fails += 1
                ctx.violation("CanBeShortened disagrees with the documented shorthand (//a/b means //a/b:b, nothing else): the shorthand key of a "
                              "dependency (`$(bin //pkg)`, `$(output //pkg)`) would refer to a different target",
                              {"kind": "oracle", "oracle": "shorthand applies iff name = last package element", "request": r, "impl": x, "expected": exp_short},
                              signature="can-be-shortened-differs")
            continue
        exp = [(p_, n_) == (r["pkg"], r["name"]) for p_, n_ in labs]
        if r["name"] in ("all", "...") or not isinstance(x, dict) or "m" not in x:
            continue
        if [c == "1" for c in x["m"]] != exp:
            fails += 1
            ctx.violation("the pattern made from a label matches something other than exactly that label",
                          {"kind": "oracle", "oracle": "TargetPatternFromLabel matches exactly the label", "request": strip(r), "impl": x},
                          signature="pattern-from-label-differs")
    ctx.coverage["oracle_pattern_sets"] = checked
    return fails


def cli_patterns(ctx):
    import json as _json, os, subprocess
    grog = ctx.grog_binary()
    if not grog:
        return 0
    rng = ctx.rng
    base = ctx.scratch("pats")
    ws = os.path.join(base, "ws")
    pkgs = ["", "a", "a/b", "ab", "x/y", "x/y/z", "b/a"]
    names = ["a", "b", "y", "z", "lib", "t"]
    universe = []
    for pk in pkgs:
        d = os.path.join(ws, pk)
        os.makedirs(d, exist_ok=True)
        mine = [n_ for n_ in names if rng.random() < 0.7 or n_ in ("lib", "t")]
        tg = [{"name": n_, "command": "true", **({"dependencies": [":lib"]} if n_ == "t" else {})} for n_ in mine]
        dto = {"targets": tg, "aliases": [{"name": "al", "actual": ":lib"}]}
        universe += [(pk, n_) for n_ in mine] + [(pk, "al")]
        fmt = rng.choice(["json", "yaml"])
        if fmt == "json":
            open(os.path.join(d, "BUILD.json"), "w").write(_json.dumps(dto))
        else:
            lines = ["targets:"]
            for t_ in tg:
                lines += ["  - name: %s" % t_["name"], "    command: 'true'"] + (["    dependencies: [':lib']"] if "dependencies" in t_ else [])
            lines += ["aliases:", "  - name: al", "    actual: ':lib'"]
            open(os.path.join(d, "BUILD.yaml"), "w").write("\n".join(lines) + "\n")
    open(os.path.join(ws, "grog.toml"), "w").write("")
    env = {k: v for k, v in os.environ.items() if not k.startswith("GROG_")}
    env.update({"GROG_ROOT": os.path.join(base, "root"), "HOME": os.path.join(base, "root"), "NO_COLOR": "1"})

    def run(args, cwd):
        try:
            p = subprocess.run([grog] + args, cwd=os.path.join(ws, cwd), env=env, capture_output=True, text=True, timeout=60)
        except subprocess.TimeoutExpired:
            return None, ""
        return p.returncode, p.stdout

    fails = 0
    sets = [[":..."], ["//a:..."], ["//a:all"], ["//:..."], ["//a/b:...", "//x/y:z"], ["//...:lib"], ["//...:a"], ["//a/...:y", "//...:z"], ["//...:b", "//x/y:a"], [":a"], ["//a/..."], ["//..."], ["//a:all", "//...:y"], []]
    for _ in range(10 if ctx.tier == "quick" else 60):
        sets.append([rng.choice(SET_POOL) for _ in range(rng.randint(1, 3))])
    n = 0
    for ss in sets:
        cur = rng.choice(["", "a", "x/y"]) if any(not s_.startswith("//") for s_ in ss) or not ss else ""
        rc, outp = run(["list"] + ss, cur)
        if rc is None:
            continue
        got = sorted(l for l in outp.split("\n") if l.startswith("//"))
        if not ss:
            # `grog list` without arguments lists the current package
            exp = sorted("//%s:%s" % (p_, n_) for p_, n_ in universe if p_ == cur)
        else:
            if any(ref_set_match(s_, "", "q", cur) is None for s_ in ss):
                continue
            exp = sorted("//%s:%s" % (p_, n_) for p_, n_ in universe if any(ref_set_match(s_, p_, n_, cur) for s_ in ss))
        n += 1
        if rc != 0 and exp:
            continue      # e.g. a flag-like argument; not this oracle's business
        if got != exp and rc == 0:
            fails += 1
            ctx.violation("`grog list <patterns>` prints a set of labels different from the union of what the patterns denote",
                          {"kind": "oracle", "oracle": "CLI: list = union of pattern matches (reference matcher)", "patterns": ss, "current_package": cur,
                           "workspace_labels": ["//%s:%s" % u for u in universe], "printed": got, "expected": exp,
                           "unexpected": [l for l in got if l not in exp][:5], "missing": [l for l in exp if l not in got][:5]},
                          signature="cli-list-differs-from-union")
            break
    # relative dependency labels and alias targets resolve against the declaring package
    nd = 0
    for pk in pkgs:
        rc, outp = run(["deps", "//%s:t" % pk], "")
        if rc != 0:
            continue
        nd += 1
        got = sorted(l for l in outp.split("\n") if l.startswith("//"))
        if got != ["//%s:lib" % pk]:
            fails += 1
            ctx.violation("a relative dependency label in a BUILD file does not resolve against the package that declares it",
                          {"kind": "oracle", "oracle": "CLI: `:x` in dependencies resolves against the current package", "target": "//%s:t" % pk,
                           "declared_dependency": ":lib", "deps_printed": got, "expected": ["//%s:lib" % pk]},
                          signature="relative-dependency-wrong-package")
            break
        rc, outp = run(["deps", "//%s:al" % pk], "")
        got = sorted(l for l in outp.split("\n") if l.startswith("//"))
        if rc == 0 and got != ["//%s:lib" % pk]:
            fails += 1
            ctx.violation("a relative `actual` label of an alias does not resolve against the package that declares it",
                          {"kind": "oracle", "oracle": "CLI: `:x` in alias.actual resolves against the current package", "alias": "//%s:al" % pk,
                           "deps_printed": got, "expected": ["//%s:lib" % pk]}, signature="relative-dependency-wrong-package")
            break
    # a relative pattern resolves against the current package also when the workspace is entered through a symlink ($PWD names the link)
    link = os.path.join(base, "wslink")
    if not os.path.islink(link):
        os.symlink(ws, link)
    nl = 0
    for pk in ["a", "a/b", "x/y"]:
        via = os.path.join(link, pk)
        try:
            p = subprocess.run([grog, "list", ":all"], cwd=via, env=dict(env, PWD=via), capture_output=True, text=True, timeout=60)
        except subprocess.TimeoutExpired:
            continue
        nl += 1
        got = sorted(l for l in p.stdout.split("\n") if l.startswith("//"))
        exp = sorted("//%s:%s" % (p_, n_) for p_, n_ in universe if p_ == pk)
        if p.returncode == 0 and got != exp:
            fails += 1
            ctx.violation("a relative pattern does not resolve against the current package when the workspace is entered through a symlink",
                          {"kind": "oracle", "oracle": "CLI: `:all` from <symlink to workspace>/<package> lists that package", "current_directory": via,
                           "symlink": link + " -> " + ws, "printed": got, "expected": exp}, signature="relative-pattern-wrong-package:symlinked-workspace")
            break
    ctx.coverage["oracle_cli_symlinked_cwd"] = nl
    ctx.coverage["oracle_cli_pattern_sets"] = n
    ctx.coverage["oracle_cli_relative_deps"] = nd
    return fails


NAME_DICT = ["ok", "a-b_c.d", "A9", "a b", "x:y", "a/b", "...", "..", "é", "tab\tname", "-", "_", ".a", "a.", "all", "x" * 70, "q?", "star*", "semi;colon", "'q'", "a\\b", "test"]


def cli_printed_labels(ctx):
    """one package per candidate name; returns the labels printed by `grog list //...` in the packages that load"""
    import json as _json, os, subprocess
    grog = ctx.grog_binary()
    if not grog:
        return None
    base = ctx.scratch("names")
    ws = os.path.join(base, "ws")
    os.makedirs(ws, exist_ok=True)
    open(os.path.join(ws, "grog.toml"), "w").write("")
    env = {k: v for k, v in os.environ.items() if not k.startswith("GROG_")}
    env.update({"GROG_ROOT": os.path.join(base, "root"), "HOME": os.path.join(base, "root"), "NO_COLOR": "1"})
    labels, loaded = [], 0
    for i, nm in enumerate(NAME_DICT):
        for kind in ("target", "alias"):
            pk = os.path.join(ws, "p%d%s" % (i, kind[0]))
            os.makedirs(pk, exist_ok=True)
            dto = {"targets": [{"name": "base", "command": "true"}]}
            if kind == "target":
                dto["targets"].append({"name": nm, "command": "true"})
            else:
                dto["aliases"] = [{"name": nm, "actual": ":base"}]
            open(os.path.join(pk, "BUILD.json"), "w").write(_json.dumps(dto))
            try:
                p = subprocess.run([grog, "list", "//p%d%s/..." % (i, kind[0])], cwd=ws, env=env, capture_output=True, text=True, timeout=60)
            except subprocess.TimeoutExpired:
                continue
            os.remove(os.path.join(pk, "BUILD.json"))      # keep later loads independent of this package
            if p.returncode == 0:
                loaded += 1
                labels += [l for l in p.stdout.split("\n") if l.startswith("//")]
    ctx.coverage["cli_name_packages_loaded"] = loaded
    return labels


def strip(r):
    return {k: v for k, v in r.items() if k != "uni"}


def replay(ctx, rep):
    r = rep.get("request")
    if not r:
        print("nothing to replay in this file (see 'kind')")
        return 0
    if r["op"] == "pattern.parse":
        r = dict(r, uni=UNI)
    print("impl :", ctx.impl([r])[0])
    print("model:", ctx.model([r])[0])
    if "reparse_of" in rep:
        r2 = dict(r, s=rep["reparse_of"])
        print("impl reparse:", ctx.impl([r2])[0])
    return 0
