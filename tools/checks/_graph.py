"""Shared by the graph-group checks (C12, C19, C20): generators, a model-independent reference
(reachability, filters, pattern matching written from docs/), workspace writer and CLI runner."""
import json, os, subprocess, time

# semantic dictionary: sibling packages sharing a string prefix (a / ab, with sub-packages of their own), names equal to
# keywords or ending in "test" (latest!), case variants, tags/platforms that are prefixes of each other
PKGS = ["", "a", "a/b", "b", "ab", "a/b/c", "ab/c"]
NAMES = ["lib", "app", "x_test", "test", "all", "gen", "tool", "b", "c", "unit_test", "tests", "a", "Test", "latest", "testx", "ab"]
# semantic tags of grog itself: `testonly` restricts who may depend on a target (it does NOT make it a test: test-ness is the
# `*test` name suffix alone), `no-cache`, `multiplatform-cache`; plus a near-miss `testonlyx`
TAGS = ["t1", "t2", "t3", "t", "T1", "no-cache", "testonly", "multiplatform-cache", "testonlyx"]
PLATFORMS = ["linux/amd64", "linux/arm64", "darwin/arm64", "linux/amd", "linux/amd64/v2"]
TYPES = ["all", "test", "no_test", "bin_output"]


# ------------------------------------------------------------------------------------------------
# plain DAG generators (node indices in a topological order)
# ------------------------------------------------------------------------------------------------

def gen_dag(rng, n, density=None, dup=0.0):
    """random DAG on 0..n-1, edges (dependency, dependant) with dependency < dependant; shuffled insertion order;
    with probability `dup` an edge is inserted a second time."""
    density = rng.choice([0.1, 0.25, 0.5, 0.9]) if density is None else density
    es = [(a, b) for b in range(n) for a in range(b) if rng.random() < density]
    es += [e for e in es if rng.random() < dup]
    rng.shuffle(es)
    return es


def gen_layered(rng, layers, width, fan=None):
    """layered DAG: every node of layer l+1 depends on `fan` random nodes of layer l (diamond-rich)."""
    fan = rng.randint(1, width) if fan is None else fan
    es = []
    for l in range(layers - 1):
        for j in range(width):
            for i in rng.sample(range(width), min(fan, width)):
                es.append((l * width + i, (l + 1) * width + j))
    rng.shuffle(es)
    return layers * width, es


def star(n, out=True):
    """node 0 with n-1 dependants (out) or n-1 dependencies"""
    return n, [((0, i) if out else (i, 0)) for i in range(1, n)]


BOUNDARY_SIZES = [63, 64, 65, 127, 128, 129, 255, 256, 257, 1023, 1024, 1025]


def ladder(depth):
    es = []
    for l in range(depth):
        es += [(2 * l, 2 * l + 2), (2 * l, 2 * l + 3), (2 * l + 1, 2 * l + 2), (2 * l + 1, 2 * l + 3)]
    return 2 * (depth + 1), es


def chain(n):
    return n, [(i, i + 1) for i in range(n - 1)]


# ------------------------------------------------------------------------------------------------
# reference (model-independent) semantics
# ------------------------------------------------------------------------------------------------

def reach(es, v, forward=True):
    """strict descendants (forward) / ancestors of v as a set"""
    adj = {}
    for a, b in es:
        if forward:
            adj.setdefault(a, set()).add(b)
        else:
            adj.setdefault(b, set()).add(a)
    seen, todo = set(), [v]
    while todo:
        x = todo.pop()
        for y in adj.get(x, ()):
            if y not in seen:
                seen.add(y)
                todo.append(y)
    return seen


def count_paths(es, v, forward=True):
    """number of non-empty paths starting at v (what a path-enumerating traversal returns)"""
    adj = {}
    for a, b in es:
        if forward:
            adj.setdefault(a, []).append(b)
        else:
            adj.setdefault(b, []).append(a)
    memo = {}

    def go(x):
        if x not in memo:
            memo[x] = sum(1 + go(y) for y in adj.get(x, ()))
        return memo[x]
    import sys
    sys.setrecursionlimit(10000)
    return go(v)


def ref_pattern(pat, cur):
    """Reference matcher for the documented pattern spellings (docs/reference/labels.md): returns a predicate
    (pkg, name) -> bool, or None when `pat` is not one of the canonical spellings."""
    if pat.startswith(":"):
        name = pat[1:]
        if not name or ":" in name:
            return None
        c = cur      # the CLI passes "" for the root package (config.GetCurrentPackage), never "."
        return lambda p, n: p == c and (name in ("all", "...") or n == name)
    if not pat.startswith("//"):
        return None
    body = pat[2:]
    tname = None
    if ":" in body:
        body, tname = body.split(":", 1)
        if tname == "" or ":" in tname:
            return None
    if "..." in body:
        if body == "...":
            base = ""
        elif body.endswith("/...") and "..." not in body[:-4] and not body[:-4].endswith("/") and body[:-4] != "":
            base = body[:-4]
        else:
            return None
        pk = (lambda p: True) if base == "" else (lambda p: p == base or p.startswith(base + "/"))
    else:
        if body.endswith("/"):
            return None
        if tname is None:
            if body == "":
                return None
            tname = body.split("/")[-1]
        base = body
        pk = lambda p: p == base
    nm = (lambda n: True) if tname in (None, "all", "...") else (lambda n: n == tname)
    return lambda p, n: pk(p) and nm(n)


def ref_matches_filters(node, preds, tags, exclude, typ):
    """documented filter semantics: aliases by pattern only; targets by type, pattern, tag, exclude-tag"""
    pat_ok = (not preds) or any(f(node["pkg"], node["name"]) for f in preds)
    if not node["target"]:
        return pat_ok
    is_test = node["name"].endswith("test")
    type_ok = {"all": True, "test": is_test, "no_test": not is_test, "bin_output": node["bin"]}[typ]
    tag_ok = (not tags) or any(t in node["tags"] for t in tags)
    ex = any(t in node["tags"] for t in exclude)
    return type_ok and pat_ok and tag_ok and not ex


def ref_platform_ok(node, platform, all_platforms):
    return (not node["target"]) or all_platforms or not node["platforms"] or platform in node["platforms"]


def resolve_alias(nodes, es, i):
    """the target an alias (chain) points to: an alias has exactly one dependency, its `actual`"""
    dep = {}
    for a, b in es:
        dep.setdefault(b, a)
    seen = set()
    while not nodes[i]["target"] and i in dep and i not in seen:
        seen.add(i)
        i = dep[i]
    return i


def ref_node_selected(nodes, es, i, preds, tags, exclude, typ, platform, all_platforms, alias_mode="resolved"):
    """does node i match the invocation?  -> (matches filters, matches platform)
    A target: type, pattern, tag, exclude-tag, platform. An alias ("when you build an alias, grog transparently builds the aliased
    target"): its own label must match the patterns and the target it points to must pass the type / tag / exclude-tag / platform
    filters — otherwise `--exclude-tag=slow //...` would run a `slow` target that merely has an alias.
    alias_mode="pattern-only" is the behaviour of the tree before the fix (an alias matched by pattern alone)."""
    n = nodes[i]
    if n["target"] or alias_mode == "pattern-only":
        return ref_matches_filters(n, preds, tags, exclude, typ), ref_platform_ok(n, platform, all_platforms)
    pat_ok = (not preds) or any(f(n["pkg"], n["name"]) for f in preds)
    t = nodes[resolve_alias(nodes, es, i)]
    if not t["target"]:
        return pat_ok, True
    return pat_ok and ref_matches_filters(t, [], tags, exclude, typ), ref_platform_ok(t, platform, all_platforms)


def ref_select(req, alias_mode="resolved"):
    """-> ('ok', selected set, count, skipped) | ('platform',) | None when a pattern is outside the reference"""
    preds = [ref_pattern(p, req["cur"]) for p in req["patterns"]]
    if any(f is None for f in preds):
        return None
    nodes, es = req["nodes"], [tuple(e) for e in req["edges"]]
    mp = [ref_node_selected(nodes, es, i, preds, req["tags"], req["exclude"], req["type"], req["platform"], req["all_platforms"], alias_mode)
          for i in range(len(nodes))]
    p = [ref_platform_ok(n, req["platform"], req["all_platforms"]) for n in nodes]
    roots = [i for i in range(len(nodes)) if mp[i][0] and mp[i][1]]
    sel = set(roots)
    for r in roots:
        sel |= reach(es, r, forward=False)
    if any(not p[i] for i in sel):
        return ("platform",)
    return ("ok", sel, sum(1 for i in sel if nodes[i]["target"]), sum(1 for i in range(len(nodes)) if mp[i][0] and not mp[i][1]))


def label_str(n):
    return "//" + n["pkg"] + ":" + n["name"]


# ------------------------------------------------------------------------------------------------
# attributed graphs (targets + aliases) and selection requests
# ------------------------------------------------------------------------------------------------

def gen_attr_graph(rng, n=None, alias_p=0.2, plat_p=0.25, pkgs=None):
    """nodes in topological order; aliases have exactly one dependency (their `actual`, possibly an alias or a test)."""
    n = rng.randint(2, 14) if n is None else n
    pkgs = PKGS if pkgs is None else pkgs
    labels = [(p, nm) for p in pkgs for nm in NAMES]
    rng.shuffle(labels)
    labels += [(pkgs[i % len(pkgs)], f"n{i}") for i in range(max(0, n - len(labels)))]     # large graphs
    nodes, es = [], []
    density = rng.choice([0.15, 0.3, 0.6]) if n <= 20 else rng.choice([2.0, 4.0]) / n
    for i in range(n):
        pkg, name = labels[i]
        is_alias = i > 0 and rng.random() < alias_p
        node = {"pkg": pkg, "name": name, "target": not is_alias, "tags": [], "platforms": [], "bin": False}
        if is_alias:
            es.append((rng.randrange(i), i))
        else:
            node["tags"] = [t for t in TAGS if rng.random() < (0.3 if t == "testonly" else 0.15)]
            if rng.random() < plat_p:
                node["platforms"] = rng.sample(PLATFORMS, rng.randint(1, 2))
            node["bin"] = rng.random() < 0.2
            for a in range(i):
                if rng.random() < density:
                    es.append((a, i))
        nodes.append(node)
    rng.shuffle(es)
    return nodes, es


def nested_packages(nodes):
    """packages of the graph that have a sub-package in the graph ("" counts when there is any other package)"""
    have = sorted({n["pkg"] for n in nodes})
    return [p for p in have if any(q != p and (p == "" or q.startswith(p + "/")) for q in have)]


def gen_patterns(rng, nodes):
    """pattern set + current package: absolute, relative (:name, :all, :...), recursive, :all, shorthand, and none (match all).
    The current package is, half of the time, a package of the graph that has sub-packages: relative patterns must stay in it."""
    nested = nested_packages(nodes)
    cur = rng.choice(nested) if nested and rng.random() < 0.5 else rng.choice(PKGS)
    in_cur = [n for n in nodes if n["pkg"] == cur]
    k = rng.choice([0, 1, 1, 1, 2, 3])
    pats = []
    for _ in range(k):
        nd = rng.choice(nodes)
        kind = rng.randrange(13)
        if kind in (4, 5, 9, 10) and in_cur:
            nd = rng.choice(in_cur)
        pkg = nd["pkg"]
        if kind >= 11:
            pats.append("//...:" + nd["name"])      # root-recursive with a name filter: the name must still be honoured
            continue
        if kind >= 9:
            pats.append(":...")
            continue
        if kind == 0:
            pats.append("//" + pkg + ":" + nd["name"])
        elif kind == 1:
            pats.append("//" + pkg + "/..." if pkg else "//...")
        elif kind == 2:
            pats.append("//...")
        elif kind == 3:
            pats.append("//" + pkg + ":all")
        elif kind == 4:
            pats.append(":" + nd["name"])
        elif kind == 5:
            pats.append(":all")
        elif kind == 6:
            pats.append("//" + pkg if pkg else "//:" + nd["name"])          # shorthand //a/b == //a/b:b
        elif kind == 7:
            top = pkg.split("/")[0]
            pats.append("//" + top + "/...:" + nd["name"] if top else "//...:" + nd["name"])
        else:
            pats.append("//" + rng.choice(PKGS) + ":" + rng.choice(NAMES))
    return cur, pats


RELATIVE_FAMILIES = [("a", "a/b", "ab"), ("a/b", "a/b/c", "a"), ("ab", "ab/c", "a"), ("", "a", "b"), ("a", "a/b/c", "a/b")]


def gen_relative_req(rng, n=None):
    """targeted family: one relative pattern (`:...`, `:all`, `:name`) given from a current package that has a sub-package and a
    sibling sharing its string prefix; the pattern must select from the current package only (plus dependencies)."""
    cur, sub, sib = rng.choice(RELATIVE_FAMILIES)
    nodes, es = gen_attr_graph(rng, rng.randint(4, 10) if n is None else n, plat_p=0.1, pkgs=[cur, sub, sib])
    in_cur = [x for x in nodes if x["pkg"] == cur]
    pat = rng.choice([":...", ":...", ":all", ":" + (rng.choice(in_cur)["name"] if in_cur else rng.choice(NAMES))])
    req = {"nodes": nodes, "edges": [list(e) for e in es], "cur": cur, "patterns": [pat], "tags": [], "exclude": [],
           "type": rng.choice(["all", "all", "no_test"]), "platform": PLATFORMS[0], "all_platforms": rng.random() < 0.5}
    order = list(range(len(nodes)))
    rng.shuffle(order)
    req["order"] = order
    return req


def gen_rootname_req(rng, n=None):
    """targeted family: `//...:name` (everything named `name`, in any package), alone and next to other patterns, over graphs in which
    the name occurs in several packages and other names occur too"""
    nodes, es = gen_attr_graph(rng, rng.randint(4, 10) if n is None else n, plat_p=0.1)
    nd = rng.choice(nodes)
    pats = ["//...:" + nd["name"]]
    if rng.random() < 0.5:
        other = rng.choice(nodes)
        pats.append(rng.choice(["//" + other["pkg"] + ":" + other["name"], "//" + other["pkg"] + ":all", ":" + other["name"]]))
        rng.shuffle(pats)
    req = {"nodes": nodes, "edges": [list(e) for e in es], "cur": rng.choice(PKGS), "patterns": pats, "tags": [], "exclude": [],
           "type": rng.choice(["all", "no_test", "test"]), "platform": PLATFORMS[0], "all_platforms": rng.random() < 0.5}
    order = list(range(len(nodes)))
    rng.shuffle(order)
    req["order"] = order
    return req


def gen_select_req(rng, n=None):
    nodes, es = gen_attr_graph(rng, n)
    cur, pats = gen_patterns(rng, nodes)
    req = {"nodes": nodes, "edges": [list(e) for e in es], "cur": cur, "patterns": pats,
           "tags": [t for t in TAGS if rng.random() < 0.08], "exclude": [t for t in TAGS if rng.random() < 0.08],
           "type": rng.choice(TYPES + ["all", "no_test"]), "platform": rng.choice(PLATFORMS[:2] + PLATFORMS[:2] + PLATFORMS[3:]),
           "all_platforms": rng.random() < 0.2}
    order = list(range(len(nodes)))
    rng.shuffle(order)
    req["order"] = order
    return req


# ------------------------------------------------------------------------------------------------
# workspaces on disk + CLI
# ------------------------------------------------------------------------------------------------

def write_workspace(root, nodes, es, inputs=None, commands=None, extra_pkgs=(), outputs=None):
    """BUILD.json per package from an attributed graph. `inputs[i]` = list of package-relative input files
    (created with some content), `commands[i]` = shell command (default `true`)."""
    os.makedirs(root, exist_ok=True)
    open(os.path.join(root, "grog.toml"), "w").close()
    deps = {}
    for a, b in es:
        deps.setdefault(b, []).append(a)
    pkgs = {}
    for i, nd in enumerate(nodes):
        pk = pkgs.setdefault(nd["pkg"], {"targets": [], "aliases": []})
        dl = [label_str(nodes[a]) for a in deps.get(i, [])]
        if nd["target"]:
            t = {"name": nd["name"], "command": (commands or {}).get(i, "true")}
            if dl:
                t["dependencies"] = dl
            if inputs and inputs.get(i):
                t["inputs"] = list(inputs[i])
            if outputs and outputs.get(i):
                t["outputs"] = list(outputs[i])
            if nd["tags"]:
                t["tags"] = nd["tags"]
            if nd["platforms"]:
                t["platforms"] = nd["platforms"]
            if nd["bin"]:
                t["bin_output"] = "bin_" + nd["name"] + ".sh"
                t["command"] = "printf '#!/bin/sh\\n' > bin_" + nd["name"] + ".sh; chmod +x bin_" + nd["name"] + ".sh; " + t["command"]
            pk["targets"].append(t)
        else:
            assert len(dl) == 1
            pk["aliases"].append({"name": nd["name"], "actual": dl[0]})
    for p in extra_pkgs:
        pkgs.setdefault(p, {"targets": [], "aliases": []})
    for p, body in pkgs.items():
        d = os.path.join(root, p)
        os.makedirs(d, exist_ok=True)
        with open(os.path.join(d, "BUILD.json"), "w") as fh:
            json.dump(body, fh, indent=1)
    if inputs:
        for i, files in inputs.items():
            for f in files:
                if any(ch in f for ch in "*?[{"):
                    continue                      # a glob: resolved by grog against the files that exist
                path = os.path.normpath(os.path.join(root, nodes[i]["pkg"], f))     # inputs may be spelled ./x, d/../x, a//b
                os.makedirs(os.path.dirname(path), exist_ok=True)
                if not os.path.exists(path):
                    with open(path, "w") as fh:
                        fh.write("content of " + f + "\n")


INPUT_FILES = ["src.txt", "data/x.txt", "lib.in", "main.c"]


def sub_packages(nodes, pkg):
    """packages of the graph strictly below `pkg`, as paths relative to `pkg`"""
    have = sorted({n["pkg"] for n in nodes})
    return [q if pkg == "" else q[len(pkg) + 1:] for q in have if q != pkg and (pkg == "" or q.startswith(pkg + "/"))]


def respell(rng, f, existing_dir="data"):
    """a non-canonical spelling of the relative path `f` that `filepath.Join` / `filepath.Clean` maps back to `f`:
    leading ./, inner /./, doubled slash, d/../ detour (through a directory that exists, so that shells can follow it too),
    trailing /. ; the path never escapes its package."""
    kind = rng.randrange(7)
    if kind == 6:
        return f + "/."
    if kind == 0:
        return "./" + f
    if kind == 1:
        return existing_dir + "/../" + f
    if kind == 2:
        return f.replace("/", "//", 1) if "/" in f else ".//" + f
    if kind == 3:
        return f.replace("/", "/./", 1) if "/" in f else "././" + f
    if kind == 4:
        d, _, b = f.rpartition("/")
        return (d + "/" if d else "") + existing_dir + "/../" + b if not d.endswith(existing_dir) else "./" + f
    return "./" + existing_dir + "/.././" + f


def gen_input_patterns(rng, nodes, own=(0, 3), reach_p=0.5, files=INPUT_FILES, respell_p=0.3):
    """declared inputs per target: files of its own package directory and — the case grog allows and Bazel does not — paths and globs
    that reach INTO sub-directories that are packages of their own (`sub/file`, `sub/**/*.txt`, `**/*.in`), so that one file is an
    input of targets of several packages."""
    pats = {}
    for i, n in enumerate(nodes):
        if not n["target"]:
            continue
        l = rng.sample(files, rng.randint(*own))
        subs = sub_packages(nodes, n["pkg"])
        if subs and rng.random() < reach_p:
            for _ in range(rng.randint(1, 2)):
                sub = rng.choice(subs)
                kind = rng.randrange(4)
                if kind == 0:
                    l.append(sub + "/" + rng.choice(files))             # explicit path into the sub-package
                elif kind == 1:
                    l.append(sub + "/**/*.txt")
                elif kind == 2:
                    l.append("**/*." + rng.choice(["txt", "in"]))
                else:
                    l.append(sub + "/*." + rng.choice(["txt", "in", "c"]))
        # literal inputs are sometimes written non-canonically in the BUILD file (grog accepts them: only escaping paths are rejected)
        l = [respell(rng, f) if not any(ch in f for ch in "*?[{") and rng.random() < respell_p else f for f in l]
        pats[i] = list(dict.fromkeys(l))
    return pats


def populate_files(root, nodes, files=INPUT_FILES):
    """every package directory gets every file of the pool (so globs have something to resolve and some files have no owner)"""
    for pkg in sorted({n["pkg"] for n in nodes}):
        for f in files:
            path = os.path.join(root, pkg, f)
            os.makedirs(os.path.dirname(path), exist_ok=True)
            if not os.path.exists(path):
                with open(path, "w") as fh:
                    fh.write("content of " + f + "\n")


def _glob_match(pat, rel):
    """reference matcher for the generated glob shapes: `**/` = any number of directories, `*` = within one path component"""
    import fnmatch
    pp, rp = pat.split("/"), rel.split("/")

    def go(i, j):
        if i == len(pp):
            return j == len(rp)
        if pp[i] == "**":
            return any(go(i + 1, k) for k in range(j, len(rp) + 1))
        return j < len(rp) and fnmatch.fnmatchcase(rp[j], pp[i]) and go(i + 1, j + 1)
    return go(0, 0)


def resolve_inputs(root, nodes, patterns):
    """reference resolution of the declared inputs against the files on disk (what the loader does with doublestar, files only):
    -> {i: [package-relative paths]}"""
    res = {}
    for i, pats in patterns.items():
        base = os.path.join(root, nodes[i]["pkg"])
        allfiles = []
        for d, _, fs in os.walk(base):
            for f in fs:
                allfiles.append(os.path.relpath(os.path.join(d, f), base))
        out = []
        for p in pats:
            if any(ch in p for ch in "*?[{"):
                out += sorted(f for f in allfiles if _glob_match(p, f))
            else:
                out.append(p)
        res[i] = out
    return res


def owner_packages(nodes, resolved):
    """workspace-relative file -> set of packages of the targets that have it as an input"""
    m = {}
    for i, fl in resolved.items():
        for f in fl:
            m.setdefault(os.path.normpath(os.path.join(nodes[i]["pkg"], f)), set()).add(nodes[i]["pkg"])
    return m


def grog_env(scratch, platform="linux/amd64", extra=None):
    os_, arch = platform.split("/")
    env = {"PATH": os.environ.get("PATH", "/usr/bin:/bin"), "HOME": os.path.join(scratch, "home"),
           "GROG_ROOT": os.path.join(scratch, "grogroot"), "GROG_OS": os_, "GROG_ARCH": arch,
           "GROG_DISABLE_NON_DETERMINISTIC_LOGGING": "true", "NO_COLOR": "1"}
    os.makedirs(env["HOME"], exist_ok=True)
    if extra:
        env.update(extra)
    return env


def run_grog(grog, args, cwd, env, timeout=60):
    """-> (rc, stdout lines, stderr text, seconds); rc 124 on timeout"""
    t = time.time()
    try:
        p = subprocess.run([grog, *args], cwd=cwd, env=env, capture_output=True, text=True, timeout=timeout)
        rc, out, err = p.returncode, p.stdout, p.stderr
    except subprocess.TimeoutExpired as e:
        rc, out, err = 124, (e.stdout or b"").decode(errors="replace") if isinstance(e.stdout, bytes) else (e.stdout or ""), "TIMEOUT"
    return rc, [l for l in out.splitlines() if l.strip()], err, time.time() - t
