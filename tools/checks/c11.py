"""C11 — invalid build graphs are rejected before anything runs; valid ones are accepted.

Theorem side : GrogModel/Props/C11.lean — `analyze ws ps = accept ↔ Spec.valid ws ps ∧ every test target has a command`
               for all package lists (no size bound), built from DFS soundness/completeness, ancestor-set = reachability,
               lexical path lemmas; `reject_runs_nothing` for the command model.
Correspondence: model.BuildNodeMapFromPackages + analysis.BuildGraph + analysis.CheckTargetConstraints of the current tree
               (in process) vs the compiled Lean `analyze`, exhaustively over all small graphs (targets and aliases, all
               edge sets, all orderings), over a grid of output/input spellings and package nestings, and on random graphs
               up to 40 nodes; filepath.Clean/Join vs the model's `clean`/`join`; dag.FindCycle vs `findCycleG` (exact cycle).
Oracle (no model): a reference validator written from the property text (`reference_defects` below), evaluated on the
               verdicts of the real code; every cycle the real FindCycle reports is checked edge by edge.
CLI tie      : `grog check|build|test|run` on fixed and generated workspaces, pointed at the whole workspace and at
               patterns / tags / directories that select only a valid package next to the defect: invalid loaded
               graph ⇒ exit ≠ 0, a diagnostic, and no command ran (trace file empty); valid ⇒ exit 0.
"""
import itertools, json, os, subprocess

PROPERTY = "C11"
LEVEL = "proof"
LEVEL_TEXT = ("Lean 4 theorems for all graphs (any number of packages, targets, aliases): the model of BuildNodeMapFromPackages → BuildGraph "
              "(edges, self-loop, unknown label, FindCycle, detectOutputConflicts) → CheckTargetConstraints accepts exactly the graphs that are "
              "valid in the sense of the declarative predicate Spec.valid (the property's list of defects), and build/check reach the executor "
              "only after accept; the verdict does not depend on enumeration order; the memo table of the ancestor search never changes an answer. "
              "The model is tied to the code on every run by an exhaustive differential run over all graphs of up to 3 nodes (quick: plus 20000 "
              "sampled 4-node graphs; thorough: all 320000 and 80000 sampled 5-node graphs), a grid of path spellings, random graphs up to 40 nodes, "
              "direct differential runs of filepath.Clean/Join, dag.FindCycle (exact cycle), the unexported path predicates and the memoised "
              "ancestor search, a model-independent reference validator, and grog check / grog build on fixed and generated workspaces.")
LEVEL_NOTE = ("Trusted: Lean kernel; axioms propext/Classical.choice/Quot.sound; the correspondence harness (sampled beyond the exhaustive bound). "
              "Outputs are compared after resolving them from the workspace root (x and ../<rootname>/x are one file); symlinks and escaping parts hidden in glob brace alternatives are outside the model. The command-model theorems (reject_runs_nothing, executes_iff) are statements about runCmd, whose stage order is tied to cmds/*.go only by the CLI matrix. "
              "The groups of the per-tag / per-path maps of detectOutputConflicts are visited in list order by the model (map order in Go); a theorem shows the memo table never changes an answer. Loader-level errors (unparsable labels, "
              "unknown output types) are outside this property (C16). A test target without a command is rejected by the code in the same pass; "
              "the theorem carries that as an explicit extra conjunct.")
TECHNIQUE = "Lean 4 proof over an executable model + exhaustive-small/random differential correspondence with the Go analysis + reference validator"
OBLIGATIONS = [
    "Grog.C11.accepts_iff_valid",
    "Grog.C11.accepts_implies_valid",
    "Grog.C11.valid_implies_accepts",
    "Grog.C11.rejects_iff_defect",
    "Grog.C11.verdict_order_independent",
    "Grog.C11.reject_names_present_defect",
    "Grog.C11.reject_runs_nothing",
    "Grog.C11.executes_iff",
    "Grog.C11.executes_only_after_accept",
    "Grog.C11.all_diagnostics_name_present_defects",
    "Grog.C11.findCycle_sound",
    "Grog.C11.findCycle_complete",
    "Grog.C11.ancestorSet_eq_reach",
    "Grog.C11.ordered_iff",
    "Grog.C11.ancestorCache_transparent",
    "Grog.C11.conflict_iff",
    "Grog.C11.clean_normal_form",
    "Grog.C11.within_iff_prefix",
    "Grog.C11.old_accepts_escaping_dir",
    "Grog.C11.old_rejects_self_overlap",
    "Grog.C11.old_accepts_dot_overlap",
    "Grog.C11.old_accepts_escaping_glob",
    "Grog.C11.old_accepts_reentering_overlap",
    "Grog.C11.resolved_path_spec",
]
ASSUMPTIONS = [
    "workspace root is an absolute path (config.MustFindWorkspaceRoot)",
    "test targets (name ends in 'test') have a command; the code rejects those without one in the same pass, the property does not list it",
    "errors are compared as classes (phase and defect kind), never as text; with several defects present only membership of the reported kind is compared",
]

WS = "/w/s"
KINDS = ["duplicate", "unknown-dep", "self-loop", "cycle", "conflict", "input-escape", "output-escape", "test-dep"]
RANK = {"duplicate": 0, "unknown-dep": 1, "self-loop": 1, "cycle": 2, "conflict": 3}


# ------------------------------------------------------------------------------------------------
# graph construction helpers
# ------------------------------------------------------------------------------------------------

def L(pkg, name):
    return {"pkg": pkg, "name": name}


def parse_out(spec):
    """output spec as the user writes it -> (kind, identifier)"""
    if "::" in spec:
        k, i = spec.split("::", 1)
        return {"k": k, "id": i}
    return {"k": "file", "id": spec}


def T(pkg, name, deps=(), outs=(), inputs=(), testonly=False, cmd=True, bin="", globs=()):
    """inputs: resolved inputs (for a literal input: itself); globs: input patterns with glob characters as the user
    wrote them (the loader keeps them in UnresolvedInputs and puts their matches into Inputs)"""
    return {"pkg": pkg, "name": name, "deps": [dict(d) for d in deps], "inputs": list(inputs), "globs": list(globs),
            "outs": [parse_out(o) for o in outs], "bin": bin, "testonly": testonly, "cmd": cmd}


def A(pkg, name, actual):
    return {"pkg": pkg, "name": name, "actual": dict(actual)}


def graph(nodes, ws=WS, grouping="single"):
    """nodes: list of ('t', T) / ('a', A) in the order the model sees them. Each node goes into its own
    package value unless grouping == 'bypkg' (then nodes of one package path share a value when that creates
    no duplicate key inside the Go maps)."""
    pkgs = []
    if grouping == "bypkg":
        by = {}
        for kind, n in nodes:
            cands = by.setdefault(n["pkg"], [])
            placed = False
            for p in cands:
                key = "targets" if kind == "t" else "aliases"
                if all((m["pkg"], m["name"]) != (n["pkg"], n["name"]) for m in p[key]):
                    p[key].append(n); placed = True; break
            if not placed:
                p = {"targets": [], "aliases": []}
                p["targets" if kind == "t" else "aliases"].append(n)
                cands.append(p); pkgs.append(p)
    else:
        for kind, n in nodes:
            pkgs.append({"targets": [n] if kind == "t" else [], "aliases": [n] if kind == "a" else []})
    req = {"op": "analysis.analyze", "ws": ws, "pkgs": pkgs}
    if os.environ.get("C11_MODEL_CFG") == "old":    # development aid: compare against the model of the tree before the fix: commits
        req["cfg"] = {"skipSelf": False, "checkDirs": False, "dotRoot": False, "checkGlobs": False, "resolve": False}
    return req


def nodes_of(g):
    out = []
    for p in g["pkgs"]:
        out += [("t", t) for t in p["targets"]] + [("a", a) for a in p["aliases"]]
    return out


# ------------------------------------------------------------------------------------------------
# reference validator — written from the property text, independent of the Lean model
# ------------------------------------------------------------------------------------------------

def _norm(parts, rooted):
    """lexical normalisation of a component list: drop '' and '.', let '..' cancel the previous name"""
    out = []
    for c in parts:
        if c in ("", "."):
            continue
        if c == "..":
            if out and out[-1] != "..":
                out.pop()
            elif not rooted:
                out.append("..")
        else:
            out.append(c)
    return out


def _inside(p, d):
    """is path p the directory d or below it? Both are ABSOLUTE normalised component lists (the output resolved from the
    workspace root and its package), so '../<rootname>/x' and 'x' are the same file and no special cases are needed"""
    return p[:len(d)] == d


def reference_defects(g):
    """-> set of defect kinds present in the graph, with detail tags (kind, detail)"""
    nodes = nodes_of(g)
    ws = _norm(g["ws"].split("/"), True)
    lab = lambda n: (n["pkg"], n["name"])
    deps = lambda k, n: [lab(d) for d in n["deps"]] if k == "t" else [lab(n["actual"])]
    defects = set()
    labels = [lab(n) for _, n in nodes]
    if len(set(labels)) != len(labels):
        defects.add(("duplicate", ""))
    edges = {}
    for k, n in nodes:
        edges.setdefault(lab(n), set()).update(deps(k, n))
    for k, n in nodes:
        for d in deps(k, n):
            if d not in edges:
                defects.add(("unknown-dep", ""))
            if d == lab(n):
                defects.add(("self-loop", ""))
    # reachability (one or more dependency steps), through targets and aliases alike
    reach = {}
    for s in edges:
        seen, todo = set(), list(edges[s])
        while todo:
            x = todo.pop()
            if x in seen:
                continue
            seen.add(x)
            todo += list(edges.get(x, ()))
        reach[s] = seen
    if any(s in reach[s] for s in edges):       # a self-reference is a cycle too
        defects.add(("cycle", ""))
    targets = [n for k, n in nodes if k == "t"]
    tmap = {lab(x): (k, x) for k, x in nodes}
    is_test = lambda t: t["name"].endswith("test")
    all_outs = lambda t: t["outs"] + ([{"k": "file", "id": t["bin"]}] if t["bin"] else [])
    opath = lambda t, o: _norm(ws + t["pkg"].split("/") + o["id"].split("/"), True)     # where the output really is
    # overlapping outputs of two different targets that are not ordered by dependency
    for i, t in enumerate(targets):
        for u in targets[i + 1:]:
            if lab(t) == lab(u) or lab(u) in reach.get(lab(t), ()) or lab(t) in reach.get(lab(u), ()):
                continue
            for o in all_outs(t):
                for q in all_outs(u):
                    a, b = (o, q) if o["k"] != "file" else (q, o)      # a: the directory if exactly one is
                    if o["k"] == "docker" or q["k"] == "docker":
                        hit = o["k"] == q["k"] and o["id"] == q["id"]
                        pa = pb = None
                    else:
                        pa, pb = opath(t if a is o else u, a), opath(t if b is o else u, b)
                        if a["k"] == "file":        # both files
                            hit = pa == pb
                        elif b["k"] == "file":      # file inside directory
                            hit = _inside(pb, pa)
                        else:                       # nested directories
                            hit = _inside(pb, pa) or _inside(pa, pb)
                    if hit:
                        dotdir = pa is not None and ((a["k"] == "dir" and pa == ws) or (b["k"] == "dir" and pb == ws)) and pa != pb
                        # does the overlap show only after resolving from the root (a spelling that re-enters the root by name)?
                        ra = _norm((t if a is o else u)["pkg"].split("/") + a["id"].split("/"), False) if pa is not None else None
                        rb = _norm((t if b is o else u)["pkg"].split("/") + b["id"].split("/"), False) if pa is not None else None
                        reenter = pa is not None and ".." in (ra[:1] + rb[:1])
                        defects.add(("conflict", "reenter" if reenter else ("dir-dot" if dotdir else "")))
    for t in targets:
        for i in t["inputs"] + t.get("globs", []):      # a pattern that climbs out of the package escapes it too
            if i.startswith("/") or _norm(i.split("/"), False)[:1] == [".."]:
                defects.add(("input-escape", "glob" if i in t.get("globs", []) and i not in t["inputs"] else ""))
        for o in all_outs(t):
            if o["k"] == "docker":
                continue
            if o["id"].startswith("/") or _norm(ws + t["pkg"].split("/") + o["id"].split("/"), True)[:len(ws)] != ws:
                defects.add(("output-escape", o["k"]))
        for d in t["deps"]:
            cur, hops = lab(d), 0
            while cur in tmap and tmap[cur][0] == "a" and hops <= len(nodes):
                cur, hops = lab(tmap[cur][1]["actual"]), hops + 1
            if cur in tmap and tmap[cur][0] == "t":
                u = tmap[cur][1]
                if (is_test(u) and not is_test(t)) or (u["testonly"] and not t["testonly"] and not is_test(t)):
                    defects.add(("test-dep", ""))
    return defects


def single_target_overlap(g):
    """does some single target declare two outputs that overlap each other?"""
    ws = _norm(g["ws"].split("/"), True)
    for k, t in nodes_of(g):
        if k != "t":
            continue
        outs = t["outs"] + ([{"k": "file", "id": t["bin"]}] if t["bin"] else [])
        for i, o in enumerate(outs):
            for q in outs[i + 1:]:
                if o["k"] == "docker" or q["k"] == "docker":
                    if o["k"] == q["k"] and o["id"] == q["id"]:
                        return True
                    continue
                po = _norm(ws + t["pkg"].split("/") + o["id"].split("/"), True)
                pq = _norm(ws + t["pkg"].split("/") + q["id"].split("/"), True)
                if o["k"] == "file" and q["k"] == "file":
                    if po == pq:
                        return True
                elif o["k"] == "dir" and q["k"] == "dir":
                    if _inside(po, pq) or _inside(pq, po):
                        return True
                else:
                    d, f = (po, pq) if o["k"] == "dir" else (pq, po)
                    if _inside(f, d):
                        return True
    return False


def tests_without_command(g):
    return any(k == "t" and n["name"].endswith("test") and not n["cmd"] for k, n in nodes_of(g))


# ------------------------------------------------------------------------------------------------
# generators
# ------------------------------------------------------------------------------------------------

# output regimes of the exhaustive small graphs: what target n<i> declares. In every regime but 'distinct' ALL targets
# declare overlapping outputs, so a graph is conflict-free only if its targets are totally ordered — with 3 or 4
# declarers of one file / image tag / directory every partial order (forks, joins, chains through aliases) occurs
SMALL_OUT = {"same": lambda i: "x", "distinct": lambda i: "o%d" % i, "docker": lambda i: "docker::img",
             "dir": lambda i: "dir::d" + ("/" if i % 2 else ""), "nest": lambda i: "dir::d" + "/s" * i}


def small_graphs(n, outs_mode, allow_self=True):
    """all graphs with exactly n nodes n0..n{n-1} in the root package: every node a target or an alias, every
    dependency set over the n labels (self included) for targets, every actual for aliases. outs_mode 'same': every
    target writes file x (so acceptance depends on the targets being totally ordered); 'distinct': own file."""
    labels = [L("", "n%d" % i) for i in range(n)]
    choices = []
    for i in range(n):
        opts = []
        for mask in range(1 << n):
            if not allow_self and mask >> i & 1:
                continue
            deps = [labels[j] for j in range(n) if mask >> j & 1]
            opts.append(("t", T("", "n%d" % i, deps, [SMALL_OUT[outs_mode](i)])))
        for j in range(n):
            if allow_self or j != i:
                opts.append(("a", A("", "n%d" % i, labels[j])))
        choices.append(opts)
    for combo in itertools.product(*choices):
        yield list(combo)


SPELLINGS = ["x", "./x", "a/../x", "x/", "dir::d", "dir::d/", "d/x", "../x", "dir::../../x", "dir::x", "dir::.", "d",
             "dir::d/x", "../d/x", "/abs", "dir::/abs", "x//y", "dir::..", "docker::img", "docker::x", "../s/x", "dir::../s",
             "dir::./d/../d", "..x", "dir::x/y/..", "dx", "dir::dx", "d.x", "d/./x", "d//x", "d/x/../x", "../../../x", "../sx", "dir::../sx"]
PKG_PAIRS = [("", ""), ("", "d"), ("d", "d"), ("d", "d/x"), ("a", "a/b"), ("a/b", "a"), ("d", "e")]
INPUT_SPELLINGS = ["a", "../a", "/a", "a/../../b", "..", "./a", "a/..", "..a", "a/../..", "a/./b", "", ".", "a//b", "../../a", "a/b/../../c", "..."]


def spelling_graphs():
    """two targets (and an optional alias between them) × package nestings × output spellings; one target with two outputs"""
    for (p1, p2) in PKG_PAIRS:
        for s1 in SPELLINGS:
            for s2 in SPELLINGS:
                for link in ("none", "dep", "alias"):
                    if link != "none" and SPELLINGS.index(s2) % 3 != SPELLINGS.index(s1) % 3:
                        continue     # ordered pairs: a third of the grid is enough
                    t1 = T(p1, "t1", [], [s1])
                    if link == "none":
                        yield [("t", t1), ("t", T(p2, "t2", [], [s2]))]
                    elif link == "dep":
                        yield [("t", t1), ("t", T(p2, "t2", [L(p1, "t1")], [s2]))]
                    else:
                        yield [("t", t1), ("a", A(p2, "al", L(p1, "t1"))), ("t", T(p2, "t2", [L(p2, "al")], [s2]))]
    for p in ["", "d", "a/b"]:
        for s1 in SPELLINGS:
            for s2 in SPELLINGS:
                yield [("t", T(p, "solo", [], [s1, s2]))]
            yield [("t", T(p, "solo", [], [s1], bin="x"))]
            yield [("t", T(p, "solo", [], [s1])), ("t", T(p, "other", [], [], bin="x"))]


# names that share a string prefix with a directory output but are siblings of it. Every byte below '/' (0x2f) makes
# such a sibling sort BETWEEN the directory and its contents in plain string order (out < out.zip < out/extra.txt)
SIBLING_SUFFIXES = [".zip", "-old", " 2", ".d", "+x", ",v", "!", "#1", "$", "%", "&", "(", ")", "*", ".", "-"]
SIBLING_CONTROL = ["_old", "0", "x", "~", "2/f"]      # bytes above '/', and something really inside


def sibling_graphs():
    """a directory output, something inside it declared by an unordered target, and a sibling name next to the directory
    declared by either of them or by a third target; plus the ordered (valid) controls"""
    for pkg in ("", "pkg"):
        for suf in SIBLING_SUFFIXES + SIBLING_CONTROL:
            for dspell, inner_file, inner_dir in (("dir::out", "out/extra.txt", "dir::out/sub"),
                                                  ("dir::dist/", "dist/x/../assets/f", "dir::./dist/assets/"),
                                                  ("dir::./o/p", "o/p/q/r", "dir::o/p/q")):
                base = dspell[5:].rstrip("/")
                base = base[2:] if base.startswith("./") else base
                sib_f, sib_d = base + suf, "dir::./" + base + suf
                a1 = T(pkg, "owner", [], [dspell, sib_f])
                b1 = T(pkg, "inside", [], [inner_file])
                yield [("t", a1), ("t", b1)]
                yield [("t", b1), ("t", a1)]
                yield [("t", T(pkg, "owner", [], [dspell])), ("t", b1), ("t", T(pkg, "third", [], [sib_f]))]
                yield [("t", T(pkg, "third", [], [sib_d])), ("t", T(pkg, "inside", [], [inner_dir])), ("t", T(pkg, "owner", [], [dspell]))]
                yield [("t", T(pkg, "owner", [], [dspell])), ("t", T(pkg, "inside", [], [inner_file, sib_f]))]
                yield [("t", T(pkg, "owner", [], [sib_d, dspell])), ("t", T(pkg, "inside", [], [sib_f + "/y", inner_dir]))]
                # ordered: valid whatever siblings there are
                yield [("t", a1), ("t", T(pkg, "inside", [L(pkg, "owner")], [inner_file]))]
                yield [("t", T(pkg, "owner", [L(pkg, "al")], [dspell, sib_f])), ("a", A(pkg, "al", L(pkg, "inside"))), ("t", b1)]


GLOB_SPELLINGS = ["*.txt", "**/*.go", "src/*.c", "a/../*.x", "../*.txt", "/abs/*.txt", "src/../../*.c", "../**", "../?.txt", "./../[ab].c",
                  "../{x,y}.h", "sub/**/../../../*.c"]


def fork_graphs():
    """>= 3 declarers of one output with a PARTIAL order: a base that everything depends on (directly, through an alias,
    from nested packages) and two or three variants that are unordered among themselves — invalid; and the same with the
    variants chained — valid. Every output kind; the names are permuted so that the base (the declarer that is ordered
    with all others) comes first, in the middle or last in label order."""
    kinds = {"file": lambda i: "shared.bin", "docker": lambda i: "docker::registry/app:latest", "dir": lambda i: "dir::out",
             "nested": lambda i: "dir::out" + "/v" * i, "file-in-dir": lambda i: "dir::out" if i == 0 else "out/f%d" % (i if i < 2 else 1)}
    for names in itertools.permutations(["aa", "mm", "zz"]):
        for extra in (None, "bb", "zzz"):
            for kname, out in kinds.items():
                for pkgs in (("", "", "", ""), ("p", "p", "p", "p"), ("p", "p/q", "p/q/r", "p/q")):
                    for via_alias in (False, True):
                        def spec(i, pkg):      # the output spelled from package pkg so that it lands in pkgs[0]
                            o = out(i)
                            if o.startswith("docker::"):
                                return o
                            pre, body = ("dir::", o[5:]) if o.startswith("dir::") else ("", o)
                            up = "../" * (len(pkg.split("/")) - len(pkgs[0].split("/"))) if pkg != pkgs[0] else ""
                            return pre + up + body
                        base = ("t", T(pkgs[0], names[0], [], [spec(0, pkgs[0])]))
                        dep = L(pkgs[0], names[0])
                        nodes = [base]
                        if via_alias:
                            nodes.append(("a", A(pkgs[1], "to_base", dep)))
                            dep = L(pkgs[1], "to_base")
                        variants = [names[1], names[2]] + ([extra] if extra else [])
                        for i, vn in enumerate(variants):
                            nodes.append(("t", T(pkgs[1 + i], vn, [dep], [spec(1 + i, pkgs[1 + i])])))
                        yield nodes                                   # fork: the variants race
                        chained = [(k, dict(n)) for k, n in nodes]
                        prev = None
                        for k, n in chained:
                            if k == "t" and n["name"] in variants:
                                if prev is not None:
                                    n["deps"] = n["deps"] + [prev]
                                prev = L(n["pkg"], n["name"])
                        yield chained                                 # chain: valid


def escape_grid():
    """outputs whose escaping `..` is not at the front of the spelling: after `./`, after a normal component that it
    cancels, several levels, from packages of depth 0..3; file, dir:: and bin outputs. With k = depth of the package,
    k ups land in the workspace root (inside), k+1 leave it."""
    for pkg in ["", "a", "a/b", "a/b/c"]:
        depth = len(pkg.split("/")) if pkg else 0
        for prefix in ["", "./", "gen/../", "./gen/../", "g/h/../../", "gen/./../", "gen/sub/../../"]:
            for ups in range(0, depth + 3):
                for tail in ("x", "d/x"):
                    sp = prefix + "../" * ups + tail
                    yield [("t", T(pkg, "t", [], [sp]))]
                    yield [("t", T(pkg, "t", [], ["dir::" + sp]))]
                    yield [("t", T(pkg, "t", [], ["ok.out"], bin=sp))]
                    yield [("t", T(pkg, "t", [], ["ok.out", "dir::okdir", sp + "2"])), ("t", T(pkg, "u", [L(pkg, "t")], ["dir::" + sp]))]


def input_graphs():
    for p in ["", "a", "a/b"]:
        for i in INPUT_SPELLINGS:
            yield [("t", T(p, "t", [], ["o"], inputs=["ok.txt", i]))]
        for g in GLOB_SPELLINGS:
            yield [("t", T(p, "t", [], ["o"], inputs=["ok.txt"], globs=[g]))]
            yield [("t", T(p, "t", [], ["o"], inputs=["ok.txt", "m1.txt"], globs=["*.txt", g]))]


def test_dep_graphs():
    names = ["lib", "lib_test", "test", "testx", "contest"]
    for tn in names:
        for to in (False, True):
            for un in names:
                for uo in (False, True):
                    if tn == un:
                        continue
                    u = T("q", un, [], [], testonly=uo)
                    yield [("t", T("p", tn, [L("q", un)], [], testonly=to)), ("t", u)]
                    yield [("t", T("p", tn, [L("p", "al")], [], testonly=to)), ("a", A("p", "al", L("q", un))), ("t", u)]
                    yield [("t", T("p", tn, [L("p", "al")], [], testonly=to)), ("a", A("p", "al", L("q", "al2"))),
                           ("a", A("q", "al2", L("q", un))), ("t", u)]
    for cmd in (True, False):
        yield [("t", T("p", "a_test", [], [], cmd=cmd))]
        yield [("t", T("p", "a", [], [], cmd=cmd))]


def dup_unknown_graphs():
    t, u = T("p", "x", [], ["o1"]), T("p", "x", [], ["o2"])
    yield [("t", t), ("t", u)]
    yield [("t", t), ("a", A("p", "x", L("p", "y"))), ("t", T("p", "y"))]
    yield [("a", A("p", "x", L("p", "y"))), ("a", A("p", "x", L("p", "y"))), ("t", T("p", "y"))]
    yield [("t", T("p", "x", [L("p", "nope")]))]
    yield [("t", T("p", "x", [L("p", "y"), L("p", "nope")])), ("t", T("p", "y"))]
    yield [("a", A("p", "al", L("p", "nope")))]
    yield [("a", A("p", "al", L("p", "al")))]
    yield [("t", T("p", "x", [L("p", "x")]))]
    yield [("t", T("p", "x", [L("p", "nope"), L("p", "x")]))]
    yield [("t", T("p", "x", [L("p", "x"), L("p", "nope")])), ("t", T("q", "x", [L("q", "x")]))]
    yield [("a", A("p", "a1", L("p", "a2"))), ("a", A("p", "a2", L("p", "a1")))]
    yield [("a", A("p", "a1", L("p", "a2"))), ("a", A("p", "a2", L("p", "t"))), ("t", T("p", "t", [L("p", "a1")]))]
    yield []


def random_graph(rng, maxn=40):
    """layered DAG of targets and aliases, mostly valid, with 0–2 injected defects"""
    n = rng.randint(2, maxn)
    pkgs = ["", "a", "a/b", "c", "c/d/e"]
    nodes = []
    for i in range(n):
        pkg = rng.choice(pkgs)
        earlier = [(k, m) for k, m in nodes]
        if earlier and rng.random() < 0.2:
            k, m = rng.choice(earlier)
            nodes.append(("a", A(pkg, "al%d" % i, L(m["pkg"], m["name"]))))
            continue
        deps = []
        for k, m in earlier:
            if rng.random() < min(0.5, 2.5 / max(1, len(earlier))):
                deps.append(L(m["pkg"], m["name"]))
        outs = []
        r = rng.random()
        if r < 0.5:
            outs.append(rng.choice(["o%d" % i, "./o%d" % i, "gen/../o%d" % i, "sub/o%d" % i]))
        elif r < 0.65:
            outs.append("dir::dd%d" % i + rng.choice(["", "/", "/."]))
        elif r < 0.7:
            outs.append("docker::img%d" % i)
        name = "n%d" % i + ("_test" if rng.random() < 0.1 else "")
        nodes.append(("t", T(pkg, name, deps, outs, inputs=rng.sample(["s.txt", "src/a.c", "./b", "x/../y"], rng.randint(0, 2)))))
    # test targets may only be depended on by tests: repair, so that the base graph is valid
    lab = lambda m: (m["pkg"], m["name"])
    tests = {lab(m) for k, m in nodes if k == "t" and m["name"].endswith("test")}
    resolved = {}
    for k, m in nodes:
        resolved[lab(m)] = lab(m) if k == "t" else resolved.get(lab(m["actual"]))
    for k, m in nodes:
        if k == "t" and lab(m) not in tests:
            m["deps"] = [d for d in m["deps"] if resolved.get(lab(d)) not in tests]
    targets = [m for k, m in nodes if k == "t"]
    for _ in range(rng.choice([0, 0, 1, 1, 2])):
        kind = rng.choice(["back-edge", "same-out", "nested-dir", "file-in-dir", "unknown", "self", "dup", "in-esc", "out-esc",
                           "dir-esc", "test-dep", "docker", "alias-cycle"])
        t = rng.choice(targets)
        u = rng.choice(targets)
        if kind == "back-edge":
            later = nodes[-1][1]
            t["deps"].append(L(later["pkg"], later["name"]))
        elif kind == "same-out":
            t["outs"].append(parse_out("shared.bin")); u["outs"].append(parse_out("../" * u["pkg"].count("/") + ("../" if u["pkg"] else "") + (t["pkg"] + "/" if t["pkg"] else "") + "shared.bin"))
        elif kind == "nested-dir":
            if rng.random() < 0.5:
                rng.choice(targets)["outs"].append(parse_out(rng.choice(["", "dir::"]) + "../" * 0 + "nest" + rng.choice(SIBLING_SUFFIXES)))
            t["outs"].append(parse_out("dir::nest")); u["outs"].append(parse_out("dir::" + "../" * (u["pkg"].count("/") + (1 if u["pkg"] else 0)) + (t["pkg"] + "/" if t["pkg"] else "") + "nest/inner"))
        elif kind == "file-in-dir":
            if rng.random() < 0.5:
                t["outs"].append(parse_out("fd" + rng.choice(SIBLING_SUFFIXES)))
            t["outs"].append(parse_out("dir::fd")); u["outs"].append(parse_out("../" * (u["pkg"].count("/") + (1 if u["pkg"] else 0)) + (t["pkg"] + "/" if t["pkg"] else "") + "fd/f.txt"))
        elif kind == "unknown":
            t["deps"].append(L("zz", "missing"))
        elif kind == "self":
            t["deps"].append(L(t["pkg"], t["name"]))
        elif kind == "dup":
            nodes.append(("t", T(t["pkg"], t["name"], [], ["dupout"])))
        elif kind == "in-esc":
            t["inputs"].append(rng.choice(["../up.txt", "a/../../b", "/etc/passwd", ".."]))
        elif kind == "out-esc":
            t["outs"].append(parse_out(rng.choice(["", "./", "g/../", "g/h/../../"]) + "../" * (t["pkg"].count("/") + 2) + "esc.txt"))
        elif kind == "dir-esc":
            t["outs"].append(parse_out("dir::" + rng.choice(["", "./", "g/../", "g/h/../../"]) + "../" * (t["pkg"].count("/") + 2) + "escdir"))
        elif kind == "test-dep":
            nodes.append(("t", T("c", "zz%d_test" % len(nodes), [], [])))
            t["deps"].append(L("c", nodes[-1][1]["name"]))
        elif kind == "docker":
            t["outs"].append(parse_out("docker::shared-img")); u["outs"].append(parse_out("docker::shared-img"))
        elif kind == "alias-cycle":
            i = len(nodes)
            nodes.append(("a", A("c", "cy%d" % i, L("c", "cy%d" % (i + 1)))))
            nodes.append(("a", A("c", "cy%d" % (i + 1), L("c", "cy%d" % i))))
    rng.shuffle(nodes)
    return nodes


# ------------------------------------------------------------------------------------------------
# comparison
# ------------------------------------------------------------------------------------------------

def verdict_class(v):
    """what must agree between model and implementation: accept / phase (and sub-phase) / for the constraint pass the
    multiset of kinds"""
    if v.get("verdict") == "accept":
        return ("accept",)
    if v.get("verdict") != "reject":
        return ("error", json.dumps(v, sort_keys=True)[:200])
    ph = v.get("phase")
    if ph == "constraints":
        return ("reject", ph, tuple(sorted(v.get("kinds", []))))
    if ph == "graph":
        k = (v.get("kinds") or ["?"])[0]
        return ("reject", ph, RANK.get(k, k))
    return ("reject", ph)


def sig_of(g, impl, ref):
    """signature of a property-violating verdict of the real code"""
    refk = sorted({k for k, _ in ref})
    if impl.get("verdict") == "accept":
        tags = []
        for k, d in sorted(ref):
            tags.append(k + (":" + d if d else ""))
        # the most specific classes first
        if refk == ["output-escape"] and all(d == "dir" for k, d in ref):
            return "accepted:directory-output-outside-workspace"
        if refk == ["input-escape"] and all(d == "glob" for k, d in ref):
            return "accepted:input-glob-pattern-outside-package"
        if refk == ["conflict"] and all(d == "reenter" for k, d in ref):
            return "accepted:overlap-of-outputs-spelled-through-the-workspace-root-name"
        if refk == ["conflict"] and all(d == "dir-dot" for k, d in ref):
            return "accepted:overlap-with-directory-output-dot"
        return "accepted:" + ",".join(sorted(set(tags)))
    kinds = sorted(set(impl.get("kinds", [])))
    if kinds == ["conflict"] and single_target_overlap(g):
        return "rejected-valid:conflict-of-a-target-with-itself"
    return "rejected-valid:" + ",".join(kinds)


def run(ctx):
    quick = ctx.tier == "quick"
    rng = ctx.rng
    cov = ctx.coverage
    families = {}

    def add(fam, nodes, ws=WS, grouping="single"):
        families.setdefault(fam, []).append(graph(nodes, ws, grouping))

    # --- exhaustive small graphs ------------------------------------------------------------------
    for n in (1, 2, 3):
        for mode in ("same", "distinct"):
            for nodes in small_graphs(n, mode):
                add("small%d" % n, nodes)
                if n <= 3 and mode == "same":
                    for perm in list(itertools.permutations(nodes))[1:]:
                        add("small%d-perm" % n, list(perm))
    for mode in ("docker", "dir", "nest"):
        for nodes in small_graphs(3, mode):
            add("small3-" + mode, nodes)
    for mode in ("docker", "dir"):
        for nodes in small_graphs(4, mode, allow_self=False):
            add("small4-noself-" + mode, nodes)
    for nodes in fork_graphs():
        add("fork", nodes)
    for nodes in escape_grid():
        add("escape-grid", nodes)
    four = list(small_graphs(4, "same")) + list(small_graphs(4, "distinct"))
    if quick:
        four = rng.sample(four, 20000)
    for nodes in four:
        add("small4", nodes)
    # all 4-node graphs without self-reference (these get past the edge loop: cycles, orderedness, conflicts)
    for mode in ("same", "distinct"):
        for nodes in small_graphs(4, mode, allow_self=False):
            add("small4-noself", nodes)
    if not quick:
        # 5 nodes: a sample of the (32+5)^5 graphs per output regime
        for mode in ("same", "distinct"):
            labels5 = [L("", "n%d" % i) for i in range(5)]
            for _ in range(40000):
                nodes = []
                for i in range(5):
                    if rng.random() < 0.25:
                        nodes.append(("a", A("", "n%d" % i, rng.choice(labels5))))
                    else:
                        mask = rng.randrange(32) & rng.randrange(32)
                        nodes.append(("t", T("", "n%d" % i, [labels5[j] for j in range(5) if mask >> j & 1],
                                             ["x" if mode == "same" else "o%d" % i])))
                rng.shuffle(nodes)
                add("small5", nodes)
        for nodes in rng.sample(four, 4000):
            perms = list(itertools.permutations(nodes))
            for perm in rng.sample(perms[1:], 5):
                add("small4-perm", list(perm))
    # --- spellings, inputs, test rules, duplicates / unknown labels ----------------------------------
    for nodes in spelling_graphs():
        add("spelling", nodes)
        if not quick:
            add("spelling", list(reversed(nodes)), grouping="bypkg")
    for ws in (["/w/s", "/"] if quick else ["/w/s", "/", "/w/s/", "/w/../w/s", "/s"]):
        for nodes in input_graphs():
            add("input", nodes, ws)
        for s in SPELLINGS:
            for p in ["", "d", "a/b", "s", "w/s"]:
                add("ws", [("t", T(p, "t", [], [s]))], ws)
    for nodes in sibling_graphs():
        add("sibling", nodes)
    for nodes in test_dep_graphs():
        add("testdep", nodes)
        add("testdep", list(reversed(nodes)), grouping="bypkg")
    for nodes in dup_unknown_graphs():
        add("dup-unknown", nodes)
        add("dup-unknown", list(reversed(nodes)))
    # --- boundary sizes: long paths, many components, many outputs, long chains, wide fan-in ---------------------------
    for k in (1, 2, 63, 64, 65, 127, 128, 129, 255, 256, 257, 1023, 1024, 1025):
        deep = "c/" * k + "f"
        longname = "n" * k
        updown = "u/" * k + "../" * k + "f"            # cleans to f
        up_one_more = "u/" * k + "../" * (k + 1) + "f"  # cleans to ../f: escapes from the root package, stays inside from p
        for pkg in ("", "p"):
            add("boundary", [("t", T(pkg, "a", [], [deep])), ("t", T(pkg, "b", [], ["dir::" + "c/" * (k - 1) + "c"]))])   # file inside dir
            add("boundary", [("t", T(pkg, "a", [], [deep])), ("t", T(pkg, "b", [], ["dir::" + "c/" * (k - 1) + "cc"]))])  # sibling: no overlap
            add("boundary", [("t", T(pkg, "a", [], [longname])), ("t", T(pkg, "b", [], [longname + "/../" + longname]))])   # same file
            add("boundary", [("t", T(pkg, "a", [], [longname])), ("t", T(pkg, "b", [], [longname + "x"]))])
            add("boundary", [("t", T(pkg, "a", [], ["f"])), ("t", T(pkg, "b", [], [updown]))])
            add("boundary", [("t", T(pkg, "a", [], [up_one_more], inputs=[updown, up_one_more]))])
        if k >= 63 and (k <= 257 or not quick):
            # k outputs on one target, the last one clashing with another target; k inputs
            outs = ["o%d" % i for i in range(k - 1)] + ["clash"]
            add("boundary", [("t", T("", "many", [], outs, inputs=["i%d" % i for i in range(k)])), ("t", T("", "other", [], ["./clash"]))])
            add("boundary", [("t", T("", "many", [], outs)), ("t", T("", "other", [L("", "many")], ["./clash"]))])
            douts = ["dir::dd%d" % i for i in range(k - 1)] + ["dir::clashd"]
            add("boundary", [("t", T("", "manyd", [], douts)), ("t", T("", "other", [], ["clashd/f"]))])
            add("boundary", [("t", T("", "manyd", [], douts)), ("t", T("", "other", [], ["dir::clashd/sub"]))])
            add("boundary", [("t", T("", "manyi", [], ["docker::im%d" % i for i in range(k - 1)] + ["docker::clash"])),
                             ("t", T("q", "other", [], ["docker::clash"]))])
            # k targets, only the last two clash
            add("boundary", [("t", T("", "w%d" % i, [], ["wo%d" % min(i, k - 2)])) for i in range(k)])
            # chain of k nodes (every third an alias); both ends write the same file: ordered only through the whole chain
            chain = [("t", T("", "c0", [], ["same"]))]
            for i in range(1, k):
                prev = L("", "c%d" % (i - 1))
                chain.append(("a", A("", "c%d" % i, prev)) if i % 3 == 1 and i < k - 1 else
                             ("t", T("", "c%d" % i, [prev], ["same"] if i == k - 1 else ["o%d" % i])))
            add("boundary", list(reversed(chain)))
            broken = [(kk, dict(nn)) for kk, nn in chain]
            mid = k // 2
            if broken[mid][0] == "t":
                broken[mid][1]["deps"] = []
            else:
                broken[mid] = ("t", T("", "c%d" % mid, [], ["o%d" % mid]))
            add("boundary", broken)                                     # chain cut in the middle: the ends now conflict
            add("boundary", [(kk, (dict(nn, deps=[L("", "c%d" % (k - 1))]) if nn["name"] == "c0" else nn)) for kk, nn in chain])  # cycle of length k
            # fan-in: one target depending on k others
            leaves = [("t", T("", "l%d" % i, [], ["lo%d" % i])) for i in range(k)]
            add("boundary", leaves + [("t", T("", "top", [L("", "l%d" % i) for i in range(k)], ["lo0"]))])
    # --- the same graph under several enumeration orders: the verdict class must not move (map iteration order) ----------------
    shuffle_groups = []
    for i in range(300 if quick else 3000):
        nodes = random_graph(rng, 14)
        grp = []
        for _ in range(3):
            perm = list(nodes)
            rng.shuffle(perm)
            families.setdefault("shuffle", []).append(graph(perm, grouping=rng.choice(["single", "bypkg"])))
            grp.append(len(families["shuffle"]) - 1)
        shuffle_groups.append(grp)
    # --- random graphs -----------------------------------------------------------------------------
    for i in range(1500 if quick else 6000):
        add("random", random_graph(rng, 40 if i % 4 else 12), grouping=rng.choice(["single", "bypkg"]))

    reqs, fam_of = [], []
    for fam, gs in families.items():
        reqs += gs
        fam_of += [fam] * len(gs)
    cov["rule"] = ("all graphs of 1..3 nodes, all 29282 4-node graphs without self-reference (quick: plus 20000 sampled of the 320000 with 4 nodes; thorough: all, and 80000 sampled 5-node graphs) — every node a target or an "
                   "alias, every dependency set incl. self-reference, two output regimes (all targets write one file / distinct files), all "
                   "orderings of the node list for <= 3 nodes; a grid of %d output spellings x %d package nestings x {unordered, dependency, "
                   "dependency through an alias} and single targets with two outputs; %d input spellings; workspace roots; test/testonly "
                   "dependency rules directly and through alias chains; duplicate / undefined labels; random layered graphs up to 40 nodes "
                   "with 0-2 injected defects. non-trivial = graph with at least one dependency edge or output"
                   % (len(SPELLINGS), len(PKG_PAIRS), len(INPUT_SPELLINGS)))
    cov["families"] = {f: len(gs) for f, gs in families.items()}

    # --- run both sides --------------------------------------------------------------------------------
    impl_out, model_out = [], []
    chunk = 20000
    for i in range(0, len(reqs), chunk):
        a = ctx.impl(reqs[i:i + chunk])
        if a is None:
            return
        impl_out += a
        model_out += ctx.model(reqs[i:i + chunk])
    cov["evaluations"] = len(reqs)
    cov["traces_validated_against_impl"] = len(reqs)

    # --- oracle on the real code -------------------------------------------------------------------------
    kinds_seen, accepted, nontrivial, oracle_fail, other_msgs = {}, 0, set(), 0, 0
    sizes, ref_kinds, alias_graphs, multi_defect = {}, {}, 0, 0
    bad = []
    for g, fam, x, y in zip(reqs, fam_of, impl_out, model_out):
        if "error" in x or "panic" in x:
            ctx.violation("analysis crashed or harness error", {"kind": "impl-crash", "request": g, "impl": x}, signature="impl-crash")
            continue
        ns = nodes_of(g)
        if any((k == "t" and (n["deps"] or n["outs"] or n["bin"])) or k == "a" for k, n in ns):
            nontrivial.add(json.dumps(g["pkgs"], sort_keys=True))
        ref = reference_defects(g)
        refk = {k for k, _ in ref}
        b = "%d" % len(ns) if len(ns) <= 5 else ("6-10" if len(ns) <= 10 else ("11-20" if len(ns) <= 20 else "21-40+"))
        sizes[b] = sizes.get(b, 0) + 1
        alias_graphs += any(k == "a" for k, _ in ns)
        multi_defect += len(refk) > 1
        for k in refk or {"none"}:
            ref_kinds[k] = ref_kinds.get(k, 0) + 1
        acc = x.get("verdict") == "accept"
        accepted += acc
        for k in x.get("kinds", []) if not acc else ["accept"]:
            kinds_seen[k] = kinds_seen.get(k, 0) + 1
        if "other" in x.get("kinds", []):
            other_msgs += 1
        no_cmd = tests_without_command(g)
        if acc and ref:
            oracle_fail += 1
            ctx.violation("graph with a listed defect is accepted: " + ", ".join(sorted(k + (":" + d if d else "") for k, d in ref)),
                          {"kind": "oracle", "oracle": "reference validator", "family": fam, "request": g, "impl": x,
                           "reference_defects": sorted(map(list, ref))}, signature=sig_of(g, x, ref))
        elif not acc and not ref and not no_cmd:
            oracle_fail += 1
            ctx.violation("graph free of the listed defects is rejected: " + "; ".join(x.get("msgs", []))[:300],
                          {"kind": "oracle", "oracle": "reference validator", "family": fam, "request": g, "impl": x,
                           "reference_defects": []}, signature=sig_of(g, x, ref))
        elif not acc and ref:
            # the reported kind must be one of the defects present
            rep = set(x.get("kinds", [])) - {"other", "test-no-command"}
            if not rep <= refk:
                oracle_fail += 1
                ctx.violation("rejected, but the reported defect is not present in the graph: " + ",".join(sorted(rep - refk)),
                              {"kind": "oracle", "oracle": "reference validator (reported kind)", "family": fam, "request": g, "impl": x,
                               "reference_defects": sorted(map(list, ref))}, signature="reported-kind-not-present:" + ",".join(sorted(rep - refk)))
        if verdict_class(x) != verdict_class(y) and "other" not in x.get("kinds", []):
            bad.append((g, fam, x, y))
        elif x.get("verdict") == "reject" and x.get("phase") == "graph" and y.get("verdict") == "reject":
            # same sub-phase; the model's kind must be present too (it may differ from Go's under map order)
            if not set(y.get("kinds", [])) <= refk:
                bad.append((g, fam, x, y))
    cov["distinct_nontrivial"] = len(nontrivial)
    cov["accepted"] = accepted
    cov["rejected"] = len(reqs) - accepted
    cov["impl_verdict_kinds"] = kinds_seen
    cov["unclassified_messages"] = other_msgs
    cov["graph_sizes_nodes"] = sizes
    cov["graphs_with_aliases"] = alias_graphs
    cov["graphs_with_several_defect_kinds"] = multi_defect
    cov["reference_defect_kinds"] = ref_kinds
    cov["oracle_failures"] = oracle_fail
    for fam in ("small3", "spelling", "random", "testdep"):
        for g, f, x in zip(reqs, fam_of, impl_out):
            if f == fam and x.get("verdict") == "reject":
                ctx.sample({"family": fam, "request": {"ws": g["ws"], "pkgs": g["pkgs"]}, "impl": {k: v for k, v in x.items() if k != "msgs"}}, limit=8)
                break

    # --- enumeration-order oracle (on the implementation's own answers) ------------------------------------------------------------
    base_idx = 0
    for fam, gs in families.items():
        if fam == "shuffle":
            break
        base_idx += len(gs)
    order_fail = 0
    for grp in shuffle_groups:
        classes = {verdict_class(impl_out[base_idx + i]) for i in grp}
        if len(classes) > 1:
            order_fail += 1
            ctx.violation("the verdict for one graph depends on the order in which its targets are enumerated",
                          {"kind": "oracle", "oracle": "enumeration order", "request": reqs[base_idx + grp[0]],
                           "verdicts": [impl_out[base_idx + i] for i in grp]}, signature="verdict-depends-on-enumeration-order")
    cov["shuffle_groups"] = len(shuffle_groups)
    cov["order_dependence_failures"] = order_fail

    # --- paths: filepath.Clean / Join vs model ----------------------------------------------------------------
    preqs = []
    alpha = "a./"
    for n in range(0, 8 if quick else 10):
        for t in itertools.product(alpha, repeat=n):
            preqs.append({"op": "paths.clean", "p": "".join(t)})
    pieces = ["a", "b", "..", ".", "", "c.d", "...", "..a", "a..", "\x00", "é"]
    for _ in range(3000 if quick else 30000):
        k = rng.randint(1, 7)
        s = "/".join(rng.choice(pieces) for _ in range(k))
        if rng.random() < 0.3:
            s = "/" + s
        preqs.append({"op": "paths.clean", "p": s})
        preqs.append({"op": "paths.join", "elems": [rng.choice(["", "a", "a/b", "/w", "..", "a/"]), rng.choice(["", "x", "/x", "../y", "./z/", ".."]), s][:rng.randint(1, 3)]})
    pbad = ctx.diff(preqs)
    if pbad is None:
        return
    cov["path_cases"] = len(preqs)

    # --- FindCycle: exact cycle vs model, and every reported cycle checked edge by edge ---------------------------
    creqs = []
    for _ in range(4000 if quick else 20000):
        n = rng.randint(1, 9)
        labs = [L(rng.choice(["", "p"]), "v%d" % i) for i in range(n)]
        rng.shuffle(labs)
        es = []
        dens = rng.choice([0.1, 0.2, 0.35])
        for a in range(n):
            for b in range(n):
                if a != b and rng.random() < dens and (a < b or rng.random() < 0.25):
                    es.append([labs[a], labs[b]])
        rng.shuffle(es)
        creqs.append({"op": "analysis.findcycle", "nodes": labs, "edges": es})
    ca = ctx.impl(creqs)
    cb = ctx.model(creqs)
    cbad, cyc_found = [], 0
    for r, x, y in zip(creqs, ca, cb):
        if vlib_canon(x) != vlib_canon(y):
            cbad.append((r, x, y))
        eset = {(e[0]["pkg"], e[0]["name"], e[1]["pkg"], e[1]["name"]) for e in r["edges"]}
        cyc = x.get("cycle")
        if cyc:
            cyc_found += 1
            ok = len(cyc) >= 2 and cyc[0] == cyc[-1] and all((a["pkg"], a["name"], b["pkg"], b["name"]) in eset for a, b in zip(cyc, cyc[1:]))
            if not ok:
                ctx.violation("FindCycle reported a cycle that is not a cycle of the graph", {"kind": "oracle", "oracle": "cycle check", "request": r, "impl": x},
                              signature="reported-cycle-is-not-a-cycle")
        else:
            # acyclic according to the code: Kahn's algorithm must consume every node
            indeg = {(l["pkg"], l["name"]): 0 for l in r["nodes"]}
            for e in eset:
                indeg[(e[2], e[3])] += 0
            adj = {}
            for e in r["edges"]:
                adj.setdefault((e[0]["pkg"], e[0]["name"]), []).append((e[1]["pkg"], e[1]["name"]))
                indeg[(e[1]["pkg"], e[1]["name"])] += 1
            todo = [v for v, d in indeg.items() if d == 0]
            done = 0
            while todo:
                v = todo.pop(); done += 1
                for w in adj.get(v, []):
                    indeg[w] -= 1
                    if indeg[w] == 0:
                        todo.append(w)
            if done != len(indeg):
                ctx.violation("FindCycle found no cycle in a cyclic graph", {"kind": "oracle", "oracle": "cycle check", "request": r, "impl": x},
                              signature="cycle-missed")
    cov["findcycle_cases"] = len(creqs)
    cov["findcycle_cycles_reported"] = cyc_found
    cov["evaluations"] += len(creqs)

    # --- unexported path functions and the (memoised) ancestor search, called directly through an overlay export ----
    freqs = []
    short = ["".join(t) for n in range(0, 5 if quick else 6) for t in itertools.product("a./", repeat=n)]
    cleaned = sorted({r["r"] for r in ctx.impl([{"op": "paths.clean", "p": x} for x in short]) or []})
    for a in cleaned:
        for b in cleaned:
            freqs.append({"op": "analysis.pathfn", "fn": "within", "p": a, "d": b})
            freqs.append({"op": "analysis.pathfn", "fn": "overlap", "p": a, "d": b})
    for a in rng.sample(short, 60):
        for b in rng.sample(short, 60):
            freqs.append({"op": "analysis.pathfn", "fn": "within", "p": a, "d": b})
    for x in ["".join(t) for n in range(0, 8 if quick else 9) for t in itertools.product("a./", repeat=n)]:
        freqs.append({"op": "analysis.pathfn", "fn": "escape", "p": x})
    for ws in ["/", "/w", "/w/s", "/w/s/", "/w//s", "/w/../s", "/w/./s", "/a"]:
        for pkg in ["", "a", "a/b", "..", "s", "w/s", "/abs", "a/"]:
            for rel in short[:364] + ["../s/x", "../../w/s/x", "../../../w/s", "a/../../..", "../a/x"]:
                freqs.append({"op": "analysis.pathfn", "fn": "withinws", "ws": ws, "pkg": pkg, "rel": rel})
    for pkg in ["", "a", "a/b", "a/", "/r", "..", "."]:
        for out in short:
            freqs.append({"op": "analysis.pathfn", "fn": "cleanout", "pkg": pkg, "out": out})
    for ws in ["/", "/w", "/w/s", "/w/s/", "/w/../s"]:
        for pkg in ["", "a", "a/b", "s", "..", "/r"]:
            for out in short[:364] + ["../s/x", "../../w/s/x", "../../../w/s", "../a/x", "/x", "/../x"]:
                freqs.append({"op": "analysis.pathfn", "fn": "resolveout", "ws": ws, "pkg": pkg, "out": out})
    absclean = sorted({"/" + c for c in cleaned if not c.startswith("/") and not c.startswith("..") and c != "."} | {"/"})
    for a in absclean:
        for b in absclean:
            freqs.append({"op": "analysis.pathfn", "fn": "within", "p": a, "d": b})
    cov["pathfn_cases"] = len(freqs)
    areqs = []
    for _ in range(2000 if quick else 8000):
        n = rng.randint(1, 9)
        labs = [L(rng.choice(["", "p"]), "v%d" % i) for i in range(n)]
        cyclic = rng.random() < 0.15
        nodes = []
        for i in range(n):
            deps = [labs[j] for j in range(n) if j != i and (j < i or cyclic) and rng.random() < rng.choice([0.15, 0.3, 0.5])]
            rng.shuffle(deps)
            nodes.append({"label": labs[i], "deps": deps})
        rng.shuffle(nodes)
        qs = [rng.choice(labs) for _ in range(rng.randint(1, 2 * n))]
        areqs.append({"op": "analysis.ancestors", "nodes": nodes, "queries": qs})
        areqs.append({"op": "analysis.ordered", "nodes": nodes, "pairs": [[rng.choice(labs), rng.choice(labs)] for _ in range(rng.randint(1, 3 * n))]})
    canon_sets = lambda r: {"sets": [sorted({(l["pkg"], l["name"]) for l in set_}) for set_ in r["sets"]]} if "sets" in r else r
    cov["ancestor_cases"] = len(areqs)
    # these unexported functions are reached through an in-package test file of the overlay (go test), so that a
    # refactoring which removes one of them costs only this sub-tie
    fbad, abad, direct_broken = [], [], None
    dreqs = freqs + areqs
    d = ctx.scratch("direct")
    reqf, outf = os.path.join(d, "req.jsonl"), os.path.join(d, "out.jsonl")
    with open(reqf, "w") as fh:
        for r in dreqs:
            fh.write(json.dumps(r, ensure_ascii=True) + "\n")
    import vlib
    rc, tout = vlib.go_test("./internal/analysis/", "TestVerifC11Direct$", env_extra={"C11_REQ": reqf, "C11_OUT": outf})
    dimpl = [json.loads(l) for l in open(outf).read().split("\n") if l.strip()] if os.path.exists(outf) else []
    if rc != 0 or len(dimpl) != len(dreqs):
        direct_broken = tout[-3000:]
    else:
        dmodel = ctx.model(dreqs)
        for r, x, y in zip(dreqs, dimpl, dmodel):
            if vlib_canon(canon_sets(x)) != vlib_canon(canon_sets(y)):
                (fbad if r["op"] == "analysis.pathfn" else abad).append((r, x, y))
        cov["evaluations"] += len(dreqs)

    # --- CLI: reject => nothing ran ---------------------------------------------------------------------------------
    cli_smoke(ctx, quick)

    # --- correspondence verdict -----------------------------------------------------------------------------------------
    cov["disagreements"] = len(bad) + len(pbad) + len(cbad) + len(fbad) + len(abad)
    if not ctx.violations:
        if bad:
            g, fam, x, y = min(bad, key=lambda t: len(json.dumps(t[0])))
            ctx.violation("model and implementation disagree (correspondence analyze)",
                          {"kind": "correspondence", "correspondence": "BuildNodeMapFromPackages+BuildGraph+CheckTargetConstraints vs GrogModel.Analysis.analyze",
                           "family": fam, "request": g, "impl": x, "model": y, "n_disagreements": len(bad)}, found_input=False)
        if pbad:
            r, x, y = min(pbad, key=lambda t: len(json.dumps(t[0])))
            ctx.violation("model and implementation disagree (correspondence filepath.Clean/Join)",
                          {"kind": "correspondence", "correspondence": "filepath.Clean/Join vs GrogModel.Paths", "request": r, "impl": x, "model": y,
                           "n_disagreements": len(pbad)}, found_input=False)
        if direct_broken is not None:
            ctx.harness_broken("the in-package harness for pathWithin/pathsOverlap/pathTriesToEscape/isWithinWorkspace/cleanOutputPath/"
                               "getAncestorSet/targetsAreOrdered does not build or run against the current tree", direct_broken)
        if fbad:
            r, x, y = min(fbad, key=lambda t: len(json.dumps(t[0])))
            ctx.violation("model and implementation disagree (correspondence path functions of the analysis package)",
                          {"kind": "correspondence", "correspondence": "pathWithin/pathsOverlap/pathTriesToEscape/isWithinWorkspace/cleanOutputPath vs GrogModel.Paths",
                           "request": r, "impl": x, "model": y, "n_disagreements": len(fbad)}, found_input=False)
        if abad:
            r, x, y = min(abad, key=lambda t: len(json.dumps(t[0])))
            ctx.violation("model and implementation disagree (correspondence ancestor sets / ordered test)",
                          {"kind": "correspondence", "correspondence": "getAncestorSet/targetsAreOrdered (shared memo table) vs GrogModel.Analysis.ancestors/ordered",
                           "request": r, "impl": x, "model": y, "n_disagreements": len(abad)}, found_input=False)
        if cbad:
            r, x, y = min(cbad, key=lambda t: len(json.dumps(t[0])))
            ctx.violation("model and implementation disagree (correspondence FindCycle)",
                          {"kind": "correspondence", "correspondence": "dag.FindCycle vs GrogModel.Analysis.findCycleG", "request": r, "impl": x, "model": y,
                           "n_disagreements": len(cbad)}, found_input=False)


def vlib_canon(x):
    return json.dumps(x, sort_keys=True)


# ------------------------------------------------------------------------------------------------
# CLI-level tie
# ------------------------------------------------------------------------------------------------

def write_workspace(root, nodes, trace, files=None):
    """materialise a graph as BUILD.json files (or the file named in `files`, parallel to `nodes`; BUILD.yaml takes
    the same JSON text); every command appends its label to the trace file; declared plain inputs are created"""
    os.makedirs(root, exist_ok=True)
    open(os.path.join(root, "grog.toml"), "w").write("")
    by = {}
    for idx, (k, n) in enumerate(nodes):
        key = (n["pkg"], files[idx] if files else "BUILD.json")
        by.setdefault(key, {"targets": [], "aliases": []})
        lab = lambda d: "//%s:%s" % (d["pkg"], d["name"])
        if k == "t":
            outs = [(o["id"] if o["k"] == "file" else o["k"] + "::" + o["id"]) for o in n["outs"]]
            cmds = ["echo '%s' >> %s" % (lab(n), trace)]
            for o in n["outs"]:
                if o["k"] == "file":
                    cmds.append("mkdir -p \"$(dirname '%s')\" && echo data > '%s'" % (o["id"], o["id"]))
                elif o["k"] == "dir":
                    cmds.append("mkdir -p '%s' && echo data > '%s/f'" % (o["id"], o["id"]))
            if n["bin"]:
                cmds.append("mkdir -p \"$(dirname '%s')\" && printf '#!/bin/sh\\necho \"BIN %s\" >> %s\\n' > '%s' && chmod +x '%s'"
                            % (n["bin"], lab(n), trace, n["bin"], n["bin"]))
            t = {"name": n["name"], "command": " && ".join(cmds), "dependencies": [lab(d) for d in n["deps"]],
                 "inputs": n["inputs"] + n.get("globs", []), "outputs": outs}
            if n["bin"]:
                t["bin_output"] = n["bin"]
            tags = (["testonly"] if n["testonly"] else []) + list(n.get("tags", []))
            if tags:
                t["tags"] = tags
            by[key]["targets"].append(t)
        else:
            by[key]["aliases"].append({"name": n["name"], "actual": lab(n["actual"])})
    for (pkg, fname), body in by.items():
        d = os.path.join(root, pkg)
        os.makedirs(d, exist_ok=True)
        json.dump(body, open(os.path.join(d, fname), "w"), indent=1)
    for k, n in nodes:          # declared plain inputs inside the workspace exist (package directories come first)
        for i in (n["inputs"] if k == "t" else []):
            ip = os.path.normpath(os.path.join(root, n["pkg"], i))
            if i and not i.startswith("/") and ip.startswith(root + os.sep) and not os.path.exists(ip):
                try:
                    os.makedirs(os.path.dirname(ip), exist_ok=True)
                    open(ip, "w").write("input\n")
                except OSError:
                    pass


CLI_CASES = [
    ("valid-chain", [("t", T("", "a", [], ["a.out"])), ("a", A("p", "al", L("", "a"))), ("t", T("p", "b", [L("p", "al")], ["b.out", "dir::dd"]))], True),
    ("valid-same-file-ordered", [("t", T("", "a", [], ["x"])), ("t", T("", "b", [L("", "a")], ["./x"]))], True),
    ("unknown-dep", [("t", T("", "a", [L("", "missing")], ["a.out"]))], False),
    ("self-loop", [("t", T("", "a", [L("", "a")], ["a.out"]))], False),
    ("cycle-through-alias", [("t", T("", "a", [L("", "al")], ["a.out"])), ("a", A("", "al", L("", "b"))), ("t", T("", "b", [L("", "a")], ["b.out"]))], False),
    ("duplicate-target-alias", [("t", T("p", "x", [], ["o"])), ("a", A("p", "x", L("p", "y"))), ("t", T("p", "y"))], False),
    ("same-file", [("t", T("", "a", [], ["gen/x"])), ("t", T("gen", "b", [], ["./x"]))], False),
    ("nested-dirs", [("t", T("", "a", [], ["dir::d"])), ("t", T("d", "b", [], ["dir::e/"]))], False),
    ("file-in-dir", [("t", T("", "a", [], ["dir::d"])), ("t", T("", "b", [], ["d/sub/f"]))], False),
    ("same-image", [("t", T("", "a", [], ["docker::img"])), ("t", T("p", "b", [], ["docker::img"]))], False),
    ("input-escape", [("t", T("p", "a", [], ["o"], inputs=["../secret"]))], False),
    ("glob-input-escape", [("t", T("p", "a", [], ["o"], inputs=["ok.txt"], globs=["../*.txt"]))], False),
    ("glob-input-absolute", [("t", T("p", "a", [], ["o"], globs=["/etc/*.conf"]))], False),
    ("glob-input-inside", [("t", T("p", "a", [], ["o"], inputs=["ok.txt"], globs=["*.txt", "sub/../*.md"]))], True),
    ("output-escape", [("t", T("", "a", [], ["../o"]))], False),
    ("dir-output-escape", [("t", T("p", "a", [], ["dir::../../escaped_dir"]))], False),
    ("test-dep", [("t", T("", "lib", [L("", "x_test")], ["o"])), ("t", T("", "x_test"))], False),
    ("testonly-dep-via-alias", [("t", T("", "lib", [L("", "al")], ["o"])), ("a", A("", "al", L("", "helper"))), ("t", T("", "helper", testonly=True))], False),
    # defects sitting in targets that `grog build //...` does not select (tests) or `grog test //...` does not (non-tests)
    ("output-escape-in-test-target", [("t", T("bad", "lib", [], ["lib.out"])), ("t", T("bad", "lib_test", [L("bad", "lib")], ["../../report.xml"]))], False),
    ("dir-escape-in-test-target", [("t", T("bad", "lib_test", [], ["dir::../../reports"]))], False),
    ("input-escape-in-test-target", [("t", T("bad", "lib_test", [], [], inputs=["../other/secret.txt"]))], False),
    ("input-escape-abs", [("t", T("bad", "lib", [], ["o"], inputs=["/etc/hostname"]))], False),
    ("nontest-to-alias-to-test", [("t", T("bad", "release", [L("bad", "smoke_alias")], [])), ("a", A("bad", "smoke_alias", L("bad", "smoke_test"))),
                                  ("t", T("bad", "smoke_test", [], []))], False),
    ("conflict-between-tests", [("t", T("bad", "a_test", [], ["report.xml"])), ("t", T("bad", "b_test", [], ["./report.xml"]))], False),
    ("cycle-among-tests", [("t", T("bad", "a_test", [L("bad", "b_test")], [])), ("t", T("bad", "b_test", [L("bad", "a_test")], []))], False),
    # the m4 shape: a sibling whose name sorts between a directory and its contents ('.', '-', ' ' < '/')
    ("file-in-dir-with-sibling", [("t", T("pkg", "report", [], ["dir::out", "out.zip"])), ("t", T("pkg", "extra", [], ["out/extra.txt"]))], False),
    ("nested-dirs-with-sibling", [("t", T("pkg", "site", [], ["dir::dist/"])), ("t", T("pkg", "old", [], ["dir::./dist-old"])),
                                  ("t", T("pkg", "assets", [], ["dir::dist/x/../assets"]))], False),
    # the escaping `..` hidden behind `./` or a component it cancels, from a nested package, all three output kinds
    ("inner-dotdot-file-escape", [("t", T("a/b", "t", [], ["gen/../../../x"]))], False),
    ("inner-dotdot-dir-escape", [("t", T("a/b", "t", [], ["dir::./../../../dir"]))], False),
    ("inner-dotdot-bin-escape", [("t", T("a/b", "t", [], ["ok.out"], bin="./gen/../../../../tool"))], False),
    ("inner-dotdot-stays-inside", [("t", T("a/b", "t", [], ["gen/../../x", "dir::./../../dd"]))], True),
    # three declarers of one image tag / file / directory: the base is ordered with both variants, the variants race
    ("docker-fork-base-first", [("t", T("", "aa", [], ["docker::img"])), ("t", T("", "mm", [L("", "aa")], ["docker::img"])),
                                ("t", T("p", "zz", [L("", "aa")], ["docker::img"]))], False),
    ("docker-fork-via-alias", [("t", T("", "base", [], ["docker::img"])), ("a", A("p", "al", L("", "base"))),
                               ("t", T("p", "v1", [L("p", "al")], ["docker::img"])), ("t", T("p/q", "v2", [L("p", "al")], ["docker::img"]))], False),
    ("file-fork-base-first", [("t", T("", "aa", [], ["shared"])), ("t", T("", "mm", [L("", "aa")], ["./shared"])),
                              ("t", T("p", "zz", [L("", "aa")], ["../shared"]))], False),
    # one package defined by two build files (merged by the loader)
    ("two-files-valid", [("t", T("p", "a", [], ["a.out"])), ("t", T("p", "b", [L("p", "a")], ["b.out"]))], True, ["BUILD.json", "BUILD.yaml"]),
    ("dup-target-two-files", [("t", T("p", "x", [], ["o1"])), ("t", T("p", "x", [], ["o2"]))], False, ["BUILD.json", "BUILD.yaml"]),
    ("dup-target-alias-two-files", [("t", T("p", "x", [], ["o1"])), ("a", A("p", "x", L("p", "y"))), ("t", T("p", "y"))], False,
     ["BUILD.json", "BUILD.yaml", "BUILD.yaml"]),
    ("dup-alias-two-files", [("a", A("p", "x", L("p", "y"))), ("a", A("p", "x", L("p", "y"))), ("t", T("p", "y"))], False,
     ["BUILD.json", "BUILD.yaml", "BUILD.yaml"]),
]


GOOD_PKG = "zzgood"


def good_nodes():
    """a valid package added next to the defective part: a target with a binary output and a test depending on it"""
    return [("t", dict(T(GOOD_PKG, "app", [], ["app.out"], inputs=["src.txt"], bin="app.bin"), tags=["sel"])),
            ("t", dict(T(GOOD_PKG, "app_test", [L(GOOD_PKG, "app")], [], inputs=["src.txt"]), tags=["sel"]))]


# every way the commands that execute something are pointed at the workspace: the whole workspace, and patterns that
# select only the valid package (the defect is then outside the dependency closure of the request)
# (a leading "@dir" runs the command from that directory of the workspace)
WHOLE_CMDS = [("check",), ("build", "//..."), ("test", "//...")]
INVALID_CMDS = WHOLE_CMDS + [("build", "//%s/..." % GOOD_PKG), ("build", "//%s:app" % GOOD_PKG),
                             ("test", "//%s/..." % GOOD_PKG), ("run", "//%s:app" % GOOD_PKG),
                             ("build", "--tag=sel", "//..."), ("test", "--tag=sel", "//..."),
                             ("@" + GOOD_PKG, "build", ":app"), ("@" + GOOD_PKG, "build"), ("@" + GOOD_PKG, "check")]


# on a VALID workspace: requests that the stages after the analysis must stop (command model `afterAccept` / label lookup
# of `run`): nothing selected, a pattern without tests under `test`, `run` of a target without binary output or of an
# undefined label — exit != 0 and nothing ran
LATER_STAGE_CMDS = [("build", "//nosuchpkg/..."), ("test", "//p/..."), ("run", "//p:a"), ("run", "//p:nosuch"), ("build", "--tag=nosuchtag", "//...")]


def cli_smoke(ctx, quick):
    """`grog check|build|test|run` on materialised workspaces. Invalid loaded graph (wherever the defect sits, whatever
    is selected) => exit != 0, a diagnostic, and no command ran; valid => exit 0."""
    from concurrent.futures import ThreadPoolExecutor
    grog = ctx.grog_binary()
    if not grog:
        return
    cov = ctx.coverage
    base = ctx.scratch("cli")
    env = dict(os.environ, HOME=os.path.join(base, "home"), GROG_ROOT=os.path.join(base, "home", ".grog"), NO_COLOR="1")
    os.makedirs(env["HOME"], exist_ok=True)
    cases = [(c[0], c[1], c[3] if len(c) > 3 else None) for c in CLI_CASES]
    cases.append(("valid-with-good-package", [("t", T("p", "a", [], ["a.out"]))] + good_nodes(), None))
    # generated workspaces: sampled from the in-process families (no docker outputs, no empty path strings)
    pool = [n for n in spelling_graphs()] + [n for n in input_graphs()] + [n for n in test_dep_graphs()] + \
           [random_graph(ctx.rng, 10) for _ in range(200)] + list(small_graphs(3, "same")) + list(sibling_graphs())
    pool = [n for n in pool if n and all(
        (k == "a") or (all(o["k"] != "docker" and o["id"] not in ("", "/") and "//" not in o["id"] for o in m["outs"]) and all(i not in ("",) for i in m["inputs"]) and m["cmd"])
        for k, m in n)]
    for i, nodes in enumerate(ctx.rng.sample(pool, 24 if quick else 200)):
        cases.append(("gen%d" % i, nodes, None))
    jobs = []
    for name, nodes, files in cases:
        probe = os.path.join(base, name + "-0")
        valid = not reference_defects(graph(nodes, ws=probe))          # the validator is told a real workspace root
        has_good = any(n["pkg"] == GOOD_PKG for _, n in nodes)
        if not valid and not has_good and not files:
            nodes = list(nodes) + good_nodes()                           # defects are monotone: still invalid
        if valid:
            cmds = list(INVALID_CMDS) + LATER_STAGE_CMDS if has_good else [("check",)] + ([("build", "//...")] if not name.startswith("gen") else [])
        else:
            cmds = INVALID_CMDS if not files else [("check",), ("build", "//..."), ("test", "//...")]
        for j, cmd in enumerate(cmds):
            ws = os.path.join(base, "%s-%d" % (name, j))
            assert (not reference_defects(graph(nodes, ws=ws))) == valid, name
            jobs.append((name, nodes, files, valid, cmd, ws))

    def run_job(job):
        name, nodes, files, valid, cmd, ws = job
        trace = os.path.join(ws, "trace.log")
        write_workspace(ws, nodes, trace, files)
        try:
            cwd, args = (os.path.join(ws, cmd[0][1:]), list(cmd[1:])) if cmd[0].startswith("@") else (ws, list(cmd))
            p = subprocess.run([grog] + args, cwd=cwd, env=env, capture_output=True, text=True, timeout=120)
            rc, out = p.returncode, (p.stdout + p.stderr)[-1500:]
        except subprocess.TimeoutExpired:
            rc, out = 124, "timeout"
        ran = open(trace).read().split("\n")[:-1] if os.path.exists(trace) else []
        return rc, out, ran

    with ThreadPoolExecutor(4) as ex:
        results = list(ex.map(run_job, jobs))
    res, per_cmd = {}, {}
    for (name, nodes, files, valid, cmd, ws), (rc, out, ran) in zip(jobs, results):
        cs = " ".join(cmd)
        res[name + "/" + cs] = {"rc": rc, "ran": len(ran)}
        verb = [a for a in cmd if not a.startswith("@")][0]
        per_cmd[verb] = per_cmd.get(verb, 0) + 1
        ok_now = rc == 0
        partial = cmd not in WHOLE_CMDS
        replay = {"kind": "oracle", "oracle": "CLI", "case": name, "command": cs, "nodes": nodes, "rc": rc, "ran": ran, "output": out,
                  "selects_only_the_valid_package": partial}
        tag = name + (":" + verb + "-valid-part-only" if partial else "")
        if valid and cmd in LATER_STAGE_CMDS:
            if ok_now or ran:
                ctx.violation("grog %s on a valid workspace should stop before executing (nothing selected / no binary)" % cs, replay,
                              found_input=False)
            continue
        if valid and not ok_now:
            ctx.violation("grog %s fails on a valid workspace" % cs, replay, signature="cli-rejected-valid:" + tag)
        if not valid and ok_now:
            sig = "accepted:directory-output-outside-workspace" if name == "dir-output-escape" and not partial else "cli-accepted-invalid:" + tag
            ctx.violation("grog %s succeeds although the loaded graph is invalid" % cs, replay, signature=sig)
        if not valid and not ok_now and not out.strip():
            ctx.violation("grog %s failed on an invalid workspace without any diagnostic" % cs, replay, signature="cli-no-diagnostic:" + tag)
        if not valid and ran:
            ctx.violation("grog %s ran commands although the loaded graph is invalid" % cs, replay, signature="cli-ran-on-invalid:" + tag)
        if verb == "check" and ran:
            ctx.violation("grog check ran commands", replay, signature="cli-check-ran")
        if valid and cmd == ("build", "//...") and ok_now and not name.startswith("gen") and \
                sorted(ran) != sorted("//%s:%s" % (n["pkg"], n["name"]) for k, n in nodes if k == "t" and not n["name"].endswith("test")):
            ctx.violation("grog build //... on a valid workspace did not run every non-test target once", replay, found_input=False)
    cov["cli"] = res
    cov["cli_invocations_by_command"] = per_cmd
    cov["cli_workspaces"] = len(cases)
    cov["evaluations"] += len(res)


def replay(ctx, rep):
    r = rep.get("request")
    if rep.get("oracle") == "CLI":
        print("CLI case", rep.get("case"), rep.get("command"), "rc", rep.get("rc"), "ran", rep.get("ran"))
        print(rep.get("output", ""))
        return 0
    if not r:
        print("nothing to replay in this file (see 'kind')")
        return 0
    x = ctx.impl([r])[0]
    y = ctx.model([r])[0]
    print("impl :", x)
    print("model:", y)
    if r.get("op") == "analysis.analyze":
        ref = reference_defects(r)
        print("reference defects:", sorted(ref))
        acc = x.get("verdict") == "accept"
        if (acc and ref) or (not acc and not ref and not tests_without_command(r)):
            print("REPRODUCED: the implementation's verdict contradicts the reference validator")
            return 1
        if not acc and ref and not (set(x.get("kinds", [])) - {"other", "test-no-command"}) <= {k for k, _ in ref}:
            print("REPRODUCED: the reported defect kind is not present in the graph")
            return 1
        print("not reproduced on the current tree")
    return 0
