"""C02 — only invalidated targets re-execute; a no-op rebuild runs nothing; early cut-off.

Theorem side : GrogModel/Props/C02.lean.
Correspondence: executed multiset / exit class / bytes per build of generated histories (with tampering of output paths
               between builds, both load_outputs modes, both hash algorithms) — real CLI vs `build.simulate`.
Oracles (no model): (1) the build repeated immediately executes nothing (except no-cache targets);
               (2) between two successful full builds, executed ⊆ touched ∪ descendants(touched) ∪ tainted ∪ no-cache;
               (3) a fingerprint-only edit of t (outputs reproduce) executes exactly t (early cut-off);
               (4) the CLI summary `N targets completed (M cache hits)` agrees with the trace.
"""
import os
from checks import _hist as H
from checks import _hist2 as H2

PROPERTY = "C02"
LEVEL = "proof"
LEVEL_TEXT = ("Lean 4 theorems for all workspaces/histories of the model: a command runs only if there is no result for the current "
              "key, the stored outputs cannot be restored, the cache is disabled, or the target is tainted / no-cache / has a failing "
              "check; under WF an immediate rebuild executes nothing whatever sits at the output paths; a target whose key-state is "
              "unchanged and whose result is restorable is not executed (re-execution subset, early cut-off). Without the "
              "inputs/outputs disjointness of WF the no-op clause is false (Lean witness = open finding F-globout). Tied to the code by "
              "history correspondence against the real CLI and model-independent executed-set oracles.")
LEVEL_NOTE = ("noop_rebuild is proved as noop_rebuild_partial under WF; the full statement is refuted by globout_witness (open known "
              "finding). 'Irrespective of timing / checkout location' is by construction of the model (no such field in the key-state) "
              "and only sampled on the real side. F-mkdir family (parent directory of a cached file output deleted) is excluded from the "
              "generators until repaired by agent stores. executes_only_if / unchanged_not_executed / reexec_subset are per step and mode "
              "all; both modes execute the same commands by C15.same_verdict_and_execs_holds (lock step, fuel sufficiency "
              "Build.fuel_ok). reexec_subset_history takes a set D closed under dependants, one order well-formed for the old and the new "
              "definitions, Plain (cache enabled, no no-cache target) and one edit between two builds; early cut-off at history level is "
              "the per-step early_cutoff plus the sampled oracle (3); the downstream set is tied to the query in ComposeQuery "
              "(reexec_downstream). restore_total / key_location_free are facts about the model's shape (no such input to the decision "
              "/ no such field in the key-state); the Go side is sampled (families tamper, dirs, relocate). Non-empty instances: "
              "Compose.ex_noop_rebuild (two targets, real key).")
TECHNIQUE = "Lean 4 proof over an executable model + history correspondence with the real CLI + executed-set oracles"
OBLIGATIONS = [
    "Grog.C02.executes_only_if",
    "Grog.C02.unchanged_not_executed",
    "Grog.C02.noop_rebuild_partial",
    "Grog.C02.restore_total",
    "Grog.C02.dir_restore_total",
    "Grog.C02.reexec_subset",
    "Grog.C02.reexec_subset_history",
    "Grog.C02.early_cutoff",
    "Grog.C02.key_location_free",
    "Grog.C02.globout_witness",
    "Grog.Compose.noop_rebuildK",
    "Grog.Compose.noop_rebuild_real",
    "Grog.Compose.ex_noop_rebuild",
]
PROP_MODULES = ["GrogModel.Props.C02", "GrogModel.Props.ComposeBuild"]
ASSUMPTIONS = [
    "cache key injective on key-states (C09); restore exact and total from every prior destination state (C06)",
    "WF: declared output paths pairwise distinct, resolved inputs and check files disjoint from declared outputs",
    "parent-directory deletion of cached file outputs (F-mkdir) and lost blobs of directory outputs (F-errchan) are not generated",
]

FAMILIES_QUICK = [("edits", 6, {}), ("tamper", 6, {}), ("dirs", 6, {}), ("cutoff", 3, {}), ("alias", 3, {}), ("nocache", 3, {}),
                  ("taintedit", 4, {}), ("relocate", 4, {}), ("disabled", 4, {}), ("samehash", 4, {}), ("edits", 3, {"minimal": True}),
                  ("wipe", 3, {}), ("wipe", 3, {"minimal": True})]
FAMILIES_THOROUGH = [(f, n * 15, kw) for f, n, kw in FAMILIES_QUICK]

# round-c families (generators in _hist2.py): (generator, histories in the quick tier, keyword arguments)
FAMILIES2_QUICK = [("sametext", 4, {}), ("sametext", 1, {"minimal": True}), ("samestamp", 4, {}), ("samestamp", 1, {"minimal": True}),
                   ("swapdep", 3, {}), ("swapdep", 1, {"minimal": True}), ("swapraw", 1, {}), ("swapraw", 1, {"minimal": True}),
                   # round d (appended, so that the histories of the families above stay what they were)
                   ("taintfail2", 2, {}), ("taintfail2", 1, {"minimal": True}), ("taintfail", 2, {}), ("spell", 3, {}), ("spell", 1, {"minimal": True}),
                   ("bincut", 2, {}), ("bincut", 1, {"minimal": True})]
GEN2 = {"sametext": H2.gen_sametext, "samestamp": H2.gen_samestamp, "swapdep": H2.gen_swapdep, "swapraw": H2.gen_swapraw,
        "taintfail2": H2.gen_taintfail2, "taintfail": lambda rng, **kw: H.gen_history(rng, "taintfail", full=True, **kw),
        "spell": H2.gen_spell, "bincut": H2.gen_bincut}

SIG_GLOBOUT = "noop-rebuild-executes:input-glob-matches-dependency-output"


def run(ctx):
    quick = ctx.tier == "quick"
    fams = FAMILIES_QUICK if quick else FAMILIES_THOROUGH
    hists = []
    if os.environ.get("VERIF_DEV_ONLY_NEW"):
        fams = []       # development only: run just the round-c families
    for fam, n, kw in fams:
        for _ in range(n):
            h = H.gen_history(ctx.rng, fam, full=True, **kw)
            last = [s for s in h["steps"] if s["k"] == "build"][-1]
            h["steps"].append(dict(last))             # the no-op rebuild
            if kw.get("minimal"):
                h["tags"].append("minimal")
            hists.append(h)
    for _ in range(2 if quick else 10):
        hists.append(H.gen_globout(ctx.rng))
    for fam, n, kw in FAMILIES2_QUICK:
        for _ in range(n if quick else n * 15):
            hists.append(H2.add_noop(GEN2[fam](ctx.rng, **kw)))
    ctx.coverage["rule"] = ("layered DAGs of 2-6 targets; every build selects //...; histories of edits / tampering with output paths "
                            "(delete, modify, delete directory output) / fingerprint-only edits, each followed by a build, the last build "
                            "repeated; families: " + ", ".join("%s%s x%d" % (f, "(minimal)" if kw.get("minimal") else "", n) for f, n, kw in fams) +
                            " + glob-matches-dependency-output; taintedit = taint + edit of the tainted target + no-op rebuild, relocate = the workspace moved to "
                            "another absolute path with its cache directory renamed along, dirs = directory outputs with a symlink tampered in place; round-c families: "
                            + ", ".join("%s%s x%d" % (f, "(minimal)" if kw.get("minimal") else "", n) for f, n, kw in FAMILIES2_QUICK) +
                            " (round d: taintfail2 / taintfail = a tainted target whose forced run fails, for a reason outside its key or after an edit, then the cause is removed; "
                            "spell = file outputs declared as ./x, d//x, d/./x; bincut = a tool with only a bin_output / a library re-executed with byte-identical outputs, "
                            "dependants must be cut off; sametext = output checks with identical text in different packages / with different environment_variables, the condition of some "
                            "destroyed; samestamp = every file carries the same mtime after every edit, most edits keep the file length; swapdep/swapraw = two or three "
                            "outputs of one target exchange their contents, with dependants); non-trivial = distinct history with >=2 builds, one executing and one with a hit")
    recs = H.run_both(ctx, hists, "c02")
    if recs is None:
        return
    st = H.stats(recs)
    ctx.coverage.update({k: v for k, v in st.items() if k != "distinct_nontrivial"})
    ctx.coverage["evaluations"] = st["builds"]
    ctx.coverage["distinct_nontrivial"] = st["distinct_nontrivial"]
    ctx.coverage["traces_validated_against_impl"] = sum(1 for r in recs if r["model"] is not None)
    for r in recs[:2] + recs[-1:]:
        ctx.sample(H.sample_of(r))
    cnt = {"noop_checked": 0, "subset_checked": 0, "cutoff_checked": 0, "summary_checked": 0, "oracle_failures": 0,
           "unbuilt_state_histories": 0, "failing_prechecks": 0}
    for r in recs:
        h = r["hist"]
        # a target that a successful build did not execute was executed before in exactly its current state (own definition,
        # input contents, bytes of the declared outputs of its direct dependencies): "restored only if the dependency reproduced
        # identical outputs", "an edit re-executes the edited targets and their dependants"
        cnt["unbuilt_state_histories"] += 1
        for f in H2.unbuilt_state_hits(h, r["real"])[:1]:
            cnt["oracle_failures"] += 1
            small = H.truncate(h, f["build"] + 1)
            ctx.violation("a target was served from the cache in a state in which it was never executed: " + f["why"],
                          {"kind": "oracle", "oracle": "not executed => executed earlier in exactly this state (definition, input contents, dependency outputs)",
                           "history": small, "described": H.describe(small), "build": f["build"], "target": f["target"], "why": f["why"]},
                          signature="restored-in-a-state-never-built")
        # a tainted target stays distrusted until it has been executed successfully (a failed forced run does not consume the taint)
        for f in H2.pending_taint_misses(h, r["real"])[:1]:
            cnt["oracle_failures"] += 1
            small = H.truncate(h, f["build"] + 1)
            ctx.violation("a target that was tainted and has not been executed successfully since was served from the cache",
                          {"kind": "oracle", "oracle": "executed set = predicted set (tainted and not yet successfully re-executed => executed)",
                           "history": small, "described": H.describe(small), "build": f["build"], "target": f["target"]},
                          signature="tainted-target-not-executed-after-failed-run")
        # early cut-off / no-op on the families whose dependencies reproduce byte-identical outputs (bin-only tools, respelled outputs)
        if set(h.get("tags", [])) & {"bincut", "spell"}:
            cnt["rebuilt_state_histories"] = cnt.get("rebuilt_state_histories", 0) + 1
            for f in H2.rebuilt_state_executions(h, r["real"])[:1]:
                cnt["oracle_failures"] += 1
                small = H.truncate(h, f["build"] + 1)
                ctx.violation("a target was executed although the previous build left a result for exactly its current state in the cache "
                              "(own state unchanged, every dependency reproduced byte-identical outputs): no early cut-off / no-op",
                              {"kind": "oracle", "oracle": "same own state and byte-identical dependency outputs as in the previous successful build => restored",
                               "history": small, "described": H.describe(small), "build": f["build"], "target": f["target"]},
                              signature="reexecuted-in-a-state-just-built")
        seen = {}           # label -> set of (own state, dependency labels) the target has been built in
        for b in H.walk(h, r["real"]):
            o, ws, prev = b["obs"], b["ws"], b["prev"]
            s = b["step"]
            # a dependency was only added or only removed (own definition and inputs unchanged): the list of dependency output
            # hashes in the key gets longer / shorter, so the key is new and the target must run (unless this exact state was built before)
            for l in H.selected(ws, s["patterns"]):
                cur_pair = (H.state_key(ws, l), tuple(H.rdeps(ws, l)))
                if prev is not None and prev["obs"]["ok"] and o["ok"] and l in prev["ws"]["targets"] and s.get("enable_cache", True) \
                        and not ws["targets"][l].get("nocache"):
                    old_pair = (H.state_key(prev["ws"], l), tuple(H.rdeps(prev["ws"], l)))
                    a, c = set(old_pair[1]), set(cur_pair[1])
                    # (dependencies with equal output hashes are interchangeable, so "new" is judged by the NUMBER of dependencies:
                    #  a number never built with this own state means a list of hashes of a new length)
                    counts = {len(dl) for st, dl in seen.get(l, set()) if st == cur_pair[0]}
                    if old_pair[0] == cur_pair[0] and a != c and (a < c or c < a) and counts and len(c) not in counts \
                            and l not in o["executed"]:
                        cnt["oracle_failures"] += 1
                        small = H.truncate(h, b["n"] + 1)
                        ctx.violation("a dependency was added to / removed from a target but the target was served from the cache (its key did not change)",
                                      {"kind": "oracle", "oracle": "dependency list changed => key changes", "history": small,
                                       "described": H.describe(small), "target": l, "before": list(old_pair[1]), "after": list(cur_pair[1]),
                                       "executed": o["executed"]}, signature="dependency-added-or-removed-not-executed")
                if o["ok"]:
                    seen.setdefault(l, set()).add(cur_pair)
            nocache = {l for l, t in ws["targets"].items() if t.get("nocache")}
            sel = set(H.selected(ws, s["patterns"]))
            # (4) summary numbers
            nums = H.summary_numbers(o["log"])
            if o["ok"] and nums and not s.get("minimal"):
                cnt["summary_checked"] += 1
                if nums[0] != len(sel) or nums[1] != len(sel) - len(set(o["executed"])):
                    cnt["oracle_failures"] += 1
                    ctx.violation("CLI summary disagrees with the commands actually executed",
                                  {"kind": "oracle", "oracle": "summary numbers", "history": H.truncate(h, b["n"] + 1),
                                   "summary": nums, "selected": len(sel), "executed": o["executed"]}, signature="summary-disagrees-with-trace")
            if prev is None or not prev["obs"]["ok"] or not s.get("enable_cache", True) or not prev["step"].get("enable_cache", True):
                continue
            if prev["step"]["patterns"] != s["patterns"]:
                continue
            ex = set(o["executed"])
            tainted = {l for l in ws["targets"] if any(H.pattern_matches(p, l) for p in b["taints_since"])}
            real_edits = [e for e in b["edits_since"]]
            tch = set()
            for wa, wb, _, _ in real_edits:
                tch |= H.touched(wa, wb)
            failing = H2.failing_prechecks(ws, o["pre"])
            allowed = H.descendants(ws, tch) | tainted | nocache | failing
            # a failing output check forces execution (documented rule; the checks of the generated targets look at files of their own)
            if o["ok"]:
                for l in sorted(failing & sel):
                    cnt["failing_prechecks"] += 1
                    if l not in ex:
                        cnt["oracle_failures"] += 1
                        ctx.violation("an output check of a target failed right before the build but the target was not executed",
                                      {"kind": "oracle", "oracle": "executed set = predicted set (failing output check => executed)",
                                       "history": H.truncate(h, b["n"] + 1), "described": H.describe(H.truncate(h, b["n"] + 1)), "build": b["n"],
                                       "target": l, "executed": sorted(ex)}, signature="failing-check-not-executed")
            # a no-cache target's dependants are not invalidated (outputs reproduce): only the target itself
            cnt["subset_checked"] += 1
            extra = ex - allowed
            if extra:
                cnt["oracle_failures"] += 1
                noop = not real_edits and not tainted and not failing
                sig = "executes-uninvalidated-target"
                if "globout" in h.get("tags", []):
                    sig = SIG_GLOBOUT
                elif noop:
                    sig = "noop-rebuild-executes"
                ctx.violation("a build executed a target that was neither edited, nor downstream of an edit, nor tainted / no-cache",
                              {"kind": "oracle", "oracle": "re-execution subset / no-op rebuild", "history": H.truncate(h, b["n"] + 1),
                               "described": H.describe(H.truncate(h, b["n"] + 1)), "build": b["n"], "executed": sorted(ex),
                               "allowed": sorted(allowed), "unexpected": sorted(extra)}, signature=sig)
            if not real_edits and not tainted and not failing:
                cnt["noop_checked"] += 1
            # (3) early cut-off: only fingerprints changed since the previous build
            if real_edits and all(w.startswith("fingerprint of ") for _, _, w, _ in real_edits) and not tainted:
                cnt["cutoff_checked"] += 1
                # a target without outputs exposes its own change hash: its dependants are legitimately invalidated
                outless = {l for l in tch if not ws["targets"][l]["outs"]}
                if o["ok"] and not ex <= (tch | nocache | H.descendants(ws, outless)):
                    cnt["oracle_failures"] += 1
                    ctx.violation("a dependant of a target that reproduced identical outputs was executed instead of restored (no early cut-off)",
                                  {"kind": "oracle", "oracle": "early cut-off", "history": H.truncate(h, b["n"] + 1),
                                   "described": H.describe(H.truncate(h, b["n"] + 1)), "executed": sorted(ex), "edited": sorted(tch)},
                                  signature="no-early-cutoff")
    ctx.coverage.update(cnt)
    bad = [r for r in recs if r["diffs"]]
    ctx.coverage["disagreements"] = len(bad)
    if bad and not any(found for _, found in ctx.violations):
        r = min(bad, key=lambda x: len(x["hist"]["steps"]))
        small = H.truncate(r["hist"], r["diffs"][0][0] + 1) if r["diffs"][0][0] >= 0 else r["hist"]
        H.report_disagreement(ctx, dict(r, hist=small), "executed commands per build: grog build histories vs GrogModel.Build.runHistory")


def replay(ctx, rep):
    if rep.get("signature") in ("restored-in-a-state-never-built", "failing-check-not-executed", "tainted-target-not-executed-after-failed-run",
                                "reexecuted-in-a-state-just-built"):
        return H2.replay_oracles(ctx, rep)
    return H.replay_history(ctx, rep)
