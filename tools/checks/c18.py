"""C18 — interrupts stop the build promptly and leave a recoverable state.

Theorem side : GrogModel/Props/C18.lean — the cancellation logic of walker / pool / task tail.
Correspondence: (a) in-process: the real dag.Walker (with and without the real pool) with an external cancel
               at a random point of the trace, callbacks that abort / fail / ignore the cancellation; traces
               replayed through the model; Walk must return promptly even when callbacks ignore the cancel;
               (b) the real CLI: workspaces with slow targets, SIGINT / SIGTERM at times drawn across start-up,
               execution, output writing and shutdown.
Oracle (no model): exit status non-zero when the signal arrived before the build finished; exit within 5 s
               of the signal; no command starts later than 0.5 s after the signal; a shell that was running at
               the signal does not reach its end line; target-cache entries <= targets that ended; the follow-up
               build acquires the lock, succeeds, re-executes every interrupted target and leaves the outputs
               of a clean build.
"""
import concurrent.futures as cf
import json, os, signal, subprocess, time
from checks import _walker as W

PROPERTY = "C18"
LEVEL = "proof"
LEVEL_TEXT = ("Lean 4 theorems about the cancellation slice of the walker / pool / task-tail models (interrupt at any state; no command start "
              "under a cancelled context, permanently; an interrupted command writes no result and gets no completion; Walk's return is enabled "
              "immediately after the cancellation and the remaining events are bounded; return through the cancellation implies non-zero exit; "
              "deadlock freedom with cancellation). Partial by nature: signal delivery, child-process trees and latency are runtime behaviour, "
              "sampled by real SIGINT/SIGTERM runs of the CLI at varied times with a follow-up build.")
LEVEL_NOTE = ("Only the target shells are required to terminate (grandchildren of `sh -c` are not killed by CommandContext); latency bound 5 s = "
              "1 s WaitDelay + margin; the next-build clause is checked at the CLI only (its proof is the composition of C10, C07 and C01, owned by "
              "other groups).")
TECHNIQUE = "Lean 4 proofs about the cancellation logic of an executable LTS + trace inclusion with external cancel + signal runs of the real CLI"
PROP_MODULES = ["GrogModel.Props.C18", "GrogModel.Props.ComposeStores"]
OBLIGATIONS = [
    "Grog.C18.interrupt_any_time",
    "Grog.C18.no_start_after_cancel",
    "Grog.C18.pool_ctx_stays_cancelled",
    "Grog.C18.interrupted_not_cached",
    "Grog.C18.aborted_stays_aborted",
    "Grog.C18.walk_returns",
    "Grog.C18.events_after_cancel_bounded",
    "Grog.C18.return_cancels_all",
    "Grog.C18.exit_nonzero",
    "Grog.C18.interrupted_walk_finishes",
    "Grog.Compose.next_build_ok",
]
ASSUMPTIONS = [
    "exec.CommandContext kills the target shell on cancellation and does not start one under a cancelled context (Go runtime, trusted)",
    "the signal handler cancels the root context (console/cmd_setup.go), sampled by the CLI runs",
    "next-build clause: checked on the real CLI only; the proof composes C10/C07/C01 of other groups",
]


def expected_outputs(n, edges):
    ins = W.deps_of(n, edges)
    out = {}
    for i in range(n):
        out[i] = "".join(out[d] for d in ins[i]) + f"t{i}\n"
    return out


SHELLS = ("sh", "dash", "bash", "ash", "ksh", "zsh")


def session_procs(sid):
    """live (non-zombie) processes whose session id is `sid`: grog is started with start_new_session, so these are exactly
    the processes grog left behind (target shells, their children, ...) unless they detached themselves on purpose"""
    out = []
    for p in os.listdir("/proc"):
        if not p.isdigit():
            continue
        try:
            st = open(f"/proc/{p}/stat").read()
            rp = st.rindex(")")
            comm = st[st.index("(") + 1:rp]
            f = st[rp + 2:].split()
            if int(f[3]) == sid and f[0] != "Z":
                out.append((int(p), comm, int(f[1])))
        except (OSError, ValueError, IndexError):
            pass
    return out


def kill_session(sid):
    for pid, _, _ in session_procs(sid):
        try:
            os.kill(pid, signal.SIGKILL)
        except OSError:
            pass


def tree_snapshot(*roots):
    snap = {}
    for r in roots:
        for d, _, files in os.walk(r):
            for f in files:
                pth = os.path.join(d, f)
                try:
                    st = os.stat(pth)
                    snap[pth] = (st.st_size, st.st_mtime_ns)
                except OSError:
                    pass
    return snap


def survivor_case(ctx, idx, variant, sig):
    """one target whose shell records its pid ($$) and then runs a long foreground child; grog is interrupted while the child
    runs. variant: plain (`sleep 60`), trap (`trap '...' TERM INT` + 2.5 s child, then writes its output), ignore (`trap '' TERM INT`).
    After grog's exit: the target shell must be gone, nothing may be written into the workspace or the cache any more, and the
    next build must get the workspace lock and finish. A grandchild that merely outlives its killed shell (the orphaned `sleep`)
    is the documented limitation and is not flagged — unless it keeps the next build from getting the lock."""
    d = ctx.scratch(f"c18-surv-{idx}")
    ws_dir, root = os.path.join(d, "ws"), os.path.join(d, "root")
    os.makedirs(os.path.join(ws_dir, "pkg"))
    os.makedirs(root)
    pids, flag = os.path.join(d, "pids"), os.path.join(d, "flag")
    open(os.path.join(ws_dir, "grog.toml"), "w").write("num_workers = 2\n")
    pre = {"plain": "", "trap": "trap 'rm -f step.tmp' TERM INT; ", "ignore": "trap '' TERM INT; "}[variant]
    child = "sleep 60" if variant == "plain" else "sleep 2.5"
    cmd = (f'{pre}echo "p 0 $$" >> {pids}; touch step.tmp; if test -f {flag}; then :; else {child}; fi; rm -f step.tmp; echo t0 > t0.out')
    targets = [{"name": "t0", "command": cmd, "outputs": ["t0.out"]},
               {"name": "t1", "command": "echo t1 > t1.out", "outputs": ["t1.out"]}]
    json.dump({"targets": targets}, open(os.path.join(ws_dir, "pkg", "BUILD.json"), "w"))
    env = dict(os.environ, GROG_ROOT=root, HOME=d, GROG_DISABLE_TEA="true")
    env.pop("CI", None)
    res = {"family": "survivor-" + variant, "variant": variant, "signal": sig.name, "workers": 2, "delay": 0.4, "finished_before": False, "bad": []}
    bad = res["bad"]
    grog = ctx.grog_binary()
    p = subprocess.Popen([grog, "build", "//..."], cwd=ws_dir, env=env, stdout=subprocess.PIPE, stderr=subprocess.STDOUT, text=True, start_new_session=True)
    sid = p.pid
    t0 = time.time()
    while not os.path.exists(pids) and time.time() - t0 < 15 and p.poll() is None:
        time.sleep(0.02)
    time.sleep(0.4)
    shell_pid = None
    if os.path.exists(pids):
        shell_pid = int(open(pids).read().split()[2])
    t_sig = time.time()
    try:
        os.kill(p.pid, sig)
    except ProcessLookupError:
        pass
    try:
        out, _ = p.communicate(timeout=30)
    except subprocess.TimeoutExpired:
        p.kill()
        out, _ = p.communicate()
        bad.append(("no-exit-after-signal", f"grog did not exit within 30 s after {sig.name}"))
    res.update(rc=p.returncode, latency=round(time.time() - t_sig, 2), shell_pid=shell_pid, interrupted=True)
    if shell_pid is None:
        bad.append(("harness-target-did-not-start", f"the target shell never wrote its pid: {out[-300:]}"))
    if p.returncode == 0:
        bad.append(("interrupt-exit-zero", f"build interrupted by {sig.name} while its target was running exited 0"))
    if res["latency"] > 5.0:
        bad.append(("interrupt-slow-exit", f"grog exited {res['latency']} s after {sig.name} (bound 5 s)"))
    # (a) what is left of grog's session shortly after its exit
    time.sleep(0.5)
    left = session_procs(sid)
    res["left_behind"] = [(comm, "target-shell" if pid == shell_pid else "other") for pid, comm, _ in left]
    shells = [(pid, comm) for pid, comm, _ in left if pid == shell_pid or comm in SHELLS]
    if shells:
        bad.append(("target-shell-survived-grog",
                    f"{sig.name}: target shell(s) {shells} still run 0.5 s after grog exited (variant '{variant}': the script "
                    f"{'traps' if variant == 'trap' else 'ignores' if variant == 'ignore' else 'does not handle'} TERM/INT)"))
    res["orphaned_grandchildren"] = sorted(comm for pid, comm, _ in left if (pid, comm) not in shells)
    # (c) nothing is written into the workspace or the cache after grog exited
    snap1 = tree_snapshot(ws_dir, root)
    time.sleep(1.0 if variant == "plain" else 3.2)
    snap2 = tree_snapshot(ws_dir, root)
    changed = sorted(os.path.relpath(k, d) for k in set(snap1) | set(snap2) if snap1.get(k) != snap2.get(k))
    if changed:
        bad.append(("written-after-grog-exited", f"files changed in the workspace / cache after grog had exited: {changed[:6]}"))
    # (b) the next build gets the lock and finishes although the interrupted target's foreground child may still be alive
    open(flag, "w").close()
    t1 = time.time()
    try:
        q = subprocess.run([grog, "build", "//..."], cwd=ws_dir, env=env, capture_output=True, text=True, timeout=20)
        rc2, out2 = q.returncode, q.stdout + q.stderr
    except subprocess.TimeoutExpired as e:
        rc2 = 124
        out2 = (e.stdout.decode(errors="replace") if isinstance(e.stdout, bytes) else (e.stdout or "")) + "\nTIMEOUT"
    res["b2"] = {"rc": rc2, "wall": round(time.time() - t1, 2)}
    if rc2 == 124 or "Another grog build" in out2:
        bad.append(("next-build-cannot-acquire-lock",
                    f"the build after the interrupt {'did not finish within 20 s' if rc2 == 124 else 'had to wait for the lock'}: "
                    f"'{next((l for l in out2.splitlines() if 'Another grog build' in l), out2[-200:])[:160]}' "
                    f"(processes left behind by the interrupted build: {res['left_behind']})"))
    elif rc2 != 0:
        bad.append(("follow-up-build-failed", f"the build after the interrupt exited {rc2}: {out2[-300:]}"))
    else:
        pth = os.path.join(ws_dir, "pkg", "t0.out")
        if not os.path.exists(pth) or open(pth).read() != "t0\n":
            bad.append(("follow-up-outputs-wrong", "t0.out is missing or wrong after the follow-up build"))
    if bad:
        res["out"] = out[-1200:]
        res["out2"] = out2[-600:]
    kill_session(sid)
    import shutil
    shutil.rmtree(d, ignore_errors=True)
    return res


def signal_case(ctx, idx, seed):
    import random
    rng = random.Random(seed)
    shape = rng.choice(["chain", "fan", "diamond"])
    if shape == "chain":
        n, edges, fam = W.g_chain(4)
    elif shape == "fan":
        n, edges, fam = W.g_fanout(6)
    else:
        n, edges, fam = W.g_diamonds(1)
    sleep = [rng.choice([0.2, 0.4, 0.8]) for _ in range(n)]
    workers = rng.choice([1, 2, 4])
    sleep_after = tuple(m for m in range(n) if rng.random() < 0.5)
    ws = W.CliWs(ctx, f"c18-{idx}", n, edges, sleep=sleep, workers=workers, dir_outputs=(n - 1,) if rng.random() < 0.5 else (), sleep_after=sleep_after)
    sig = rng.choice([signal.SIGINT, signal.SIGTERM])
    # signal time: start-up (0..0.1), execution, around the end (output writing / shutdown)
    zone = rng.random()
    delay = rng.uniform(0.0, 0.12) if zone < 0.2 else rng.uniform(0.12, 1.2) if zone < 0.8 else rng.uniform(1.2, 2.6)
    res = {"n": n, "edges": edges, "family": fam, "sleep": sleep, "workers": workers, "signal": sig.name, "delay": round(delay, 3), "bad": []}
    bad = res["bad"]
    p = subprocess.Popen([ws.grog, "build", "//..."], cwd=ws.ws, env=ws.env(), stdout=subprocess.PIPE, stderr=subprocess.STDOUT, text=True,
                         start_new_session=True)
    time.sleep(delay)
    finished_before = p.poll() is not None
    t_sig = time.time()
    t_sig_ns = time.time_ns()
    if not finished_before:
        try:
            os.kill(p.pid, sig)
        except ProcessLookupError:
            finished_before = True
    try:
        out, _ = p.communicate(timeout=30)
        latency = time.time() - t_sig
    except subprocess.TimeoutExpired:
        p.kill()
        out, _ = p.communicate()
        latency = 30.0
        bad.append(("no-exit-after-signal", f"grog did not exit within 30 s after {sig.name}"))
    rc = p.returncode
    time.sleep(0.3)     # let orphaned grandchildren (not covered by the property) write what they write
    left = [(pid, comm) for pid, comm, _ in session_procs(p.pid) if comm in SHELLS]
    if left:
        time.sleep(0.3)
        left = [(pid, comm) for pid, comm, _ in session_procs(p.pid) if comm in SHELLS]
        if left:
            bad.append(("target-shell-survived-grog", f"{sig.name}: target shell(s) {left} still run 0.6 s after grog exited"))
    tr = ws.read_trace()
    res.update(rc=rc, latency=round(latency, 2), finished_before=finished_before)
    started = {m: t for k, m, t in tr if k == "s"}
    ended = {m: t for k, m, t in tr if k == "e"}
    interrupted = not finished_before and ("Received signal" in out or rc != 0)
    res["interrupted"] = interrupted
    res["started"], res["ended"] = sorted(started), sorted(ended)
    if not finished_before:
        if rc == 0 and len(ended) < n:
            bad.append(("interrupt-exit-zero", f"build was interrupted by {sig.name} with {n - len(ended)} targets unfinished but exited 0"))
        killed_before_handler = rc == -int(sig) and not started      # signal arrived before signal.Notify: default action, nothing had started
        res["killed_before_handler"] = killed_before_handler
        if rc not in (0, 1) and not killed_before_handler:
            bad.append(("interrupt-crash", f"exit status {rc} after {sig.name}: {out[-400:]}"))
        if latency > 5.0:
            bad.append(("interrupt-slow-exit", f"grog exited {latency:.1f} s after {sig.name} (bound 5 s)"))
        late = sorted(m for m, t in started.items() if t > t_sig_ns + 0.5e9)
        if late:
            bad.append(("command-started-after-signal", f"commands of {late} started more than 0.5 s after {sig.name}"))
        survivors = sorted(m for m, t in ended.items() if m in started and started[m] < t_sig_ns and t > t_sig_ns + 1.5e9)
        if survivors:
            bad.append(("shell-survived-signal", f"target shells of {survivors} were running at the signal and still reached their end 1.5 s later"))
    entries = ws.target_cache_entries()
    res["cache_entries"] = entries
    if entries > len(ended):
        bad.append(("interrupted-target-cached", f"{entries} target results cached but only {len(ended)} commands ended"))
    # follow-up build on the same workspace
    b2 = ws.build()
    started2 = {m for k, m, _ in b2["trace"] if k == "s"}
    res["b2"] = {"rc": b2["rc"], "started": sorted(started2), "wall": round(b2["wall"], 2)}
    if b2["rc"] != 0:
        bad.append(("follow-up-build-failed", f"the build after the interrupt exited {b2['rc']}: {b2['out'][-400:]}"))
    else:
        must = set(range(n)) - set(ended)
        if must - started2:
            bad.append(("interrupted-target-not-rebuilt", f"targets {sorted(must - started2)} never ended before the interrupt but were not executed by the next build"))
        exp = expected_outputs(n, edges)
        wrong = []
        for i in range(n):
            pth = os.path.join(ws.ws, "pkg", f"t{i}.out")
            got = open(pth).read() if os.path.exists(pth) else None
            if got != exp[i]:
                wrong.append(i)
        if wrong:
            bad.append(("follow-up-outputs-wrong", f"outputs of {wrong} differ from a clean build after the interrupted build"))
    if bad:
        res["out"] = out[-1500:]
    ws.cleanup()
    return res


def run(ctx):
    quick = ctx.tier == "quick"
    rng = ctx.rng
    # ---- (a) in-process: external cancel at a random trace position --------------------------------
    ncases = 200 if quick else 3000
    cases = []
    for i in range(ncases):
        c = W.make_case(rng, maxn=60 if i % 5 else 300, cancel=True)
        if i % (16 if quick else 60) == 0:
            # callbacks that ignore the cancellation for a long time: Walk must not wait for them
            c = W.make_case(rng, maxn=12, cancel=True, workers=0)
            slow = set(rng.sample(range(c["n"]), min(2, c["n"])))
            c["latUs"] = [1000000 if m in slow else 0 for m in range(c["n"])]
            c["onCancel"] = ["ignore"] * c["n"]
            c["cancelAfterEvents"] = rng.randint(0, 4)
            c["fail"] = []
        cases.append(c)
    for c in cases:
        c["timeoutMs"] = 6000          # Walk has to return promptly after the cancel; not returning for 6 s is a hang
    outs = W.run_impl(ctx, cases, max_hangs=3)
    if outs is None:
        return
    cases = cases[:len(outs)]
    reps = W.replay_model(ctx, cases, outs)
    disagreements, oracle_fail, cancelled = [], 0, 0
    lat = []
    for c, o, r in zip(cases, outs, reps):
        if o.get("crash") or o.get("hang") or "error" in o:
            for prop, sig, msg in W.oracle(c, o):
                ctx.violation(msg, {"kind": "oracle", "case": c, "impl": {k: v for k, v in o.items() if k != "trace"}}, signature="cancel:" + sig)
            continue
        tr = o["trace"]
        has_c = any(e[0] == "c" for e in tr)
        cancelled += has_c
        for prop, sig, msg in W.oracle(c, o):
            if prop == "C18":
                oracle_fail += 1
                ctx.violation(msg, {"kind": "oracle", "case": c, "impl": o}, signature=sig)
        if has_c:
            ci = next(i for i, e in enumerate(tr) if e[0] == "c")
            ri = next((i for i, e in enumerate(tr) if e[0] == "r"), None)
            if ri is not None and ri > ci:
                if o.get("cancelToReturnUs", -1) >= 0:
                    lat.append(o["cancelToReturnUs"])
                if o.get("cancelToReturnUs", 0) > 400000 and o["err"] == "canceled":
                    oracle_fail += 1
                    ctx.violation(f"Walk returned {o['cancelToReturnUs']/1000:.0f} ms after the cancellation (callbacks that ignore the cancel must not be waited for)",
                                  {"kind": "oracle", "case": c, "impl": {k: v for k, v in o.items() if k != 'trace'}}, signature="walk-waits-after-cancel")
                if o["err"] == "none" and not c["failFast"]:
                    # returned nil although cancelled before the return: only legitimate if every routine had finished
                    if r.get("ok") and not r.get("allTerminal"):
                        oracle_fail += 1
                        ctx.violation("Walk returned nil after an external cancellation although not every selected node was resolved",
                                      {"kind": "oracle", "case": c, "impl": o}, signature="cancel-swallowed")
        if not r.get("ok"):
            disagreements.append((c, o, r))
    ctx.coverage["walker_cancel_cases"] = len(cases)
    ctx.coverage["walker_cancelled_before_return"] = cancelled
    ctx.coverage["cancel_to_return_us_max"] = max(lat) if lat else None
    ctx.coverage["traces_validated_against_impl"] = len(cases)
    ctx.coverage["trace_events_replayed"] = sum(len(o.get("trace", [])) for o in outs)
    # ---- (b) CLI signal runs -----------------------------------------------------------------------------
    results = []
    if ctx.grog_binary() is not None:
        nsig = 16 if quick else 150
        seeds = [rng.randrange(1 << 30) for _ in range(nsig)]
        with cf.ThreadPoolExecutor(max_workers=4) as ex:
            futs = [ex.submit(survivor_case, ctx, i, v, sg) for i, (v, sg) in enumerate(
                [(v, sg) for v in ("plain", "trap", "ignore") for sg in (signal.SIGINT, signal.SIGTERM)] * (1 if quick else 4))]
            futs += [ex.submit(signal_case, ctx, i, s) for i, s in enumerate(seeds)]
            for f in futs:
                results.append(f.result())
        for r in results:
            for sig, msg in r["bad"]:
                oracle_fail += 1
                ctx.violation(msg, {"kind": "oracle", "oracle": "CLI signal run", "run": r}, signature=sig)
    ctx.coverage["cli_signal_runs"] = len(results)
    ctx.coverage["cli_survivor_runs"] = {v: sum(1 for r in results if r.get("variant") == v) for v in ("plain", "trap", "ignore")}
    ctx.coverage["cli_orphaned_grandchildren_seen"] = sorted({c for r in results for c in r.get("orphaned_grandchildren", [])})
    ctx.coverage["cli_interrupted"] = sum(1 for r in results if r.get("interrupted"))
    ctx.coverage["cli_signals"] = {s: sum(1 for r in results if r["signal"] == s) for s in ("SIGINT", "SIGTERM")}
    ctx.coverage["cli_latency_max_s"] = max([r["latency"] for r in results if not r["finished_before"]] or [0])
    ctx.coverage["cli_delay_zones"] = {"startup<0.12": sum(1 for r in results if r["delay"] < 0.12), "execution": sum(1 for r in results if 0.12 <= r["delay"] < 1.2),
                                       "late": sum(1 for r in results if r["delay"] >= 1.2)}
    ctx.coverage["evaluations"] = len(cases) + len(results)
    ctx.coverage["distinct_nontrivial"] = len({(c["family"], c["n"], c["failFast"], c["workers"], c["cancelAfterEvents"]) for c, o in zip(cases, outs) if any(e[0] == "c" for e in o.get("trace", []))}) + \
        len({(r["family"], r["signal"], r["workers"], int(r["delay"] * 10)) for r in results if r.get("interrupted")})
    ctx.coverage["rule"] = (f"{len(cases)} in-process walks with an external cancel after a random number of trace events (some with callbacks that ignore the cancel for "
                            f"1 s) + {len(results)} CLI builds of slow targets (0.2-0.8 s sleeps, chain/fan/diamond, 1/2/4 workers, optional directory output) hit by SIGINT or "
                            "SIGTERM after 0..2.6 s, each followed by a second build; plus survivor runs (target shell records $$, long foreground child; scripts that do not handle / trap / "
                            "ignore TERM+INT): shell gone after grog's exit, nothing written afterwards, next build gets the lock; non-trivial = cancelled before Walk returned / interrupted before the build finished")
    ctx.coverage["oracle_failures"] = oracle_fail
    ctx.coverage["disagreements"] = len(disagreements)
    for r in results[:3]:
        ctx.sample({k: v for k, v in r.items() if k in ("family", "signal", "delay", "rc", "latency", "started", "ended", "cache_entries", "b2", "interrupted")})
    if disagreements and not ctx.violations:
        c, o, r = min(disagreements, key=lambda t: t[0]["n"])
        ctx.violation("a trace of the real walker (with cancellation) is not a run of the model: " + str(r.get("why", r)),
                      {"kind": "correspondence", "correspondence": "walker.run trace vs GrogModel.Walker.step", "case": c, "impl": o,
                       "model": {k: v for k, v in r.items() if k not in ("phases", "snap")}}, found_input=False)


def replay(ctx, rep):
    if "case" in rep:
        c = rep["case"]
        outs = W.run_impl(ctx, [c])
        print("impl :", outs[0])
        print("oracle:", W.oracle(c, outs[0]))
        print("model:", W.replay_model(ctx, [c], outs)[0])
    else:
        print("signal run to repeat by hand:", {k: v for k, v in (rep.get("run") or {}).items() if k != "out"})
    return 0
