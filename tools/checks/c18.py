"""C18 — interrupts stop the build promptly and leave a recoverable state.

Theorem side : GrogModel/Props/C18.lean — the cancellation logic of walker / pool / task tail.
Correspondence: (a) in-process: the real dag.Walker (with and without the real pool) with an external cancel
               at a random point of the trace, callbacks that abort / fail / ignore the cancellation; traces
               replayed through the model; Walk must return promptly even when callbacks ignore the cancel;
               (b) the real CLI: workspaces with slow targets, SIGINT / SIGTERM at times drawn across start-up,
               execution, output writing and shutdown.
Oracle (no model): exit status non-zero when the signal arrived before the build finished; exit within 5 s
               of the signal; no command starts later than 0.5 s after the signal; a shell that was running at
               the signal does not reach its end line; target-cache entries <= targets that ended; the follow-up
               build acquires the lock, succeeds, re-executes every interrupted target and leaves the outputs
               of a clean build.
"""
import concurrent.futures as cf
import json, os, signal, subprocess, time
from checks import _walker as W
from checks import _cliworld

PROPERTY = "C18"
LEVEL = "proof"
LEVEL_TEXT = ("Lean 4 theorems about the cancellation slice of the walker / pool / task-tail models (interrupt at any state; no command start "
              "under a cancelled context, permanently; an interrupted command writes no result and gets no completion; Walk's return is enabled "
              "immediately after the cancellation and the remaining events are bounded; return through the cancellation implies non-zero exit; "
              "deadlock freedom with cancellation). Partial by nature: signal delivery, child-process trees and latency are runtime behaviour, "
              "sampled by real SIGINT/SIGTERM runs of the CLI at varied times with a follow-up build.")
LEVEL_NOTE = ("'Starts no further target' is proved for command starts; callbacks may still be entered and cache hits restored until grog exits. "
              "exit_nonzero_all_phases has one exception, stated in the theorem: a `grog run` binary that was not killed and exited 0 by itself. "
              "Only the target shells are required to terminate (grandchildren of `sh -c` are not killed by CommandContext); latency bound 5 s = "
              "1 s WaitDelay + margin; the next-build clause is checked at the CLI only (its proof is the composition of C10, C07 and C01, owned by "
              "other groups).")
TECHNIQUE = "Lean 4 proofs about the cancellation logic of an executable LTS + trace inclusion with external cancel + signal runs of the real CLI"
PROP_MODULES = ["GrogModel.Props.C18", "GrogModel.Props.ComposeStores"]
OBLIGATIONS = [
    # invariants / inductive statements
    "Grog.C18.exit_nonzero",
    "Grog.C18.return_inevitable",
    "Grog.C18.return_stays_enabled",
    "Grog.C18.interrupted_walk_finishes",
    "Grog.C18.aborted_stays_aborted",
    "Grog.C18.walk_returns",
    "Grog.C18.events_after_cancel_bounded",
    "Grog.C18.exit_nonzero_all_phases",
    "Grog.C18.silent_success_witness_old",
    "Grog.Compose.next_build_ok",
    # one-step unfoldings of a guard / case analyses of the table Pool.execTail (no weight on their own)
    "Grog.C18.interrupt_any_time",
    "Grog.C18.no_start_after_cancel",
    "Grog.C18.pool_ctx_stays_cancelled",
    "Grog.C18.interrupted_not_cached",
    "Grog.C18.return_cancels_all",
    "Grog.C18.run_binary_not_started_after_cancel",
]
ASSUMPTIONS = [
    "exec.CommandContext kills the target shell on cancellation and does not start one under a cancelled context (Go runtime, trusted; "
    "no Lean model of process termination - the clause 'terminates the running shells' is checked on the CLI only)",
    "the signal handler cancels the root context (console/cmd_setup.go), sampled by the CLI runs; a second signal is swallowed by the "
    "handler and a TTY Ctrl-C cancels only the wrapped context (not exercised: no TTY in the scenarios)",
    "inevitability counts events, not seconds; entered callbacks return (C04)",
    "next-build clause: checked on the real CLI; the theorem composes C10/C07/C01 of other groups",
]


def expected_outputs(n, edges):
    ins = W.deps_of(n, edges)
    out = {}
    for i in range(n):
        out[i] = "".join(out[d] for d in ins[i]) + f"t{i}\n"
    return out


SHELLS = ("sh", "dash", "bash", "ash", "ksh", "zsh")


def session_procs(sid):
    """live (non-zombie) processes whose session id is `sid`: grog is started with start_new_session, so these are exactly
    the processes grog left behind (target shells, their children, ...) unless they detached themselves on purpose"""
    out = []
    for p in os.listdir("/proc"):
        if not p.isdigit():
            continue
        try:
            st = open(f"/proc/{p}/stat").read()
            rp = st.rindex(")")
            comm = st[st.index("(") + 1:rp]
            f = st[rp + 2:].split()
            if int(f[3]) == sid and f[0] != "Z":
                out.append((int(p), comm, int(f[1])))
        except (OSError, ValueError, IndexError):
            pass
    return out


def kill_session(sid):
    for pid, _, _ in session_procs(sid):
        try:
            os.kill(pid, signal.SIGKILL)
        except OSError:
            pass


def tree_snapshot(*roots):
    snap = {}
    for r in roots:
        for d, _, files in os.walk(r):
            for f in files:
                pth = os.path.join(d, f)
                try:
                    st = os.stat(pth)
                    snap[pth] = (st.st_size, st.st_mtime_ns)
                except OSError:
                    pass
    return snap


def survivor_case(ctx, idx, variant, sig):
    """one target whose shell records its pid ($$) and then runs a long foreground child; grog is interrupted while the child
    runs. variant: plain (`sleep 60`), trap (`trap '...' TERM INT` + 2.5 s child, then writes its output), ignore (`trap '' TERM INT`).
    After grog's exit: the target shell must be gone, nothing may be written into the workspace or the cache any more, and the
    next build must get the workspace lock and finish. A grandchild that merely outlives its killed shell (the orphaned `sleep`)
    is the documented limitation and is not flagged — unless it keeps the next build from getting the lock."""
    d = ctx.scratch(f"c18-surv-{idx}")
    ws_dir, root = os.path.join(d, "ws"), os.path.join(d, "root")
    os.makedirs(os.path.join(ws_dir, "pkg"))
    os.makedirs(root)
    pids, flag = os.path.join(d, "pids"), os.path.join(d, "flag")
    open(os.path.join(ws_dir, "grog.toml"), "w").write("num_workers = 2\n")
    pre = {"plain": "", "trap": "trap 'rm -f step.tmp' TERM INT; ", "ignore": "trap '' TERM INT; "}[variant]
    child = "sleep 60" if variant == "plain" else "sleep 2.5"
    cmd = (f'{pre}echo "p 0 $$" >> {pids}; touch step.tmp; if test -f {flag}; then :; else {child}; fi; rm -f step.tmp; echo t0 > t0.out')
    targets = [{"name": "t0", "command": cmd, "outputs": ["t0.out"]},
               {"name": "t1", "command": "echo t1 > t1.out", "outputs": ["t1.out"]}]
    json.dump({"targets": targets}, open(os.path.join(ws_dir, "pkg", "BUILD.json"), "w"))
    env = dict(os.environ, GROG_ROOT=root, HOME=d, GROG_DISABLE_TEA="true")
    env.pop("CI", None)
    res = {"family": "survivor-" + variant, "variant": variant, "signal": sig.name, "workers": 2, "delay": 0.4, "finished_before": False, "bad": []}
    bad = res["bad"]
    grog = ctx.grog_binary()
    p = subprocess.Popen([grog, "build", "//..."], cwd=ws_dir, env=env, stdout=subprocess.PIPE, stderr=subprocess.STDOUT, text=True, start_new_session=True)
    sid = p.pid
    t0 = time.time()
    while not os.path.exists(pids) and time.time() - t0 < 15 and p.poll() is None:
        time.sleep(0.02)
    time.sleep(0.4)
    shell_pid = None
    if os.path.exists(pids):
        shell_pid = int(open(pids).read().split()[2])
    t_sig = time.time()
    try:
        os.kill(p.pid, sig)
    except ProcessLookupError:
        pass
    try:
        out, _ = p.communicate(timeout=30)
    except subprocess.TimeoutExpired:
        p.kill()
        out, _ = p.communicate()
        bad.append(("no-exit-after-signal", f"grog did not exit within 30 s after {sig.name}"))
    res.update(rc=p.returncode, latency=round(time.time() - t_sig, 2), shell_pid=shell_pid, interrupted=True)
    if shell_pid is None:
        bad.append(("harness-target-did-not-start", f"the target shell never wrote its pid: {out[-300:]}"))
    if p.returncode == 0:
        bad.append(("interrupt-exit-zero", f"build interrupted by {sig.name} while its target was running exited 0"))
    if res["latency"] > 5.0:
        bad.append(("interrupt-slow-exit", f"grog exited {res['latency']} s after {sig.name} (bound 5 s)"))
    # (a) what is left of grog's session shortly after its exit
    time.sleep(0.5)
    left = session_procs(sid)
    res["left_behind"] = [(comm, "target-shell" if pid == shell_pid else "other") for pid, comm, _ in left]
    shells = [(pid, comm) for pid, comm, _ in left if pid == shell_pid or comm in SHELLS]
    if shells:
        bad.append(("target-shell-survived-grog",
                    f"{sig.name}: target shell(s) {shells} still run 0.5 s after grog exited (variant '{variant}': the script "
                    f"{'traps' if variant == 'trap' else 'ignores' if variant == 'ignore' else 'does not handle'} TERM/INT)"))
    res["orphaned_grandchildren"] = sorted(comm for pid, comm, _ in left if (pid, comm) not in shells)
    # (c) nothing is written into the workspace or the cache after grog exited
    snap1 = tree_snapshot(ws_dir, root)
    time.sleep(1.0 if variant == "plain" else 3.2)
    snap2 = tree_snapshot(ws_dir, root)
    changed = sorted(os.path.relpath(k, d) for k in set(snap1) | set(snap2) if snap1.get(k) != snap2.get(k))
    if changed:
        bad.append(("written-after-grog-exited", f"files changed in the workspace / cache after grog had exited: {changed[:6]}"))
    # (b) the next build gets the lock and finishes although the interrupted target's foreground child may still be alive
    open(flag, "w").close()
    t1 = time.time()
    try:
        q = subprocess.run([grog, "build", "//..."], cwd=ws_dir, env=env, capture_output=True, text=True, timeout=20)
        rc2, out2 = q.returncode, q.stdout + q.stderr
    except subprocess.TimeoutExpired as e:
        rc2 = 124
        out2 = (e.stdout.decode(errors="replace") if isinstance(e.stdout, bytes) else (e.stdout or "")) + "\nTIMEOUT"
    res["b2"] = {"rc": rc2, "wall": round(time.time() - t1, 2)}
    if rc2 == 124 or "Another grog build" in out2:
        bad.append(("next-build-cannot-acquire-lock",
                    f"the build after the interrupt {'did not finish within 20 s' if rc2 == 124 else 'had to wait for the lock'}: "
                    f"'{next((l for l in out2.splitlines() if 'Another grog build' in l), out2[-200:])[:160]}' "
                    f"(processes left behind by the interrupted build: {res['left_behind']})"))
    elif rc2 != 0:
        bad.append(("follow-up-build-failed", f"the build after the interrupt exited {rc2}: {out2[-300:]}"))
    else:
        pth = os.path.join(ws_dir, "pkg", "t0.out")
        if not os.path.exists(pth) or open(pth).read() != "t0\n":
            bad.append(("follow-up-outputs-wrong", "t0.out is missing or wrong after the follow-up build"))
    if bad:
        res["out"] = out[-1200:]
        res["out2"] = out2[-600:]
    kill_session(sid)
    import shutil
    shutil.rmtree(d, ignore_errors=True)
    return res


# ---------------------------------------------------------------------------------------------------------------
# interrupts in every phase and for every command (build / test / run)
# ---------------------------------------------------------------------------------------------------------------

def _mk_ws(ctx, wname, pkg_json, toml="num_workers = 2\n", extra_files=None):
    d = ctx.scratch(wname)
    ws_dir, root = os.path.join(d, "ws"), os.path.join(d, "root")
    os.makedirs(os.path.join(ws_dir, "pkg"))
    os.makedirs(root)
    open(os.path.join(ws_dir, "grog.toml"), "w").write(toml)
    if pkg_json is not None:
        json.dump(pkg_json, open(os.path.join(ws_dir, "pkg", "BUILD.json"), "w"))
    for rel, content in (extra_files or {}).items():
        pth = os.path.join(ws_dir, rel)
        os.makedirs(os.path.dirname(pth), exist_ok=True)
        open(pth, "w").write(content)
    env = dict(os.environ, GROG_ROOT=root, HOME=d, GROG_DISABLE_TEA="true")
    env.pop("CI", None)
    return d, ws_dir, root, env


def _start(ctx, ws_dir, env, args, outfile):
    fh = open(outfile, "w")
    return subprocess.Popen([ctx.grog_binary(), *args], cwd=ws_dir, env=env, stdout=fh, stderr=subprocess.STDOUT, start_new_session=True), fh


def _wait_for(pred, timeout, proc=None):
    t0 = time.time()
    while time.time() - t0 < timeout:
        if pred():
            return True
        if proc is not None and proc.poll() is not None:
            return pred()
        time.sleep(0.02)
    return False


def _finish(p, fh, outfile, bound=30):
    """-> (rc, seconds until exit or None if it had to be killed, output)"""
    t0 = time.time()
    try:
        p.wait(timeout=bound)
        lat = time.time() - t0
    except subprocess.TimeoutExpired:
        p.kill()
        p.wait()
        lat = None
    fh.close()
    return p.returncode, lat, open(outfile, errors="replace").read()


def _cache_entries(root):
    n = 0
    for r, dirs, files in os.walk(root):
        if os.path.basename(r) == "target" and os.path.basename(os.path.dirname(r)) == "cache":
            n += len(files) + sum(len(f) for dd in dirs for _, _, f in os.walk(os.path.join(r, dd)))
            dirs[:] = []
    return n


def _verdict(bad, what, rc, lat, sig, must_be_nonzero=True):
    if lat is None:
        bad.append(("no-exit-after-signal", f"{what}: grog did not exit within 30 s after {sig.name}"))
    elif lat > 5.0:
        bad.append(("interrupt-slow-exit", f"{what}: grog exited {lat:.1f} s after {sig.name} (bound 5 s)"))
    if must_be_nonzero and rc == 0:
        bad.append(("interrupt-exit-zero", f"{what}: grog was interrupted by {sig.name} before it had finished but exited 0"))
    if rc not in (0, 1) and not (rc is not None and rc < 0 and lat is not None):
        bad.append(("interrupt-crash", f"{what}: exit status {rc} after {sig.name}"))


def lockwait_case(ctx, idx, cmd, sig):
    """a SECOND grog (build / test / run) waits for the workspace lock behind a running build and is interrupted there"""
    d0 = ctx.scratch(f"c18-lw-{idx}")
    pids, trace = os.path.join(d0, "pids"), os.path.join(d0, "trace")
    pkg = {"targets": [
        {"name": "slow", "command": f'echo "p $$" >> {pids}; echo "s slow" >> {trace}; sleep 30; echo x > slow.out', "outputs": ["slow.out"]},
        {"name": "quick", "command": f'echo "s quick" >> {trace}; echo q > quick.out', "outputs": ["quick.out"]},
        {"name": "quick_test", "dependencies": [":quick"], "command": f'echo "s quick_test" >> {trace}; test -f quick.out'},
        {"name": "tool", "command": f'echo "s tool" >> {trace}; printf \'#!/bin/sh\\necho "r tool" >> {trace}\\n\' > tool.sh; chmod +x tool.sh', "bin_output": "tool.sh"}]}
    d, ws_dir, root, env = _mk_ws(ctx, f"c18-lw-{idx}/w", pkg)
    res = {"family": "phase:lock-wait", "command": cmd, "signal": sig.name, "workers": 2, "delay": 0, "finished_before": False, "interrupted": True, "bad": []}
    bad = res["bad"]
    a, afh = _start(ctx, ws_dir, env, ["build", "//pkg:slow"], os.path.join(d0, "a.out"))
    b = None
    try:
        if not _wait_for(lambda: os.path.exists(pids), 20, a):
            bad.append(("harness-first-build-did-not-start", open(os.path.join(d0, "a.out"), errors="replace").read()[-300:]))
            return res
        args = {"build": ["build", "//pkg:quick"], "test": ["test", "//pkg:quick_test"], "run": ["run", "//pkg:tool"]}[cmd]
        bout = os.path.join(d0, "b.out")
        b, bfh = _start(ctx, ws_dir, env, args, bout)
        waiting = _wait_for(lambda: "Waiting" in open(bout, errors="replace").read(), 20, b)
        res["saw_waiting_message"] = waiting
        if not waiting:
            bad.append(("harness-second-grog-did-not-wait", open(bout, errors="replace").read()[-300:]))
        time.sleep(0.3)
        os.kill(b.pid, sig)
        rc, lat, out = _finish(b, bfh, bout)
        res.update(rc=rc, latency=round(lat, 2) if lat is not None else None)
        _verdict(bad, f"grog {cmd} interrupted while waiting for the workspace lock", rc, lat, sig)
        started = [l.split()[1] for l in open(trace).read().splitlines() if l.startswith(("s ", "r "))]
        if [x for x in started if x != "slow"]:
            bad.append(("command-started-after-signal", f"the interrupted grog {cmd} started {started} although it never held the lock"))
        if bad:
            res["out"] = out[-800:]
        os.kill(a.pid, signal.SIGINT)
        rca, lata, outa = _finish(a, afh, os.path.join(d0, "a.out"))
        if rca == 0 or lata is None or lata > 5:
            bad.append(("interrupt-exit-zero" if rca == 0 else "interrupt-slow-exit", f"the build holding the lock: exit {rca} after SIGINT, {lata} s"))
        if _cache_entries(root):
            bad.append(("interrupted-target-cached", f"{_cache_entries(root)} target results cached although nothing finished"))
    finally:
        for pr in (a, b):
            if pr is not None:
                kill_session(pr.pid)
        import shutil
        shutil.rmtree(d0, ignore_errors=True)
    return res


def run_phase_case(ctx, idx, sig, phase):
    """`grog run //pkg:server`: phase 'run' = the signal arrives while the built binary runs; phase 'build' = while a
    dependency of the binary is still being built (the binary must never be started)"""
    d0 = ctx.scratch(f"c18-run-{idx}")
    pids, marks = os.path.join(d0, "pids"), os.path.join(d0, "marks")
    lib_sleep = "sleep 3; " if phase == "build" else ""
    pkg = {"targets": [
        {"name": "lib", "command": f'echo "l $$" >> {pids}; {lib_sleep}echo lib > lib.out', "outputs": ["lib.out"]},
        {"name": "server", "dependencies": [":lib"], "command": "", "bin_output": "server.sh"}]}
    pkg["targets"][1]["command"] = f"printf '#!/bin/sh\\necho \"r $$\" >> {pids}\\necho run-start >> {marks}\\nsleep 8\\necho run-end >> {marks}\\n' > server.sh; chmod +x server.sh"
    d, ws_dir, root, env = _mk_ws(ctx, f"c18-run-{idx}/w", pkg)
    res = {"family": f"phase:run-{phase}", "command": "run", "signal": sig.name, "workers": 2, "delay": 0, "finished_before": False, "interrupted": True, "bad": []}
    bad = res["bad"]
    outp = os.path.join(d0, "out")
    p, fh = _start(ctx, ws_dir, env, ["run", "//pkg:server"], outp)
    try:
        key = "r " if phase == "run" else "l "
        ok = _wait_for(lambda: os.path.exists(pids) and any(l.startswith(key) for l in open(pids).read().splitlines()), 20, p)
        if not ok:
            bad.append(("harness-run-did-not-reach-phase", open(outp, errors="replace").read()[-400:]))
        time.sleep(0.3)
        pid_of = {l.split()[0]: int(l.split()[1]) for l in open(pids).read().splitlines() if len(l.split()) == 2} if os.path.exists(pids) else {}
        try:
            os.kill(p.pid, sig)
        except ProcessLookupError:
            pass
        rc, lat, out = _finish(p, fh, outp)
        res.update(rc=rc, latency=round(lat, 2) if lat is not None else None)
        _verdict(bad, f"grog run interrupted in its {phase} phase", rc, lat, sig)
        time.sleep(0.5)
        left = session_procs(p.pid)
        binpid = pid_of.get("r")
        if phase == "run" and binpid and any(pid == binpid for pid, _, _ in left):
            bad.append(("run-binary-survived-grog", f"{sig.name}: the binary started by `grog run` (pid {binpid}) still runs 0.5 s after grog exited"))
        shells = [(pid, comm) for pid, comm, _ in left if comm in SHELLS and pid != binpid]
        if shells:
            bad.append(("target-shell-survived-grog", f"{sig.name}: {shells} still run 0.5 s after grog run exited"))
        m = open(marks).read() if os.path.exists(marks) else ""
        if phase == "build" and "run-start" in m:
            bad.append(("command-started-after-signal", "the binary of `grog run` was started although the build phase had been interrupted"))
        if bad:
            res["out"] = out[-800:]
    finally:
        kill_session(p.pid)
        import shutil
        shutil.rmtree(d0, ignore_errors=True)
    return res


def test_build_phase_case(ctx, idx, sig):
    """`grog test`: the signal arrives while a dependency of the test is being built"""
    d0 = ctx.scratch(f"c18-test-{idx}")
    pids, trace = os.path.join(d0, "pids"), os.path.join(d0, "trace")
    pkg = {"targets": [
        {"name": "lib", "command": f'echo "l $$" >> {pids}; echo "s lib" >> {trace}; sleep 3; echo lib > lib.out; echo "e lib" >> {trace}', "outputs": ["lib.out"]},
        {"name": "lib_test", "dependencies": [":lib"], "command": f'echo "s lib_test" >> {trace}; test -f lib.out'}]}
    d, ws_dir, root, env = _mk_ws(ctx, f"c18-test-{idx}/w", pkg)
    res = {"family": "phase:test-build", "command": "test", "signal": sig.name, "workers": 2, "delay": 0, "finished_before": False, "interrupted": True, "bad": []}
    bad = res["bad"]
    outp = os.path.join(d0, "out")
    p, fh = _start(ctx, ws_dir, env, ["test", "//pkg:lib_test"], outp)
    try:
        if not _wait_for(lambda: os.path.exists(pids), 20, p):
            bad.append(("harness-test-did-not-start", open(outp, errors="replace").read()[-400:]))
        time.sleep(0.3)
        try:
            os.kill(p.pid, sig)
        except ProcessLookupError:
            pass
        rc, lat, out = _finish(p, fh, outp)
        res.update(rc=rc, latency=round(lat, 2) if lat is not None else None)
        _verdict(bad, "grog test interrupted while a dependency of the test was being built", rc, lat, sig)
        time.sleep(0.5)
        shells = [(pid, comm) for pid, comm, _ in session_procs(p.pid) if comm in SHELLS]
        if shells:
            bad.append(("target-shell-survived-grog", f"{sig.name}: {shells} still run 0.5 s after grog test exited"))
        tr = open(trace).read() if os.path.exists(trace) else ""
        if "s lib_test" in tr or "e lib" in tr:
            bad.append(("command-started-after-signal", f"after the interrupt: {tr.split()}"))
        if _cache_entries(root):
            bad.append(("interrupted-target-cached", f"{_cache_entries(root)} target results cached although nothing finished"))
        if bad:
            res["out"] = out[-800:]
    finally:
        kill_session(p.pid)
        import shutil
        shutil.rmtree(d0, ignore_errors=True)
    return res


import threading
_EARLY = {}
_EARLY_LOCK = threading.Lock()


def early_phase_case(ctx, idx, sig, frac):
    """signal during BUILD-file loading (a slow BUILD.star plus a few thousand generated targets), analysis and selection:
    the time from process start to the first command is measured once, the signal is sent at `frac` of it"""
    d0 = ctx.scratch(f"c18-early-{idx}")
    trace = os.path.join(d0, "trace")
    star = ("def spin(n):\n    x = 0\n    for i in range(n):\n        x += i % 7\n    return x\n\nspin(6000000)\n"
            f'target(name = "t0", command = "echo \\"s t0 $(date +%s%N)\\" >> {trace}; sleep 0.4; echo x > t0.out; echo \\"e t0\\" >> {trace}", outputs = ["t0.out"])\n')
    files = {"pkg/BUILD.star": star}
    for pk in range(60):
        ts = [{"name": f"g{k}", "command": f"echo x > g{k}.out", "outputs": [f"g{k}.out"], "dependencies": ([f":g{k-1}"] if k else [])} for k in range(25)]
        files[f"gen{pk}/BUILD.json"] = json.dumps({"targets": ts})
    d, ws_dir, root, env = _mk_ws(ctx, f"c18-early-{idx}/w", None, extra_files=files)
    res = {"family": "phase:early", "command": "build", "signal": sig.name, "workers": 2, "frac": frac, "finished_before": False, "interrupted": True, "bad": []}
    bad = res["bad"]
    import shutil
    try:
        with _EARLY_LOCK:
          if "t_first" not in _EARLY:
              outp = os.path.join(d0, "cal.out")
              t0 = time.time()
              p, fh = _start(ctx, ws_dir, env, ["build", "//pkg:t0"], outp)
              _wait_for(lambda: os.path.exists(trace), 30, p)
              _EARLY["t_first"] = time.time() - t0
              _finish(p, fh, outp)
              kill_session(p.pid)
              shutil.rmtree(root, ignore_errors=True)
              os.makedirs(root)
              for f in ("trace",):
                  os.path.exists(os.path.join(d0, f)) and os.remove(os.path.join(d0, f))
              os.path.exists(os.path.join(ws_dir, "pkg", "t0.out")) and os.remove(os.path.join(ws_dir, "pkg", "t0.out"))
        delay = frac * _EARLY["t_first"]
        res["delay"], res["t_first"] = round(delay, 3), round(_EARLY["t_first"], 3)
        outp = os.path.join(d0, "out")
        p, fh = _start(ctx, ws_dir, env, ["build", "//pkg:t0"], outp)
        time.sleep(delay)
        t_sig_ns = time.time_ns()
        try:
            os.kill(p.pid, sig)
        except ProcessLookupError:
            pass
        rc, lat, out = _finish(p, fh, outp)
        res.update(rc=rc, latency=round(lat, 2) if lat is not None else None)
        time.sleep(0.4)
        tr = open(trace).read().split("\n") if os.path.exists(trace) else []
        started = [l for l in tr if l.startswith("s ")]
        ended = [l for l in tr if l.startswith("e ")]
        killed_before_handler = rc == -int(sig) and not started
        res["killed_before_handler"] = killed_before_handler
        if not killed_before_handler:
            _verdict(bad, f"grog build interrupted {delay:.2f} s after its start (first command normally starts after {_EARLY['t_first']:.2f} s)", rc, lat, sig,
                     must_be_nonzero=not ended)
        late = [l for l in started if int(l.split()[2]) > t_sig_ns + 0.5e9]
        if late:
            bad.append(("command-started-after-signal", f"a command started more than 0.5 s after {sig.name} sent {delay:.2f} s into loading/analysis"))
        if not ended and _cache_entries(root):
            bad.append(("interrupted-target-cached", "a target result was cached although its command never ended"))
        if bad:
            res["out"] = out[-800:]
    finally:
        kill_session(p.pid)
        shutil.rmtree(d0, ignore_errors=True)
    return res


def load_module_case(ctx, idx, sig, shape):
    """signal while a Starlark module that BUILD.star load()s (directly, or through another module, or as the second of two loads)
    does practically endless work at its top level: the evaluation of a loaded module runs on a thread of its own and has to be
    stopped by the cancellation too. `grog build`, `grog test`, `grog query`-like commands all load first; build is used here."""
    d0 = ctx.scratch(f"c18-loadmod-{idx}")
    spin = ("def _spin(n):\n    x = 0\n    for i in range(n):\n        for j in range(n):\n            x += 1\n    return x\n\n"
            "GENERATED = _spin(100000)\n\n")
    gen = 'def gen(name):\n    target(name = name, command = "echo " + str(GENERATED) + " > out.txt", outputs = ["out.txt"])\n'
    files = {}
    if shape == "direct":
        files["defs.star"] = spin + gen
        files["pkg/BUILD.star"] = 'load("//defs.star", "gen")\ngen("a")\n'
    elif shape == "nested":
        files["inner.star"] = spin
        files["defs.star"] = 'load("//inner.star", "GENERATED")\n' + gen
        files["pkg/BUILD.star"] = 'load("//defs.star", "gen")\ngen("a")\n'
    else:   # "second": a quick module first, the slow one second, in a package next to an ordinary JSON package
        files["quick.star"] = 'def q(name):\n    target(name = name, command = "true")\n'
        files["defs.star"] = spin + gen
        files["pkg/BUILD.star"] = 'load("//quick.star", "q")\nload("//defs.star", "gen")\nq("b")\ngen("a")\n'
        files["other/BUILD.json"] = json.dumps({"targets": [{"name": "o", "command": "true"}]})
    d, ws_dir, root, env = _mk_ws(ctx, f"c18-loadmod-{idx}/w", None, extra_files=files)
    res = {"family": "phase:load-module", "command": "build", "signal": sig.name, "workers": 2, "delay": 1.0, "shape": shape, "finished_before": False, "interrupted": True, "bad": []}
    import shutil
    outp = os.path.join(d0, "out")
    p, fh = _start(ctx, ws_dir, env, ["build", "//..."], outp)
    try:
        time.sleep(1.0)
        if p.poll() is not None:
            res["finished_before"] = True
            res["out"] = open(outp, errors="replace").read()[-600:]
            res["bad"].append(("load-module-scenario-did-not-run", f"grog exited with {p.returncode} before the signal: the slow module was not being evaluated"))
            return res
        os.kill(p.pid, sig)
        rc, lat, out = _finish(p, fh, outp, bound=12)
        res.update(rc=rc, latency=round(lat, 2) if lat is not None else None)
        if lat is None:
            res["bad"].append(("no-exit-after-signal", f"{sig.name} while a module load()ed by BUILD.star ({shape}) was being evaluated: grog was still running 12 s later"))
        else:
            _verdict(res["bad"], f"grog build interrupted while a load()ed Starlark module ({shape}) was being evaluated", rc, lat, sig)
        if res["bad"]:
            res["out"] = out[-600:]
    finally:
        kill_session(p.pid)
        shutil.rmtree(d0, ignore_errors=True)
    return res


def late_phase_case(ctx, idx, sig, phase):
    """phase 'write': the signal arrives right after the command of a target with a large output ended (outputs are being
    written to the cache); phase 'shutdown': after grog printed its summary"""
    d0 = ctx.scratch(f"c18-late-{idx}")
    trace = os.path.join(d0, "trace")
    size = 384 << 20 if phase == "write" else 1 << 10
    pkg = {"targets": [{"name": "big", "command": f'echo "s big" >> {trace}; head -c {size} /dev/zero > big.bin; echo "e big" >> {trace}', "outputs": ["big.bin"]},
                       {"name": "after", "dependencies": [":big"], "command": f'echo "s after $(date +%s%N)" >> {trace}; sleep 0.3; echo a > after.out', "outputs": ["after.out"]}]}
    d, ws_dir, root, env = _mk_ws(ctx, f"c18-late-{idx}/w", pkg)
    res = {"family": "phase:" + phase, "command": "build", "signal": sig.name, "workers": 2, "delay": 0, "finished_before": False, "interrupted": True, "bad": []}
    bad = res["bad"]
    outp = os.path.join(d0, "out")
    p, fh = _start(ctx, ws_dir, env, ["build", "//..."], outp)
    import shutil
    try:
        if phase == "write":
            _wait_for(lambda: os.path.exists(trace) and "e big" in open(trace).read(), 30, p)
            time.sleep(0.05)
        else:
            _wait_for(lambda: "Elapsed time" in open(outp, errors="replace").read(), 30, p)
        t_sig_ns = time.time_ns()
        finished_before = p.poll() is not None
        try:
            os.kill(p.pid, sig)
        except ProcessLookupError:
            finished_before = True
        rc, lat, out = _finish(p, fh, outp)
        res.update(rc=rc, latency=round(lat, 2) if lat is not None else None, finished_before=finished_before)
        done = "completed successfully" in out
        if not finished_before:
            _verdict(bad, f"grog build interrupted while {'writing a large output to the cache' if phase == 'write' else 'shutting down'}", rc, lat, sig,
                     must_be_nonzero=not done)
        time.sleep(0.4)
        tr = open(trace).read().splitlines() if os.path.exists(trace) else []
        late = [l for l in tr if l.startswith("s after") and int(l.split()[2]) > t_sig_ns + 0.5e9]
        if late and phase == "write":
            bad.append(("command-started-after-signal", f"the dependant's command started more than 0.5 s after {sig.name}"))
        entries = _cache_entries(root)
        res["cache_entries"] = entries
        # follow-up build: lock, consistent cache, outputs
        try:
            q = subprocess.run([ctx.grog_binary(), "build", "//..."], cwd=ws_dir, env=env, capture_output=True, text=True, timeout=40)
            rc2, out2 = q.returncode, q.stdout + q.stderr
        except subprocess.TimeoutExpired:
            rc2, out2 = 124, "TIMEOUT"
        if rc2 == 124 or "Another grog build" in out2:
            bad.append(("next-build-cannot-acquire-lock", "the build after the interrupt did not finish / had to wait for the lock"))
        elif rc2 != 0:
            bad.append(("follow-up-build-failed", f"the build after the interrupt exited {rc2}: {out2[-300:]}"))
        else:
            pth = os.path.join(ws_dir, "pkg", "big.bin")
            if not os.path.exists(pth) or os.path.getsize(pth) != size:
                bad.append(("follow-up-outputs-wrong", f"big.bin has {os.path.getsize(pth) if os.path.exists(pth) else 'no'} bytes after the follow-up build, expected {size}"))
        if bad:
            res["out"] = out[-800:]
    finally:
        kill_session(p.pid)
        shutil.rmtree(d0, ignore_errors=True)
    return res


confirmed = W.confirmed


def signal_case(ctx, idx, seed):
    import random
    rng = random.Random(seed)
    shape = rng.choice(["chain", "fan", "diamond"])
    if shape == "chain":
        n, edges, fam = W.g_chain(4)
    elif shape == "fan":
        n, edges, fam = W.g_fanout(6)
    else:
        n, edges, fam = W.g_diamonds(1)
    sleep = [rng.choice([0.2, 0.4, 0.8]) for _ in range(n)]
    workers = rng.choice([1, 2, 4])
    sleep_after = tuple(m for m in range(n) if rng.random() < 0.5)
    ws = W.CliWs(ctx, f"c18-{idx}", n, edges, sleep=sleep, workers=workers, dir_outputs=(n - 1,) if rng.random() < 0.5 else (), sleep_after=sleep_after)
    sig = rng.choice([signal.SIGINT, signal.SIGTERM])
    # signal time: start-up (0..0.1), execution, around the end (output writing / shutdown)
    zone = rng.random()
    delay = rng.uniform(0.0, 0.12) if zone < 0.2 else rng.uniform(0.12, 1.2) if zone < 0.8 else rng.uniform(1.2, 2.6)
    res = {"n": n, "edges": edges, "family": fam, "sleep": sleep, "workers": workers, "signal": sig.name, "delay": round(delay, 3), "bad": []}
    bad = res["bad"]
    p = subprocess.Popen([ws.grog, "build", "//..."], cwd=ws.ws, env=ws.env(), stdout=subprocess.PIPE, stderr=subprocess.STDOUT, text=True,
                         start_new_session=True)
    time.sleep(delay)
    finished_before = p.poll() is not None
    t_sig = time.time()
    t_sig_ns = time.time_ns()
    if not finished_before:
        try:
            os.kill(p.pid, sig)
        except ProcessLookupError:
            finished_before = True
    try:
        out, _ = p.communicate(timeout=30)
        latency = time.time() - t_sig
    except subprocess.TimeoutExpired:
        p.kill()
        out, _ = p.communicate()
        latency = 30.0
        bad.append(("no-exit-after-signal", f"grog did not exit within 30 s after {sig.name}"))
    rc = p.returncode
    time.sleep(0.3)     # let orphaned grandchildren (not covered by the property) write what they write
    left = [(pid, comm) for pid, comm, _ in session_procs(p.pid) if comm in SHELLS]
    if left:
        time.sleep(0.3)
        left = [(pid, comm) for pid, comm, _ in session_procs(p.pid) if comm in SHELLS]
        if left:
            bad.append(("target-shell-survived-grog", f"{sig.name}: target shell(s) {left} still run 0.6 s after grog exited"))
    tr = ws.read_trace()
    res.update(rc=rc, latency=round(latency, 2), finished_before=finished_before)
    started = {m: t for k, m, t in tr if k == "s"}
    ended = {m: t for k, m, t in tr if k == "e"}
    interrupted = not finished_before and ("Received signal" in out or rc != 0)
    res["interrupted"] = interrupted
    res["started"], res["ended"] = sorted(started), sorted(ended)
    if not finished_before:
        if rc == 0 and len(ended) < n:
            bad.append(("interrupt-exit-zero", f"build was interrupted by {sig.name} with {n - len(ended)} targets unfinished but exited 0"))
        killed_before_handler = rc == -int(sig) and not started      # signal arrived before signal.Notify: default action, nothing had started
        res["killed_before_handler"] = killed_before_handler
        if rc not in (0, 1) and not killed_before_handler:
            bad.append(("interrupt-crash", f"exit status {rc} after {sig.name}: {out[-400:]}"))
        if latency > 5.0:
            bad.append(("interrupt-slow-exit", f"grog exited {latency:.1f} s after {sig.name} (bound 5 s)"))
        late = sorted(m for m, t in started.items() if t > t_sig_ns + 0.5e9)
        if late:
            bad.append(("command-started-after-signal", f"commands of {late} started more than 0.5 s after {sig.name}"))
        survivors = sorted(m for m, t in ended.items() if m in started and started[m] < t_sig_ns and t > t_sig_ns + 1.5e9)
        if survivors:
            bad.append(("shell-survived-signal", f"target shells of {survivors} were running at the signal and still reached their end 1.5 s later"))
    entries = ws.target_cache_entries()
    res["cache_entries"] = entries
    if entries > len(ended):
        bad.append(("interrupted-target-cached", f"{entries} target results cached but only {len(ended)} commands ended"))
    # follow-up build on the same workspace
    b2 = ws.build()
    started2 = {m for k, m, _ in b2["trace"] if k == "s"}
    res["b2"] = {"rc": b2["rc"], "started": sorted(started2), "wall": round(b2["wall"], 2)}
    if b2["rc"] != 0:
        bad.append(("follow-up-build-failed", f"the build after the interrupt exited {b2['rc']}: {b2['out'][-400:]}"))
    else:
        must = set(range(n)) - set(ended)
        if must - started2:
            bad.append(("interrupted-target-not-rebuilt", f"targets {sorted(must - started2)} never ended before the interrupt but were not executed by the next build"))
        exp = expected_outputs(n, edges)
        wrong = []
        for i in range(n):
            pth = os.path.join(ws.ws, "pkg", f"t{i}.out")
            got = open(pth).read() if os.path.exists(pth) else None
            if got != exp[i]:
                wrong.append(i)
        if wrong:
            bad.append(("follow-up-outputs-wrong", f"outputs of {wrong} differ from a clean build after the interrupted build"))
    if bad:
        res["out"] = out[-1500:]
    ws.cleanup()
    return res


def run(ctx):
    quick = ctx.tier == "quick"
    rng = ctx.rng
    # ---- (a) in-process: external cancel at a random trace position --------------------------------
    ncases = 200 if quick else 3000
    cases = []
    for i in range(ncases):
        c = W.make_case(rng, maxn=60 if i % 5 else 300, cancel=True)
        if i % (16 if quick else 60) == 0:
            # callbacks that ignore the cancellation for a long time: Walk must not wait for them
            c = W.make_case(rng, maxn=12, cancel=True, workers=0)
            slow = set(rng.sample(range(c["n"]), min(2, c["n"])))
            c["latUs"] = [1000000 if m in slow else 0 for m in range(c["n"])]
            c["onCancel"] = ["ignore"] * c["n"]
            c["cancelAfterEvents"] = rng.randint(0, 4)
            c["fail"] = []
        cases.append(c)
    for c in cases:
        c["timeoutMs"] = 6000          # Walk has to return promptly after the cancel; not returning for 6 s is a hang
    outs = W.run_impl(ctx, cases, max_hangs=3)
    if outs is None:
        return
    cases = cases[:len(outs)]
    reps = W.replay_model(ctx, cases, outs)
    disagreements, oracle_fail, cancelled = [], 0, 0
    lat = []
    for c, o, r in zip(cases, outs, reps):
        if o.get("crash") or o.get("hang") or "error" in o:
            for prop, sig, msg in W.oracle(c, o):
                ctx.violation(msg, {"kind": "oracle", "case": c, "impl": {k: v for k, v in o.items() if k != "trace"}}, signature="cancel:" + sig)
            continue
        tr = o["trace"]
        has_c = any(e[0] == "c" for e in tr)
        cancelled += has_c
        for prop, sig, msg in W.oracle(c, o):
            if prop == "C18":
                oracle_fail += 1
                ctx.violation(msg, {"kind": "oracle", "case": c, "impl": o}, signature=sig)
        if has_c:
            ci = next(i for i, e in enumerate(tr) if e[0] == "c")
            ri = next((i for i, e in enumerate(tr) if e[0] == "r"), None)
            if ri is not None and ri > ci:
                if o.get("cancelToReturnUs", -1) >= 0:
                    lat.append(o["cancelToReturnUs"])
                if o.get("cancelToReturnUs", 0) > 400000 and o["err"] == "canceled":
                    oracle_fail += 1
                    ctx.violation(f"Walk returned {o['cancelToReturnUs']/1000:.0f} ms after the cancellation (callbacks that ignore the cancel must not be waited for)",
                                  {"kind": "oracle", "case": c, "impl": {k: v for k, v in o.items() if k != 'trace'}}, signature="walk-waits-after-cancel")
                if o["err"] == "none" and not c["failFast"]:
                    # returned nil although cancelled before the return: only legitimate if every routine had finished
                    if r.get("ok") and not r.get("allTerminal"):
                        oracle_fail += 1
                        ctx.violation("Walk returned nil after an external cancellation although not every selected node was resolved",
                                      {"kind": "oracle", "case": c, "impl": o}, signature="cancel-swallowed")
        if not r.get("ok"):
            disagreements.append((c, o, r))
    ctx.coverage["walker_cancel_cases"] = len(cases)
    ctx.coverage["walker_cancelled_before_return"] = cancelled
    ctx.coverage["cancel_to_return_us_max"] = max(lat) if lat else None
    ctx.coverage["traces_validated_against_impl"] = len(cases)
    ctx.coverage["trace_events_replayed"] = sum(len(o.get("trace", [])) for o in outs)
    # ---- (b) CLI signal runs -----------------------------------------------------------------------------
    results = []
    if ctx.grog_binary() is not None:
        nsig = 10 if quick else 150
        seeds = [rng.randrange(1 << 30) for _ in range(nsig)]
        with cf.ThreadPoolExecutor(max_workers=4) as ex:
            futs = [ex.submit(confirmed, survivor_case, ctx, i, v, sg) for i, (v, sg) in enumerate(
                [(v, sg) for v in ("plain", "trap", "ignore") for sg in (signal.SIGINT, signal.SIGTERM)] * (1 if quick else 4))]
            S = (signal.SIGINT, signal.SIGTERM)
            k = 100
            for j, cmd in enumerate(("build", "test", "run") * (1 if quick else 3)):
                futs.append(ex.submit(confirmed, lockwait_case, ctx, k + j, cmd, S[(j + ctx.seed) % 2]))
            k += 20
            for j, ph in enumerate(("run", "run", "build") * (1 if quick else 3)):
                futs.append(ex.submit(confirmed, run_phase_case, ctx, k + j, S[j % 2], ph))
            k += 20
            for j in range(1 if quick else 4):
                futs.append(ex.submit(confirmed, test_build_phase_case, ctx, k + j, S[(j + ctx.seed) % 2]))
            k += 20
            for j, fr in enumerate((0.25, 0.6, 0.9, 1.05) if quick else (0.1, 0.25, 0.4, 0.6, 0.75, 0.9, 0.97, 1.05, 1.2)):
                futs.append(ex.submit(confirmed, early_phase_case, ctx, k + j, S[(j + ctx.seed) % 2], fr))
            k += 20
            for j, ph in enumerate(("write", "shutdown") * (1 if quick else 3)):
                futs.append(ex.submit(confirmed, late_phase_case, ctx, k + j, S[(j + ctx.seed) % 2], ph))
            for j, shape in enumerate(("direct", "nested", "second") if quick else ("direct", "nested", "second") * 3):
                futs.append(ex.submit(confirmed, load_module_case, ctx, 600 + j, S[(j + ctx.seed) % 2], shape))
            futs += [ex.submit(confirmed, signal_case, ctx, i, s) for i, s in enumerate(seeds)]
            for f in futs:
                results.append(f.result())
        for r in results:
            for sig, msg in r["bad"]:
                oracle_fail += 1
                ctx.violation(msg, {"kind": "oracle", "oracle": "CLI signal run", "run": r}, signature=sig)
    ctx.coverage["cli_signal_runs"] = len(results)
    ctx.coverage["cli_phase_runs"] = {f: sum(1 for r in results if r["family"] == f) for f in sorted({r["family"] for r in results if r["family"].startswith("phase:")})}
    ctx.coverage["cli_commands"] = {c: sum(1 for r in results if r.get("command", "build") == c) for c in ("build", "test", "run")}
    ctx.coverage["cli_unconfirmed_oracle_failures"] = [(r["family"], r["unconfirmed"]) for r in results if r.get("unconfirmed")]
    ctx.coverage["cli_survivor_runs"] = {v: sum(1 for r in results if r.get("variant") == v) for v in ("plain", "trap", "ignore")}
    ctx.coverage["cli_orphaned_grandchildren_seen"] = sorted({c for r in results for c in r.get("orphaned_grandchildren", [])})
    ctx.coverage["cli_interrupted"] = sum(1 for r in results if r.get("interrupted"))
    ctx.coverage["cli_signals"] = {s: sum(1 for r in results if r["signal"] == s) for s in ("SIGINT", "SIGTERM")}
    ctx.coverage["cli_latency_max_s"] = max([(r.get("latency") or 0) for r in results if not r["finished_before"]] or [0])
    ctx.coverage["cli_delay_zones"] = {"startup<0.12": sum(1 for r in results if r["delay"] < 0.12), "execution": sum(1 for r in results if 0.12 <= r["delay"] < 1.2),
                                       "late": sum(1 for r in results if r["delay"] >= 1.2)}
    ctx.coverage["evaluations"] = len(cases) + len(results)
    ctx.coverage["distinct_nontrivial"] = len({(c["family"], c["n"], c["failFast"], c["workers"], c["cancelAfterEvents"]) for c, o in zip(cases, outs) if any(e[0] == "c" for e in o.get("trace", []))}) + \
        len({(r["family"], r["signal"], r["workers"], int(r["delay"] * 10)) for r in results if r.get("interrupted")})
    ctx.coverage["rule"] = (f"{len(cases)} in-process walks with an external cancel after a random number of trace events (some with callbacks that ignore the cancel for "
                            f"1 s) + {len(results)} CLI builds of slow targets (0.2-0.8 s sleeps, chain/fan/diamond, 1/2/4 workers, optional directory output) hit by SIGINT or "
                            "SIGTERM after 0..2.6 s, each followed by a second build; plus survivor runs (target shell records $$, long foreground child; scripts that do not handle / trap / "
                            "ignore TERM+INT): shell gone after grog's exit, nothing written afterwards, next build gets the lock; non-trivial = cancelled before Walk returned / interrupted before the build finished")
    # ---- (a2) Walk entered with an already cancelled context (signal during loading / selection / lock): never a silent success ----
    import vlib
    d = ctx.scratch("precancel")
    outp = os.path.join(d, "out.jsonl")
    nwalks = 40000 if quick else 400000
    rc, tout = vlib.go_test("./internal/dag/", "TestVerifPreCancelled$", timeout=1500,
                            env_extra={"VERIF_PRECANCEL_WALKS": str(nwalks), "VERIF_WALKER_OUT": outp})
    pre = [json.loads(l) for l in open(outp)] if os.path.exists(outp) else []
    if rc != 0 or not pre:
        ctx.harness_broken("go test of the pre-cancelled walk harness failed to build/run against the current tree", tout)
    ctx.coverage["precancelled_walks"] = {str(r["n"]): {"walks": r["walks"], "silent_success": r["silent"]} for r in pre}
    for r in pre:
        if r["silent"]:
            oracle_fail += 1
            ctx.violation(f"Walk was entered with a cancelled context, every callback reported context.Canceled, and in {r['silent']} of {r['walks']} walks over "
                          f"{r['n']} independent targets it returned (no error, no failed completion, targets unbuilt): RunBuild then prints "
                          "'Build completed successfully' and exits 0 after an interrupt",
                          {"kind": "oracle", "oracle": "a cancelled walk never reports success", "n": r["n"], "walks": r["walks"], "silent": r["silent"],
                           "how": "harness/intest/internal/dag/zz_verif_precancel_test.go (TestVerifPreCancelled)"},
                          signature="cancelled-walk-reports-success")
    # ---- (c) random CLI worlds of the shared generator, each with an interrupt on a build that is followed by another one ----
    if ctx.grog_binary() is not None:
        wres, wcov = _cliworld.run_worlds(ctx, 10 if quick else 150, None, interrupt_all=True)
        _cliworld.report(ctx, wres, wcov, "C18")
    ctx.coverage["oracle_failures"] = oracle_fail
    ctx.coverage["disagreements"] = len(disagreements)
    for r in results[:3]:
        ctx.sample({k: v for k, v in r.items() if k in ("family", "signal", "delay", "rc", "latency", "started", "ended", "cache_entries", "b2", "interrupted")})
    if disagreements and not ctx.violations:
        c, o, r = min(disagreements, key=lambda t: t[0]["n"])
        ctx.violation("a trace of the real walker (with cancellation) is not a run of the model: " + str(r.get("why", r)),
                      {"kind": "correspondence", "correspondence": "walker.run trace vs GrogModel.Walker.step", "case": c, "impl": o,
                       "model": {k: v for k, v in r.items() if k not in ("phases", "snap")}}, found_input=False)


def replay(ctx, rep):
    if "world" in rep:
        return _cliworld.replay(ctx, rep)
    if "case" in rep:
        c = rep["case"]
        outs = W.run_impl(ctx, [c])
        print("impl :", outs[0])
        print("oracle:", W.oracle(c, outs[0]))
        print("model:", W.replay_model(ctx, [c], outs)[0])
    else:
        print("signal run to repeat by hand:", {k: v for k, v in (rep.get("run") or {}).items() if k != "out"})
    return 0
