"""C18 — interrupts stop the build promptly and leave a recoverable state.

Theorem side : GrogModel/Props/C18.lean — the cancellation logic of walker / pool / task tail.
Correspondence: (a) in-process: the real dag.Walker (with and without the real pool) with an external cancel
               at a random point of the trace, callbacks that abort / fail / ignore the cancellation; traces
               replayed through the model; Walk must return promptly even when callbacks ignore the cancel;
               (b) the real CLI: workspaces with slow targets, SIGINT / SIGTERM at times drawn across start-up,
               execution, output writing and shutdown.
Oracle (no model): exit status non-zero when the signal arrived before the build finished; exit within 5 s
               of the signal; no command starts later than 0.5 s after the signal; a shell that was running at
               the signal does not reach its end line; target-cache entries <= targets that ended; the follow-up
               build acquires the lock, succeeds, re-executes every interrupted target and leaves the outputs
               of a clean build.
"""
import concurrent.futures as cf
import os, signal, subprocess, time
from checks import _walker as W

PROPERTY = "C18"
LEVEL = "proof"
LEVEL_TEXT = ("Lean 4 theorems about the cancellation slice of the walker / pool / task-tail models (interrupt at any state; no command start "
              "under a cancelled context, permanently; an interrupted command writes no result and gets no completion; Walk's return is enabled "
              "immediately after the cancellation and the remaining events are bounded; return through the cancellation implies non-zero exit; "
              "deadlock freedom with cancellation). Partial by nature: signal delivery, child-process trees and latency are runtime behaviour, "
              "sampled by real SIGINT/SIGTERM runs of the CLI at varied times with a follow-up build.")
LEVEL_NOTE = ("Only the target shells are required to terminate (grandchildren of `sh -c` are not killed by CommandContext); latency bound 5 s = "
              "1 s WaitDelay + margin; the next-build clause is checked at the CLI only (its proof is the composition of C10, C07 and C01, owned by "
              "other groups).")
TECHNIQUE = "Lean 4 proofs about the cancellation logic of an executable LTS + trace inclusion with external cancel + signal runs of the real CLI"
OBLIGATIONS = [
    "Grog.C18.interrupt_any_time",
    "Grog.C18.no_start_after_cancel",
    "Grog.C18.pool_ctx_stays_cancelled",
    "Grog.C18.interrupted_not_cached",
    "Grog.C18.aborted_stays_aborted",
    "Grog.C18.walk_returns",
    "Grog.C18.events_after_cancel_bounded",
    "Grog.C18.return_cancels_all",
    "Grog.C18.exit_nonzero",
    "Grog.C18.interrupted_walk_finishes",
]
ASSUMPTIONS = [
    "exec.CommandContext kills the target shell on cancellation and does not start one under a cancelled context (Go runtime, trusted)",
    "the signal handler cancels the root context (console/cmd_setup.go), sampled by the CLI runs",
    "next-build clause: checked on the real CLI only; the proof composes C10/C07/C01 of other groups",
]


def expected_outputs(n, edges):
    ins = W.deps_of(n, edges)
    out = {}
    for i in range(n):
        out[i] = "".join(out[d] for d in ins[i]) + f"t{i}\n"
    return out


def signal_case(ctx, idx, seed):
    import random
    rng = random.Random(seed)
    shape = rng.choice(["chain", "fan", "diamond"])
    if shape == "chain":
        n, edges, fam = W.g_chain(4)
    elif shape == "fan":
        n, edges, fam = W.g_fanout(6)
    else:
        n, edges, fam = W.g_diamonds(1)
    sleep = [rng.choice([0.2, 0.4, 0.8]) for _ in range(n)]
    workers = rng.choice([1, 2, 4])
    sleep_after = tuple(m for m in range(n) if rng.random() < 0.5)
    ws = W.CliWs(ctx, f"c18-{idx}", n, edges, sleep=sleep, workers=workers, dir_outputs=(n - 1,) if rng.random() < 0.5 else (), sleep_after=sleep_after)
    sig = rng.choice([signal.SIGINT, signal.SIGTERM])
    # signal time: start-up (0..0.1), execution, around the end (output writing / shutdown)
    zone = rng.random()
    delay = rng.uniform(0.0, 0.12) if zone < 0.2 else rng.uniform(0.12, 1.2) if zone < 0.8 else rng.uniform(1.2, 2.6)
    res = {"n": n, "edges": edges, "family": fam, "sleep": sleep, "workers": workers, "signal": sig.name, "delay": round(delay, 3), "bad": []}
    bad = res["bad"]
    p = subprocess.Popen([ws.grog, "build", "//..."], cwd=ws.ws, env=ws.env(), stdout=subprocess.PIPE, stderr=subprocess.STDOUT, text=True,
                         start_new_session=True)
    time.sleep(delay)
    finished_before = p.poll() is not None
    t_sig = time.time()
    t_sig_ns = time.time_ns()
    if not finished_before:
        try:
            os.kill(p.pid, sig)
        except ProcessLookupError:
            finished_before = True
    try:
        out, _ = p.communicate(timeout=30)
        latency = time.time() - t_sig
    except subprocess.TimeoutExpired:
        p.kill()
        out, _ = p.communicate()
        latency = 30.0
        bad.append(("no-exit-after-signal", f"grog did not exit within 30 s after {sig.name}"))
    rc = p.returncode
    time.sleep(0.3)     # let orphaned grandchildren (not covered by the property) write what they write
    tr = ws.read_trace()
    res.update(rc=rc, latency=round(latency, 2), finished_before=finished_before)
    started = {m: t for k, m, t in tr if k == "s"}
    ended = {m: t for k, m, t in tr if k == "e"}
    interrupted = not finished_before and ("Received signal" in out or rc != 0)
    res["interrupted"] = interrupted
    res["started"], res["ended"] = sorted(started), sorted(ended)
    if not finished_before:
        if rc == 0 and len(ended) < n:
            bad.append(("interrupt-exit-zero", f"build was interrupted by {sig.name} with {n - len(ended)} targets unfinished but exited 0"))
        killed_before_handler = rc == -int(sig) and not started      # signal arrived before signal.Notify: default action, nothing had started
        res["killed_before_handler"] = killed_before_handler
        if rc not in (0, 1) and not killed_before_handler:
            bad.append(("interrupt-crash", f"exit status {rc} after {sig.name}: {out[-400:]}"))
        if latency > 5.0:
            bad.append(("interrupt-slow-exit", f"grog exited {latency:.1f} s after {sig.name} (bound 5 s)"))
        late = sorted(m for m, t in started.items() if t > t_sig_ns + 0.5e9)
        if late:
            bad.append(("command-started-after-signal", f"commands of {late} started more than 0.5 s after {sig.name}"))
        survivors = sorted(m for m, t in ended.items() if m in started and started[m] < t_sig_ns and t > t_sig_ns + 1.5e9)
        if survivors:
            bad.append(("shell-survived-signal", f"target shells of {survivors} were running at the signal and still reached their end 1.5 s later"))
    entries = ws.target_cache_entries()
    res["cache_entries"] = entries
    if entries > len(ended):
        bad.append(("interrupted-target-cached", f"{entries} target results cached but only {len(ended)} commands ended"))
    # follow-up build on the same workspace
    b2 = ws.build()
    started2 = {m for k, m, _ in b2["trace"] if k == "s"}
    res["b2"] = {"rc": b2["rc"], "started": sorted(started2), "wall": round(b2["wall"], 2)}
    if b2["rc"] != 0:
        bad.append(("follow-up-build-failed", f"the build after the interrupt exited {b2['rc']}: {b2['out'][-400:]}"))
    else:
        must = set(range(n)) - set(ended)
        if must - started2:
            bad.append(("interrupted-target-not-rebuilt", f"targets {sorted(must - started2)} never ended before the interrupt but were not executed by the next build"))
        exp = expected_outputs(n, edges)
        wrong = []
        for i in range(n):
            pth = os.path.join(ws.ws, "pkg", f"t{i}.out")
            got = open(pth).read() if os.path.exists(pth) else None
            if got != exp[i]:
                wrong.append(i)
        if wrong:
            bad.append(("follow-up-outputs-wrong", f"outputs of {wrong} differ from a clean build after the interrupted build"))
    if bad:
        res["out"] = out[-1500:]
    ws.cleanup()
    return res


def run(ctx):
    quick = ctx.tier == "quick"
    rng = ctx.rng
    # ---- (a) in-process: external cancel at a random trace position --------------------------------
    ncases = 200 if quick else 3000
    cases = []
    for i in range(ncases):
        c = W.make_case(rng, maxn=60 if i % 5 else 300, cancel=True)
        if i % (16 if quick else 60) == 0:
            # callbacks that ignore the cancellation for a long time: Walk must not wait for them
            c = W.make_case(rng, maxn=12, cancel=True, workers=0)
            slow = set(rng.sample(range(c["n"]), min(2, c["n"])))
            c["latUs"] = [1000000 if m in slow else 0 for m in range(c["n"])]
            c["onCancel"] = ["ignore"] * c["n"]
            c["cancelAfterEvents"] = rng.randint(0, 4)
            c["fail"] = []
        cases.append(c)
    outs = W.run_impl(ctx, cases)
    if outs is None:
        return
    reps = W.replay_model(ctx, cases, outs)
    disagreements, oracle_fail, cancelled = [], 0, 0
    lat = []
    for c, o, r in zip(cases, outs, reps):
        if o.get("crash") or o.get("hang") or "error" in o:
            for prop, sig, msg in W.oracle(c, o):
                ctx.violation(msg, {"kind": "oracle", "case": c, "impl": {k: v for k, v in o.items() if k != "trace"}}, signature="cancel:" + sig)
            continue
        tr = o["trace"]
        has_c = any(e[0] == "c" for e in tr)
        cancelled += has_c
        for prop, sig, msg in W.oracle(c, o):
            if prop == "C18":
                oracle_fail += 1
                ctx.violation(msg, {"kind": "oracle", "case": c, "impl": o}, signature=sig)
        if has_c:
            ci = next(i for i, e in enumerate(tr) if e[0] == "c")
            ri = next((i for i, e in enumerate(tr) if e[0] == "r"), None)
            if ri is not None and ri > ci:
                if o.get("cancelToReturnUs", -1) >= 0:
                    lat.append(o["cancelToReturnUs"])
                if o.get("cancelToReturnUs", 0) > 400000 and o["err"] == "canceled":
                    oracle_fail += 1
                    ctx.violation(f"Walk returned {o['cancelToReturnUs']/1000:.0f} ms after the cancellation (callbacks that ignore the cancel must not be waited for)",
                                  {"kind": "oracle", "case": c, "impl": {k: v for k, v in o.items() if k != 'trace'}}, signature="walk-waits-after-cancel")
                if o["err"] == "none" and not c["failFast"]:
                    # returned nil although cancelled before the return: only legitimate if every routine had finished
                    if r.get("ok") and not r.get("allTerminal"):
                        oracle_fail += 1
                        ctx.violation("Walk returned nil after an external cancellation although not every selected node was resolved",
                                      {"kind": "oracle", "case": c, "impl": o}, signature="cancel-swallowed")
        if not r.get("ok"):
            disagreements.append((c, o, r))
    ctx.coverage["walker_cancel_cases"] = len(cases)
    ctx.coverage["walker_cancelled_before_return"] = cancelled
    ctx.coverage["cancel_to_return_us_max"] = max(lat) if lat else None
    ctx.coverage["traces_validated_against_impl"] = len(cases)
    ctx.coverage["trace_events_replayed"] = sum(len(o.get("trace", [])) for o in outs)
    # ---- (b) CLI signal runs -----------------------------------------------------------------------------
    results = []
    if ctx.grog_binary() is not None:
        nsig = 16 if quick else 150
        seeds = [rng.randrange(1 << 30) for _ in range(nsig)]
        with cf.ThreadPoolExecutor(max_workers=4) as ex:
            for f in [ex.submit(signal_case, ctx, i, s) for i, s in enumerate(seeds)]:
                results.append(f.result())
        for r in results:
            for sig, msg in r["bad"]:
                oracle_fail += 1
                ctx.violation(msg, {"kind": "oracle", "oracle": "CLI signal run", "run": r}, signature=sig)
    ctx.coverage["cli_signal_runs"] = len(results)
    ctx.coverage["cli_interrupted"] = sum(1 for r in results if r.get("interrupted"))
    ctx.coverage["cli_signals"] = {s: sum(1 for r in results if r["signal"] == s) for s in ("SIGINT", "SIGTERM")}
    ctx.coverage["cli_latency_max_s"] = max([r["latency"] for r in results if not r["finished_before"]] or [0])
    ctx.coverage["cli_delay_zones"] = {"startup<0.12": sum(1 for r in results if r["delay"] < 0.12), "execution": sum(1 for r in results if 0.12 <= r["delay"] < 1.2),
                                       "late": sum(1 for r in results if r["delay"] >= 1.2)}
    ctx.coverage["evaluations"] = len(cases) + len(results)
    ctx.coverage["distinct_nontrivial"] = len({(c["family"], c["n"], c["failFast"], c["workers"], c["cancelAfterEvents"]) for c, o in zip(cases, outs) if any(e[0] == "c" for e in o.get("trace", []))}) + \
        len({(r["family"], r["signal"], r["workers"], int(r["delay"] * 10)) for r in results if r.get("interrupted")})
    ctx.coverage["rule"] = (f"{len(cases)} in-process walks with an external cancel after a random number of trace events (some with callbacks that ignore the cancel for "
                            f"1 s) + {len(results)} CLI builds of slow targets (0.2-0.8 s sleeps, chain/fan/diamond, 1/2/4 workers, optional directory output) hit by SIGINT or "
                            "SIGTERM after 0..2.6 s, each followed by a second build; non-trivial = cancelled before Walk returned / interrupted before the build finished")
    ctx.coverage["oracle_failures"] = oracle_fail
    ctx.coverage["disagreements"] = len(disagreements)
    for r in results[:3]:
        ctx.sample({k: v for k, v in r.items() if k in ("family", "signal", "delay", "rc", "latency", "started", "ended", "cache_entries", "b2", "interrupted")})
    if disagreements and not ctx.violations:
        c, o, r = min(disagreements, key=lambda t: t[0]["n"])
        ctx.violation("a trace of the real walker (with cancellation) is not a run of the model: " + str(r.get("why", r)),
                      {"kind": "correspondence", "correspondence": "walker.run trace vs GrogModel.Walker.step", "case": c, "impl": o,
                       "model": {k: v for k, v in r.items() if k not in ("phases", "snap")}}, found_input=False)


def replay(ctx, rep):
    if "case" in rep:
        c = rep["case"]
        outs = W.run_impl(ctx, [c])
        print("impl :", outs[0])
        print("oracle:", W.oracle(c, outs[0]))
        print("model:", W.replay_model(ctx, [c], outs)[0])
    else:
        print("signal run to repeat by hand:", {k: v for k, v in (rep.get("run") or {}).items() if k != "out"})
    return 0
