"""History-correspondence harness shared by C01, C02, C13, C14, C15 (and reusable by others).

A *workspace* is a plain dict (JSON-able):

  {"targets": {label: {"pkg","name","globs","excl","salt","deps","outs":[{"dir","rel"}],"fp":{},"nocache":bool,
                        "checks":[{"flag":wsrel,"exp":str|None}],"beh":0|1|2,"skip":[rel],"sets":[[wsrel,content]]}},
   "aliases": {label: actual label},
   "files":   {wsrel path: content}}              # source files

A *history* is {"ws": workspace, "algo": "xxh3"|"sha256", "steps": [...], "tags": [...]} with steps

  {"k":"edit",  "ws": new workspace, "writes": [[wsrel, content|None], ...], "what": text}
        (writes = raw file operations: sources are derived from ws["files"]; tampering with output paths and
         external files goes through "writes"; {"rmtree": wsrel} entries delete a directory tree)
  {"k":"taint", "patterns": [...]}
  {"k":"drop",  "path": wsrel}                     # remove the CAS blob of the file currently at that path (sha256 only)
  {"k":"build", "patterns": [...], "minimal": bool, "enable_cache": bool, "fail_fast": bool}

Every generated command appends its label to an O_APPEND trace and computes each output as a fixed function
of its resolved inputs and of the declared outputs of its direct dependencies (aliases followed); the same
function is `concreteRun` in lean/GrogModel/Drv/Build.lean.
"""
import copy, hashlib, json, os, shutil, subprocess, fnmatch
from concurrent.futures import ThreadPoolExecutor

ALL_FIXES = {"gateChecks": True, "syncTaint": True, "rerunOnce": True, "minValidate": True, "loadFault": True, "checkDeps": True, "alias": True}


# ------------------------------------------------------------------------------------------------
# resolution (what the loader / analysis / selection do, re-done here independently)
# ------------------------------------------------------------------------------------------------

def lab(pkg, name):
    return "//" + pkg + ":" + name


def resolve_alias(ws, l):
    seen = set()
    while l in ws["aliases"]:
        if l in seen:
            return None
        seen.add(l)
        l = ws["aliases"][l]
    return l if l in ws["targets"] else None


def rdeps(ws, l):
    """direct dependencies with aliases followed (sorted, unique)"""
    out = []
    for d in ws["targets"][l]["deps"]:
        r = resolve_alias(ws, d)
        if r is not None and r not in out:
            out.append(r)
    return sorted(out)


def direct_target_deps(ws, l):
    return sorted(d for d in ws["targets"][l]["deps"] if d in ws["targets"])


def glob_match(pat, rel):
    """the three glob shapes the generators use: NAME, DIR/*.ext or *.ext (one level), DIR/**/*.ext"""
    if "**" in pat:
        base, _, tail = pat.partition("/**/")
        if not rel.startswith(base + "/"):
            return False
        return fnmatch.fnmatchcase(rel.rsplit("/", 1)[-1], tail)
    if any(c in pat for c in "*?["):
        pd, _, pn = pat.rpartition("/")
        rd, _, rn = rel.rpartition("/")
        return pd == rd and fnmatch.fnmatchcase(rn, pn)
    return pat == rel


def real_path(ws, p):
    """the real file behind a path that goes through a symlinked directory of the workspace"""
    for lk, tg in ws.get("links", {}).items():
        if p.startswith(lk + "/"):
            return tg + p[len(lk):]
    return p


def all_files(ws):
    """source files incl. the paths under which they are also visible through symlinked directories"""
    files = dict(ws["files"])
    for lk, tg in ws.get("links", {}).items():
        for p, c in ws["files"].items():
            if p.startswith(tg + "/"):
                files[lk + p[len(tg):]] = c
    return files


def present_files(ws, extra=None):
    files = all_files(ws)
    if extra:
        files.update(extra)
    return files


def resolved_inputs(ws, l, extra_files=None):
    """package-relative resolved inputs of a target, as the loader computes them (sorted, unique)"""
    t = ws["targets"][l]
    pre = t["pkg"] + "/" if t["pkg"] else ""
    files = present_files(ws, extra_files)
    rels = [p[len(pre):] for p in files if p.startswith(pre)]
    res = set()
    for g in t["globs"]:
        if any(c in g for c in "*?["):
            res.update(r for r in rels if glob_match(g, r))
        else:
            res.add(g)
    for e in t.get("excl", []):
        res = {r for r in res if not glob_match(e, r)}
    return sorted(res)


def topo(ws, labels):
    order, seen = [], set()

    def visit(l):
        if l in seen:
            return
        seen.add(l)
        for d in rdeps(ws, l):
            visit(d)
        order.append(l)
    for l in sorted(labels):
        visit(l)
    return order


def pattern_matches(pat, l):
    pkg, name = l[2:].split(":")
    body = pat[2:]
    tname = None
    if ":" in body:
        body, tname = body.split(":", 1)
    if body == "...":
        ok = True
    elif body.endswith("/..."):
        base = body[:-4]
        ok = pkg == base or pkg.startswith(base + "/")
    else:
        ok = pkg == body
        if tname is None:
            tname = body.rsplit("/", 1)[-1]
    return ok and (tname in (None, "all", "...") or tname == name)


def selected(ws, patterns):
    """targets a `grog build patterns` processes: matches (targets and aliases) + dependency closure"""
    roots = set()
    for l in list(ws["targets"]) + list(ws["aliases"]):
        if any(pattern_matches(p, l) for p in patterns):
            r = resolve_alias(ws, l) if l in ws["aliases"] else l
            if r is not None:
                roots.add(r)
    return topo(ws, roots)


def matched_targets(ws, patterns):
    return sorted(l for l in ws["targets"] if any(pattern_matches(p, l) for p in patterns))


def out_path(t, o):
    return (t["pkg"] + "/" if t["pkg"] else "") + o["rel"]


def all_outs(t):
    """declared outputs incl. the bin_output (a file the command does not write: a checked-in script that is also an input)"""
    return list(t["outs"]) + ([{"dir": False, "rel": t["bin"], "bin": True}] if t.get("bin") else [])


def sorted_outs(t):
    """declared outputs in the canonical order used by model and commands (by definition string)"""
    return sorted(all_outs(t), key=lambda o: ("dir::" if o["dir"] else "") + o["rel"])


def all_out_paths(ws):
    return {out_path(t, o): o["dir"] for t in ws["targets"].values() for o in all_outs(t)}


def wf(ws):
    """inputs disjoint from declared outputs (the WF predicate of the theorems), judged on patterns"""
    outs = {out_path(t, o): o["dir"] for t in ws["targets"].values() for o in t["outs"]}
    for l, t in ws["targets"].items():
        pre = t["pkg"] + "/" if t["pkg"] else ""
        for p in outs:
            if p.startswith(pre):
                rel = p[len(pre):]
                if any(glob_match(g, rel) for g in t["globs"]):
                    return False
    return True


# ------------------------------------------------------------------------------------------------
# rendering to a real grog workspace
# ------------------------------------------------------------------------------------------------

def q(s):
    assert "'" not in s
    return "'" + s + "'"


def cmd_text(ws, l):
    t = ws["targets"][l]
    pre = t["pkg"] + "/" if t["pkg"] else ""
    if t.get("raw"):
        return "printf '%s\\n' " + q(l) + ' >> "$VERIF_TRACE"\n' + t["raw"]
    L = [": " + q(t["salt"]), "printf '%s\\n' " + q(l) + ' >> "$VERIF_TRACE"']
    if t.get("slow"):
        # a command that is still running when the build is interrupted (a shell loop: killing the shell ends it)
        L.append("i=0; while [ $i -lt %d ]; do sleep 0.1; i=$((i+1)); done" % int(t["slow"]))
    if t.get("failif"):
        # fails while a file outside inputs / outputs exists: a failure that does not change the target's key
        L.append('if [ -e "$GROG_WORKSPACE_ROOT/' + t["failif"] + '" ]; then exit 3; fi')
    beh = t.get("beh", 0)
    if beh == 1:
        L.append("exit 3")
    if beh == 2:
        L.append("sleep 3")
    if beh >= 3:
        # the script ENDS with a statement whose failure `set -e` does not turn into an abort (or a subshell / child exit):
        # the exit status of the script is the status of that last statement
        L.append({3: "false && true", 4: "! true", 5: "(exit 3)", 6: "sh -c 'exit 4'",
                  # overruns its 300 ms timeout and exits 0 when it is asked to terminate (graceful shutdown)
                  7: "trap 'exit 0' TERM; sleep 3 & wait $!"}.get(beh, "exit 5"))
        return "\n".join(L)
    L.append('W="$GROG_WORKSPACE_ROOT"')
    L.append('c="$(mktemp)"')
    lst = []
    for g in t["globs"]:
        if "**" in g:
            base, _, tail = g.partition("/**/")
            lst.append("find -L " + q(base) + " -type f -name " + q(tail) + " 2>/dev/null || true")
        elif any(ch in g for ch in "*?["):
            lst.append("ls -1 " + g + " 2>/dev/null || true")
        else:
            lst.append("if [ -f " + q(g) + " ]; then echo " + q(g) + "; fi")
    excl = ""
    if t.get("excl"):
        excl = 'case "$f" in ' + "|".join(t["excl"]) + ") continue;; esac; "
    if lst:
        L.append("{ " + "; ".join(lst) + "; } | LC_ALL=C sort -u | while IFS= read -r f; do " + excl +
                 "printf '%s\\n' \"$f\"; done > \"$c.l\"")
    else:
        L.append(': > "$c.l"')
    L.append("while IFS= read -r f; do printf 'I %s\\n' \"" + pre + "$f\"; cat \"$f\"; done < \"$c.l\" > \"$c\"")
    for d in rdeps(ws, l):
        dt = ws["targets"][d]
        for o in sorted_outs(dt):
            p = out_path(dt, o)
            L.append("printf 'D %s\\n' " + q(p) + ' >> "$c"')
            if o["dir"]:
                L.append('( cd "$W/' + p + "\" && find . \\( -type f -o -type l \\) | LC_ALL=C sort | while IFS= read -r f; do "
                         "if [ -L \"$f\" ]; then printf 'L %s %s\\n' \"$f\" \"$(readlink \"$f\")\"; "
                         "else printf 'F %s\\n' \"$f\"; cat \"$f\"; fi; done ) >> \"$c\"")
            else:
                L.append('cat "$W/' + p + '" >> "$c"')
    if t.get("split"):
        L.append('n=$(wc -l < "$c.l")')
    written = [o for o in sorted_outs(t) if o["rel"] not in t.get("skip", []) and not o.get("bin")]
    for k, o in enumerate(written):
        p = out_path(t, o)
        hdr = "printf 'T %s %s\\n' " + q(t["salt"]) + ('"@$GROG_OS/$GROG_ARCH"' if t.get("usesplat") else "") + " " + q(p)
        if o["dir"]:
            D = '"$W/' + p
            L.append('rm -rf ' + D + '"; mkdir -p ' + D + '/sub"')
            L.append("{ " + hdr + '; cat "$c"; } > ' + D + '/a.txt"')
            L.append("{ " + hdr + '; cat "$c"; printf \'+\\n\'; } > ' + D + '/sub/b.txt"')
            if p.endswith("bulk"):
                L.append('mkdir -p ' + D + '/many"; for i in $(seq -w 0 599); do printf \'%s\\n\' "$i" > ' + D + '/many/k$i"; done')
            L.append(': > ' + D + '/empty.txt"')
            L.append('ln -s a.txt ' + D + '/link"')
            L.append('if [ -s "$c.l" ]; then mkdir -p ' + D + '/in"; fi')
            L.append('while IFS= read -r f; do cat "$f" > ' + D + '/in/$(printf \'%s\' "' + pre + '$f" | tr / _)"; done < "$c.l"')
        else:
            L.append('mkdir -p "$(dirname "$W/' + p + '")"')
            normal = "{ " + hdr + '; cat "$c"; } > "$W/' + p + '"'
            if p.endswith(".empty"):
                normal = ': > "$W/' + p + '"'         # a stamp: legitimately empty output
            if t.get("split"):
                # splitter: output k is a copy of input (k mod n); the order of outputs is the canonical (sorted) one
                L.append('if [ "$n" -gt 0 ]; then f=$(sed -n "$(( ' + str(k) + ' % n + 1 ))p" "$c.l"); { printf \'S\\n\'; cat "$f"; } > "$W/' + p +
                         '"; else ' + normal + "; fi")
            else:
                L.append(normal)
    for p, content in t.get("sets", []):
        L.append('mkdir -p "$(dirname "$W/' + p + '")"; printf \'%s\' ' + q(content) + ' > "$W/' + p + '"')
    L.append('rm -f "$c" "$c.l"')
    return "\n".join(L)


def check_cmd(chk):
    f = '"$GROG_WORKSPACE_ROOT/' + chk["flag"] + '"'
    if chk.get("rel"):
        f = q(chk["rel"])               # relative to the package directory: the same text in every package
    if chk.get("envvar"):
        f = '"$' + chk["envvar"] + '"'  # the file is named by a per-target environment variable
    form = chk.get("form", 0)
    if chk["exp"] is None:
        # shell-level variety: a failing non-final element of an && list and a negated pipeline do not trigger `set -e`;
        # the status of the check is the status of that last statement
        return {"command": {0: "test -f " + f, 1: "test -f " + f + " && true", 2: "! test ! -f " + f}[form % 3]}
    return {"command": {0: "cat " + f, 1: "test -f " + f + " && cat " + f}[form % 2], "expected_output": chk["exp"].strip()}


def build_files(ws):
    """BUILD.json text per package"""
    pk = {}
    for l, t in sorted(ws["targets"].items()):
        d = {"name": t["name"]} if t.get("nocmd") else {"name": t["name"], "command": cmd_text(ws, l)}
        if t["globs"]:
            d["inputs"] = list(t["globs"])
        if t.get("excl"):
            d["exclude_inputs"] = list(t["excl"])
        if t["deps"]:
            d["dependencies"] = list(t["deps"])
        if t["outs"]:
            d["outputs"] = [("dir::" if o["dir"] else "") + o["rel"] for o in t["outs"]]
        if t.get("bin"):
            d["bin_output"] = t["bin"]
        if t.get("fp"):
            d["fingerprint"] = dict(t["fp"])
        if t.get("nocache"):
            d["tags"] = ["no-cache"]
        if t.get("mpc"):
            d["tags"] = d.get("tags", []) + ["multiplatform-cache"]
        if t.get("platforms"):
            d["platforms"] = list(t["platforms"])
        if t.get("env"):
            d["environment_variables"] = dict(t["env"])
        if t.get("checks"):
            d["output_checks"] = [check_cmd(c) for c in t["checks"]]
        if t.get("beh", 0) in (2, 7):
            d["timeout"] = "300ms"
        pk.setdefault(t["pkg"], {"targets": [], "aliases": []})["targets"].append(d)
    for l, a in sorted(ws["aliases"].items()):
        pkg, name = l[2:].split(":")
        pk.setdefault(pkg, {"targets": [], "aliases": []})["aliases"].append({"name": name, "actual": a})
    return {(p + "/" if p else "") + "BUILD.json": json.dumps(v, indent=1, sort_keys=True) for p, v in pk.items()}


def write_file(root, rel, content):
    p = os.path.join(root, rel)
    os.makedirs(os.path.dirname(p), exist_ok=True)
    if os.path.isdir(p):
        shutil.rmtree(p)
    with open(p, "wb") as fh:
        fh.write(content.encode("latin-1"))


def sync_links(root, old, new):
    ol, nl = (old.get("links", {}) if old else {}), new.get("links", {})
    for lk in set(ol) - set(nl):
        try:
            os.remove(os.path.join(root, lk))
        except OSError:
            pass
    for lk, tg in nl.items():
        full = os.path.join(root, lk)
        if ol.get(lk) == tg and os.path.islink(full):
            continue
        os.makedirs(os.path.dirname(full), exist_ok=True)
        if os.path.islink(full):
            os.remove(full)
        os.makedirs(os.path.join(root, tg), exist_ok=True)
        os.symlink(os.path.relpath(os.path.join(root, tg), os.path.dirname(full)), full)


def sync_ws(root, old, new):
    """bring the source side of the real workspace from `old` (or nothing) to `new`"""
    sync_links(root, old, new)
    ob, nb = (build_files(old) if old else {}), build_files(new)
    of, nf = (old["files"] if old else {}), new["files"]
    for p in set(ob) - set(nb) | set(of) - set(nf):
        try:
            os.remove(os.path.join(root, p))
        except FileNotFoundError:
            pass
    for p, c in list(nb.items()) + list(nf.items()):
        if (ob.get(p) if p in ob else of.get(p)) != c or not os.path.exists(os.path.join(root, p)):
            write_file(root, p, c)


def apply_writes(root, writes):
    for w in writes:
        if isinstance(w, dict):
            if "stampall" in w:
                stamp_all(root, w["stampall"])
                continue
            if "dirtamper" in w:
                d = os.path.join(root, w["dirtamper"])
                if os.path.isdir(d):
                    if w["op"] == "extra":
                        write_file(d, "zz_stale.txt", "stale\n")
                    elif w["op"] == "extrasub":
                        write_file(d, "in/zz_stale.in", "stale\n")
                    elif w["op"] == "mod":
                        write_file(d, "a.txt", "modified\n")
                    elif w["op"] == "rmfile":
                        try:
                            os.remove(os.path.join(d, "sub", "b.txt"))
                        except FileNotFoundError:
                            pass
                continue
            shutil.rmtree(os.path.join(root, w["rmtree"]), ignore_errors=True)
            continue
        p, c = w
        if c is None:
            full = os.path.join(root, p)
            if os.path.isdir(full):
                shutil.rmtree(full)
            else:
                try:
                    os.remove(full)
                except FileNotFoundError:
                    pass
        else:
            write_file(root, p, c)


def stamp_all(root, ns):
    """a checkout tool that restores timestamps: every regular file of the workspace gets the same modification time"""
    for dp, dns, fns in os.walk(root):
        for fn in fns:
            fp = os.path.join(dp, fn)
            if os.path.isfile(fp) and not os.path.islink(fp):
                os.utime(fp, ns=(ns, ns))


DIR_MAGIC = b"\x00DIR\x00"


def _fr(b):
    return str(len(b)).encode() + b":" + b


def read_path(root, p):
    """canonical value of a path: file bytes; for a directory the encoded entry set (DirVal.encTree in Lean); None if absent"""
    full = os.path.join(root, p)
    if os.path.isdir(full) and not os.path.islink(full):
        acc = []
        for dp, _, fns in os.walk(full):
            for fn in fns:
                rel = "./" + os.path.relpath(os.path.join(dp, fn), full)
                acc.append(rel)
        out = DIR_MAGIC
        for rel in sorted(acc, key=lambda s: s.encode()):
            fp = os.path.join(full, rel)
            if os.path.islink(fp):
                out += b"L" + _fr(rel.encode()) + _fr(os.readlink(fp).encode())
            else:
                out += b"F" + _fr(rel.encode()) + _fr(open(fp, "rb").read())
        return out.decode("latin-1")
    if os.path.isfile(full):
        if os.path.getsize(full) > (1 << 20):
            # big artefacts are summarised (digest + size), not kept in memory once per snapshot
            hh = hashlib.sha256()
            with open(full, "rb") as fh:
                for chunk in iter(lambda: fh.read(1 << 20), b""):
                    hh.update(chunk)
            return "BIG:%s:%d" % (hh.hexdigest(), os.path.getsize(full))
        return open(full, "rb").read().decode("latin-1")
    return None


def watch_paths(hist):
    ws_list = [hist["ws"]] + [s["ws"] for s in hist["steps"] if s["k"] == "edit"]
    paths = set()
    for ws in ws_list:
        paths.update(all_out_paths(ws))
        for t in ws["targets"].values():
            paths.update(c["flag"] for c in t.get("checks", []))
            paths.update(p for p, _ in t.get("sets", []))
    for s in hist["steps"]:
        if s["k"] == "edit":
            paths.update(w[0] for w in s.get("writes", []) if not isinstance(w, dict))
            paths.update(w["dirtamper"] for w in s.get("writes", []) if isinstance(w, dict) and "dirtamper" in w)
    return sorted(paths)


# ------------------------------------------------------------------------------------------------
# the real side
# ------------------------------------------------------------------------------------------------

def grog_env(root_dir, trace):
    env = {k: v for k, v in os.environ.items() if not k.startswith("GROG_")}
    env.update({"GROG_ROOT": root_dir, "VERIF_TRACE": trace, "HOME": root_dir, "LC_ALL": "C", "CI": "0",
                "NO_COLOR": "1"})
    return env


FLAKES = {"impl_timeouts": 0, "timeout_dumps": []}


def run_grog(grog, wsdir, root_dir, trace, args, timeout=40, extra_env=None):
    """run the real binary; a build normally takes ~0.6 s. On a timeout the process gets SIGQUIT first so that the Go runtime
    dumps all goroutines (kept in the log: a hang is a finding for the termination property C04, not for the callers here)."""
    import signal
    p = subprocess.Popen([grog] + args, cwd=wsdir, env=dict(grog_env(root_dir, trace), **(extra_env or {})), stdout=subprocess.PIPE,
                         stderr=subprocess.STDOUT, text=True, errors="replace")
    try:
        out, _ = p.communicate(timeout=timeout)
        return p.returncode, out[-3000:]
    except subprocess.TimeoutExpired:
        p.send_signal(signal.SIGQUIT)
        try:
            out, _ = p.communicate(timeout=10)
        except subprocess.TimeoutExpired:
            p.kill()
            out, _ = p.communicate()
        FLAKES["impl_timeouts"] += 1
        if len(FLAKES["timeout_dumps"]) < 2:
            FLAKES["timeout_dumps"].append(out[-6000:])
        return 124, "TIMEOUT after %ss: " % timeout + " ".join(args) + "\n" + out[-2500:]


def run_grog_interrupted(grog, wsdir, root_dir, trace, args, spec, pos, timeout=40):
    """run a build and send it a signal (SIGINT / SIGTERM: Ctrl-C, a cancelled CI job) as soon as the command of target
    spec["when_started"] has started (its label is in the trace). rc 125 = the label never showed up (no signal sent)."""
    import signal, time
    p = subprocess.Popen([grog] + args, cwd=wsdir, env=grog_env(root_dir, trace), stdout=subprocess.PIPE, stderr=subprocess.STDOUT,
                         text=True, errors="replace")
    t0 = time.time()
    sent = False
    while time.time() - t0 < timeout and p.poll() is None:
        if spec["when_started"] in read_trace(trace, pos)[0]:
            time.sleep(0.05)
            p.send_signal(signal.SIGTERM if spec.get("signal") == "TERM" else signal.SIGINT)
            sent = True
            break
        time.sleep(0.03)
    try:
        out, _ = p.communicate(timeout=timeout)
    except subprocess.TimeoutExpired:
        p.kill()
        out, _ = p.communicate()
        return 124, "TIMEOUT after the signal: " + out[-2500:]
    return (p.returncode if sent else 125), out[-3000:]


def read_trace(trace, pos):
    if not os.path.exists(trace):
        return [], pos
    data = open(trace).read()
    return [x for x in data[pos:].split("\n") if x], len(data)


def cache_prefix(wsdir):
    return hashlib.sha256(wsdir.encode()).hexdigest()[:16] + "-" + os.path.basename(wsdir)


def cache_dir(root_dir):
    for d in os.listdir(root_dir):
        c = os.path.join(root_dir, d, "cache")
        if os.path.isdir(c):
            return c
    return None


def cas_snapshot(root_dir):
    """name -> sha256 of the content of every blob in the local CAS (a content-addressed entry never changes once written)"""
    c = cache_dir(root_dir)
    out = {}
    d = os.path.join(c, "cas") if c else None
    if d and os.path.isdir(d):
        for fn in os.listdir(d):
            fp = os.path.join(d, fn)
            if os.path.isfile(fp) and not fn.startswith("tmp-"):
                try:
                    out[fn] = hashlib.sha256(open(fp, "rb").read()).hexdigest()
                except OSError:
                    pass
    return out


def taints(root_dir):
    c = cache_dir(root_dir)
    out = []
    if c and os.path.isdir(os.path.join(c, "taint")):
        base = os.path.join(c, "taint")
        for dp, _, fns in os.walk(base):
            for fn in fns:
                out.append("//" + os.path.relpath(os.path.join(dp, fn), base))
    return sorted(out)


def build_args(step, force_minimal=None):
    minimal = step.get("minimal", False) if (force_minimal is None or step.get("pin_mode")) else force_minimal
    a = [step.get("cmd", "build")] + list(step["patterns"])        # cmd: "build" | "test"
    a.append("--load-outputs=" + ("minimal" if minimal else "all"))
    if not step.get("enable_cache", True) and step.get("disable_via", "flag") == "flag":
        a.append("--enable-cache=false")        # other ways: GROG_ENABLE_CACHE=false (run_real), enable_cache in grog.toml (an edit step)
    if step.get("fail_fast"):
        a.append("--fail-fast")
    if step.get("platform"):
        a.append("--platform=" + step["platform"])
    return a


def run_real(grog, hist, base, force_minimal=None, upto=None):
    """Run the history against the real binary in `base` (fresh). Returns the list of build observations."""
    shutil.rmtree(base, ignore_errors=True)
    base = os.path.realpath(base)
    nmoved = 0
    cas_seen = {}
    audit_names = True
    wsdir, root_dir, trace = os.path.join(base, "ws"), os.path.join(base, "root"), os.path.join(base, "trace")
    os.makedirs(wsdir)
    os.makedirs(root_dir)
    write_file(wsdir, "grog.toml", 'hash_algorithm = "%s"\n' % hist.get("algo", "xxh3"))
    ws = hist["ws"]
    sync_ws(wsdir, None, ws)
    watch = watch_paths(hist)
    obs, pos = [], 0
    steps = hist["steps"] if upto is None else hist["steps"][:upto]
    for s in steps:
        if s["k"] == "edit":
            sync_ws(wsdir, ws, s["ws"])
            ws = s["ws"]
            apply_writes(wsdir, s.get("writes", []))
        elif s["k"] == "relocate":
            # the same checkout at another absolute path, seeing the same local cache (the per-workspace cache directory is
            # selected by sha256(workspace path)[:16]-basename: it is renamed along, like a second clone sharing a cache)
            nmoved += 1
            new = os.path.join(base, "moved%d" % nmoved, "elsewhere", "ws")
            os.makedirs(os.path.dirname(new))
            shutil.move(wsdir, new)
            oldp, newp = os.path.join(root_dir, cache_prefix(wsdir)), os.path.join(root_dir, cache_prefix(new))
            if os.path.isdir(oldp):
                os.rename(oldp, newp)
            wsdir = new
        elif s["k"] == "taint":
            rc, out = run_grog(grog, wsdir, root_dir, trace, ["taint"] + s["patterns"])
            if rc != 0:
                obs.append({"taint_failed": out})
        elif s["k"] == "drop":
            c = cache_dir(root_dir)
            v = read_path(wsdir, s["path"])
            if c and v is not None:
                dig = hashlib.sha256(v.encode("latin-1")).hexdigest()
                try:
                    os.remove(os.path.join(c, "cas", dig))
                except FileNotFoundError:
                    pass
        elif s["k"] == "run":
            # `grog run <targets>`: builds the run targets, then starts their bin outputs; lines the binaries print that start
            # with RUN: are the observation
            mode = s.get("minimal", False) if (force_minimal is None or s.get("pin_mode")) else force_minimal
            rc, out = run_grog(grog, wsdir, root_dir, trace, ["run", "--load-outputs=" + ("minimal" if mode else "all")] + list(s["targets"]))
            ex, pos = read_trace(trace, pos)
            obs.append({"ok": rc == 0, "rc": rc, "executed": ex, "fs": {p: read_path(wsdir, p) for p in watch}, "pre": {}, "pre_tainted": [],
                        "cas_rewritten": [], "cas_misnamed": [], "tainted": taints(root_dir), "log": out[-1500:],
                        "run_out": sorted(x for x in out.split("\n") if x.startswith("RUN:"))})
        elif s["k"] == "build":
            pre = {p: read_path(wsdir, p) for p in watch}
            pre_taint = taints(root_dir)
            if s.get("interrupt"):
                rc, out = run_grog_interrupted(grog, wsdir, root_dir, trace, build_args(s, force_minimal), s["interrupt"], pos)
            else:
                rc, out = run_grog(grog, wsdir, root_dir, trace, build_args(s, force_minimal),
                                   extra_env={"GROG_ENABLE_CACHE": "false"} if s.get("disable_via") == "env" and not s.get("enable_cache", True) else None)
            ex, pos = read_trace(trace, pos)
            cas_now = cas_snapshot(root_dir)
            rewritten = sorted(n for n, d in cas_now.items() if n in cas_seen and cas_seen[n] != d)
            misnamed = sorted(n for n, d in cas_now.items() if hist.get("algo") == "sha256" and n != d) if audit_names else []
            cas_seen.update(cas_now)
            obs.append({"ok": rc == 0, "rc": rc, "executed": ex, "fs": {p: read_path(wsdir, p) for p in watch},
                        "cas_rewritten": rewritten, "cas_misnamed": misnamed,
                        "pre": pre, "pre_tainted": pre_taint,
                        "tainted": taints(root_dir), "log": out[-1500:]})
    return obs


def clean_build(grog, ws, patterns, base, algo="xxh3", extra_writes=()):
    """the model-independent oracle: fresh workspace (sources only), fresh cache root, one real build"""
    h = {"ws": ws, "algo": algo, "steps": [{"k": "edit", "ws": ws, "writes": list(extra_writes)},
                                           {"k": "build", "patterns": patterns, "platform": ws.get("platform")}]}
    return run_real(grog, h, base)[0]


# ------------------------------------------------------------------------------------------------
# the model side
# ------------------------------------------------------------------------------------------------

def model_targets(ws, fixes, extra_files=None):
    out = []
    for l, t in sorted(ws["targets"].items()):
        pre = t["pkg"] + "/" if t["pkg"] else ""
        deps = rdeps(ws, l)
        old = direct_target_deps(ws, l)
        outs = [{"dir": o["dir"], "path": out_path(t, o)} for o in sorted_outs(t)]
        writes = [o for o in outs if o["path"][len(pre):] not in t.get("skip", []) and o["path"][len(pre):] != t.get("bin")]
        out.append({
            "label": l,
            "cmd": {"salt": t["salt"] + ("@" + ws["platform"] if t.get("usesplat") and ws.get("platform") else ""), "beh": t.get("beh", 0), "writes": writes,
                    "sets": [[p, c] for p, c in t.get("sets", [])], "split": bool(t.get("split"))},
            "inputs": [pre + r for r in resolved_inputs(ws, l, extra_files)],
            "outs": outs, "deps": deps,
            "hdeps": deps if fixes["alias"] else old, "ldeps": deps if fixes["alias"] else old,
            "fp": sorted([k, v] for k, v in t.get("fp", {}).items()), "plat": "" if t.get("mpc") else ws.get("platform", ""),
            "noCache": bool(t.get("nocache")),
            "checks": [[c["flag"], c["exp"]] for c in t.get("checks", [])],
        })
    return out


def model_request(hist, fixes=ALL_FIXES, force_minimal=None):
    """the `build.simulate` request predicting the history (the model tracks the whole file system itself)"""
    ws = hist["ws"]
    watch = watch_paths(hist)
    steps = [{"k": "edit", "targets": model_targets(ws, fixes), "writes": [], "tampers": []}]
    files = [[p, c] for p, c in sorted(all_files(ws).items())]
    for s in hist["steps"]:
        if s["k"] == "edit":
            writes = []
            fa, fb = all_files(ws), all_files(s["ws"])
            for p in set(fa) - set(fb):
                writes.append([p, None])
            for p, c in fb.items():
                if fa.get(p) != c:
                    writes.append([p, c])
            for w in s.get("writes", []):
                if isinstance(w, dict):
                    if "stampall" in w:
                        continue        # timestamps are not part of the model's state
                    if "dirtamper" in w:
                        writes.append({"path": w["dirtamper"], "op": w["op"]})
                        continue
                    raise ValueError("rmtree writes have no model counterpart; expand them to paths")
                writes.append([w[0], w[1]])
            ws = s["ws"]
            steps.append({"k": "edit", "targets": model_targets(ws, fixes), "writes": [w for w in writes if not isinstance(w, dict)],
                          "tampers": [w for w in writes if isinstance(w, dict)]})
        elif s["k"] == "relocate":
            pass
        elif s["k"] == "taint":
            steps.append({"k": "taint", "labels": matched_targets(ws, s["patterns"])})
        elif s["k"] == "drop":
            steps.append({"k": "drop", "path": s["path"]})
        elif s["k"] == "build":
            minimal = s.get("minimal", False) if (force_minimal is None or s.get("pin_mode")) else force_minimal
            steps.append({"k": "build", "enableCache": s.get("enable_cache", True), "minimal": minimal,
                          "order": selected(ws, s["patterns"]), "watch": watch, "labels": sorted(ws["targets"])})
    return {"op": "build.simulate", "fx": {k: fixes.get(k, True) for k in ("gateChecks", "syncTaint", "rerunOnce", "minValidate", "loadFault", "checkDeps")},
            "files": files, "steps": steps}


def run_model(ctx, hists, fixes=ALL_FIXES, force_minimal=None):
    reqs = [model_request(h, fixes, force_minimal) for h in hists]
    outs = ctx.model(reqs)
    res = []
    for o in outs:
        if "builds" not in o:
            res.append(o)
            continue
        res.append([{"ok": b["ok"], "executed": b["executed"], "fs": {p: v for p, v in b["fs"]},
                     "status": {l: k for l, k in b["status"]}, "tainted": b["tainted"]} for b in o["builds"]])
    return res


def run_real_many(grog, hists, scratch, par=4, force_minimal=None, prefix="h"):
    def one(ih):
        i, h = ih
        base = os.path.join(scratch, "%s%d" % (prefix, i))
        try:
            r = run_real(grog, h, base, force_minimal)
            if any(o.get("rc") == 124 for o in r):
                r = run_real(grog, h, base, force_minimal)      # the binary hung (see FLAKES): run the history again
            return r
        finally:
            shutil.rmtree(base, ignore_errors=True)
    with ThreadPoolExecutor(max_workers=par) as ex:
        return list(ex.map(one, enumerate(hists)))


def build_steps(hist):
    return [s for s in hist["steps"] if s["k"] in ("build", "run")]


def compare(hist, real, model, multiset=True):
    """-> list of (build index, field, real, model) differences"""
    diffs = []
    if not isinstance(model, list):
        return [(-1, "model-error", None, model)]
    bs = build_steps(hist)
    real = [r for r in real if "ok" in r]
    for i, (r, m) in enumerate(zip(real, model)):
        if r["ok"] != m["ok"]:
            diffs.append((i, "ok", r["ok"], m["ok"]))
        ff = bs[i].get("fail_fast") and not m["ok"]
        if ff:
            if not set(r["executed"]) <= set(m["executed"]):
                diffs.append((i, "executed(fail-fast subset)", sorted(r["executed"]), sorted(m["executed"])))
            continue
        re_, me = sorted(r["executed"]), sorted(m["executed"])
        if (re_ != me) if multiset else (set(re_) != set(me)):
            diffs.append((i, "executed", re_, me))
        for p in r["fs"]:
            if r["fs"][p] != m["fs"].get(p):
                diffs.append((i, "fs:" + p, r["fs"][p], m["fs"].get(p)))
        if r["tainted"] != sorted(m["tainted"]):
            diffs.append((i, "tainted", r["tainted"], sorted(m["tainted"])))
    if len(real) != len(model):
        diffs.append((-1, "number of builds", len(real), len(model)))
    return diffs


# ------------------------------------------------------------------------------------------------
# generators
# ------------------------------------------------------------------------------------------------

def gen_ws(rng, n=None, aliases=True, dirs=True, multi_out=True, nocache_p=0.0, checks_p=0.0, split_p=0.1, shared_p=0.25, dir_p=0.3,
           outless_p=0.08, tool_p=0.0, multicheck=False, alias_p=0.35, alias2_p=0.2, link_p=0.5, kind_choices=None, stamp_p=0.2,
           depcheck_p=0.0):
    """layered DAG of n targets (dependencies point to earlier targets), 1-2 targets per package"""
    n = n or rng.randint(2, 6)
    ws = {"targets": {}, "aliases": {}, "files": {}, "links": {}}
    labels = []
    pkgs = []
    for i in range(n):
        if pkgs and rng.random() < 0.25:
            pkg = rng.choice(pkgs)
        else:
            pkg = "p%d" % i if rng.random() < 0.8 else "p%d/q" % i
            pkgs.append(pkg)
        name = "t%d" % i
        l = lab(pkg, name)
        globs = []
        kind = rng.choice(kind_choices or ["star", "src", "rec", "explicit", "none", "star+explicit"])
        nm = "i%d" % i
        if kind in ("star", "star+explicit"):
            globs.append(nm + "_*.in")
            for k in range(rng.randint(1, 2)):
                ws["files"]["%s/%s_%d.in" % (pkg, nm, k)] = "v%d\n" % rng.randint(0, 99)
        if kind == "src":
            globs.append("src%d/*.in" % i)
            for k in range(rng.randint(1, 3)):
                ws["files"]["%s/src%d/f%d.in" % (pkg, i, k)] = "v%d\n" % rng.randint(0, 99)
        if kind == "rec":
            globs.append("src%d/**/*.in" % i)
            ws["files"]["%s/src%d/f0.in" % (pkg, i)] = "v%d\n" % rng.randint(0, 99)
            ws["files"]["%s/src%d/d/f1.in" % (pkg, i)] = "v%d\n" % rng.randint(0, 99)
        if kind == "rec" and rng.random() < link_p:
            # part of the tree under the glob is a symlinked directory (its files live elsewhere in the workspace)
            ws.setdefault("links", {})["%s/src%d/lk" % (pkg, i)] = "shared%d" % i
            ws["files"]["shared%d/g0.in" % i] = "v%d\n" % rng.randint(0, 99)
            ws["files"]["shared%d/sub/g1.in" % i] = "v%d\n" % rng.randint(0, 99)
        if kind in ("explicit", "star+explicit"):
            globs.append("e%d.txt" % i)
            ws["files"]["%s/e%d.txt" % (pkg, i)] = "v%d\n" % rng.randint(0, 99)
        excl = []
        if kind == "src" and rng.random() < 0.3:
            excl = ["src%d/f0.in" % i]
        deps = []
        for j in range(i):
            if rng.random() < (0.5 if j == i - 1 else 0.25):
                d = labels[j]
                if aliases and rng.random() < alias_p:
                    al = lab(ws["targets"][d]["pkg"], "al%d_%d" % (j, i))
                    ws["aliases"][al] = d
                    if rng.random() < alias2_p:
                        al2 = lab(pkg, "al2_%d_%d" % (j, i))
                        ws["aliases"][al2] = al
                        al = al2
                    d = al
                deps.append(d)
        outs = []
        r = rng.random()
        if r < outless_p:
            pass
        else:
            outs.append({"dir": False, "rel": rng.choice(["o%d.txt" % i, "out%d/o%d.txt" % (i, i)])})
            if multi_out and rng.random() < 0.3:
                outs.append({"dir": False, "rel": "o%d_b.txt" % i})
            if dirs and rng.random() < dir_p:
                outs.append({"dir": True, "rel": "dist%d" % i})
            if rng.random() < stamp_p:
                outs.append({"dir": False, "rel": "done%d.empty" % i})
        t = {"pkg": pkg, "name": name, "globs": globs, "excl": excl, "salt": "s%d" % rng.randint(0, 9), "deps": deps,
             "outs": outs, "fp": {}, "nocache": rng.random() < nocache_p, "checks": [], "beh": 0, "skip": [], "sets": []}
        if rng.random() < 0.15:
            t["fp"] = {"k": "v%d" % rng.randint(0, 3)}
        if rng.random() < checks_p:
            nchk = rng.choice([1, 2, 2, 3]) if multicheck else 1
            own = rng.random() < 0.5
            for ci in range(nchk):
                flag = "ext/%s%s.flag" % (name, "" if ci == 0 else "_%d" % ci)
                exp = rng.choice([None, "ok\n"])
                t["checks"].append({"flag": flag, "exp": exp, "form": rng.randint(0, 5)})
                if own:
                    t["sets"].append([flag, "ok\n"])
                else:
                    ws["files"][flag] = "ok\n"
        if rng.random() < depcheck_p:
            # an output check that inspects a file output of a direct dependency (a check is a shell command run in the
            # package: it may read whatever the target's command may read)
            cands = []
            for d_ in deps:
                rd = resolve_alias(ws, d_)
                if rd in ws["targets"] and not ws["targets"][rd].get("split"):
                    cands += [out_path(ws["targets"][rd], o_) for o_ in ws["targets"][rd]["outs"] if not o_["dir"]]
            if cands:
                t["checks"].append({"flag": rng.choice(sorted(cands)), "exp": None, "form": rng.randint(0, 5)})
        if rng.random() < tool_p:
            # a checked-in script that is both an input and the bin_output (docs/topics/binary-outputs)
            tool = "tool%d.sh" % i
            ws["files"][pkg + "/" + tool] = "#!/bin/sh\necho v%d\n" % rng.randint(0, 99)
            t["globs"] = t["globs"] + [tool]
            t["bin"] = tool
            t["nocache"] = rng.random() < 0.6
        # splitter: >= 2 inputs, 2 file outputs, output k = copy of input k (an edit can make the outputs swap contents)
        if rng.random() < split_p and kind in ("star", "src") and not excl:
            pre = pkg + "/"
            have = [f for f in ws["files"] if f.startswith(pre) and any(glob_match(g, f[len(pre):]) for g in globs)]
            if len(have) < 2:
                ws["files"][pre + (globs[0].replace("*", "zz"))] = "v%d\n" % rng.randint(0, 99)
            t["split"] = True
            t["outs"] = [{"dir": False, "rel": "o%d.txt" % i}, {"dir": False, "rel": "o%d_b.txt" % i}]
        ws["targets"][l] = t
        labels.append(l)
    # two targets of one package sharing the same single glob, one of them excluding the file that sorts first
    if rng.random() < shared_p:
        cands = [x for x in labels if len(ws["targets"][x]["globs"]) == 1 and "*" in ws["targets"][x]["globs"][0]
                 and "**" not in ws["targets"][x]["globs"][0] and not ws["targets"][x]["excl"]]
        if cands:
            v = rng.choice(cands)
            vt = ws["targets"][v]
            i = len(labels)
            pre = vt["pkg"] + "/"
            matches = sorted(f[len(pre):] for f in ws["files"] if f.startswith(pre) and glob_match(vt["globs"][0], f[len(pre):]))
            if len(matches) < 2:
                extra = vt["globs"][0].replace("*", "zz")
                ws["files"][pre + extra] = "v%d\n" % rng.randint(0, 99)
                matches = sorted(matches + [extra])
            name = "t%d" % i
            l2 = lab(vt["pkg"], name)
            ws["targets"][l2] = {"pkg": vt["pkg"], "name": name, "globs": list(vt["globs"]), "excl": [matches[0]],
                                 "salt": "s%d" % rng.randint(0, 9), "deps": [], "outs": [{"dir": False, "rel": "o%d.txt" % i}],
                                 "fp": {}, "nocache": False, "checks": [], "beh": 0, "skip": [], "sets": []}
    return ws


def src_files_of(ws, l):
    t = ws["targets"][l]
    pre = t["pkg"] + "/" if t["pkg"] else ""
    af = all_files(ws)
    return [pre + r for r in resolved_inputs(ws, l) if pre + r in af]


def gen_edit(rng, ws, kinds=None):
    """one random edit: returns (new ws, raw writes, description) or None if not applicable"""
    ws = copy.deepcopy(ws)
    labels = sorted(ws["targets"])
    l = rng.choice(labels)
    t = ws["targets"][l]
    kinds = kinds or ["content", "content", "addfile", "rmfile", "rename", "salt", "salt", "outs", "fp", "adddep", "rmdep",
                      "realias", "viaalias", "nocache", "swapin", "exclfile", "linkfile"]
    k = rng.choice(kinds)
    pre = t["pkg"] + "/" if t["pkg"] else ""
    srcs = src_files_of(ws, l)
    if k == "content" and srcs:
        p = real_path(ws, rng.choice(srcs))
        if rng.random() < 0.06:
            n = rng.choice([1023, 1024, 4097, 65537])
            ws["files"][p] = "B" * n + "%d\n" % rng.randint(0, 9)
            return ws, [], "content of %s (%d bytes)" % (p, n)
        if rng.random() < 0.15 and len(ws["files"][p]) > 1:
            c = ws["files"][p]
            ws["files"][p] = c[:-2] + ("x" if c[-2] != "x" else "y") + "\n"     # differs by one byte
            return ws, [], "content of %s (one byte)" % p
        ws["files"][p] = "w%d\n" % rng.randint(100, 999)
        return ws, [], "content of %s" % p
    if k == "addfile":
        for g in t["globs"]:
            if "*" in g:
                base = g.replace("/**/", "/d2/").replace("*", "n%d" % rng.randint(0, 99))
                ws["files"][pre + base] = "a%d\n" % rng.randint(0, 99)
                return ws, [], "add %s" % (pre + base)
    if k == "rmfile" and len(srcs) > 0:
        p = real_path(ws, rng.choice(srcs))
        del ws["files"][p]
        if p[len(pre):] in t["globs"]:
            return None
        return ws, [], "remove %s" % p
    if k == "rename" and srcs:
        p = rng.choice(srcs)
        if p not in ws["files"]:
            return None
        if p[len(pre):] in t["globs"] or "*" not in "".join(t["globs"]):
            return None
        d, _, fn = p.rpartition("/")
        stem = fn.rsplit(".", 1)[0]
        newp = d + "/" + stem + "x.in"
        if not any(glob_match(g, newp[len(pre):]) for g in t["globs"]):
            return None
        ws["files"][newp] = ws["files"].pop(p)
        return ws, [], "rename %s -> %s" % (p, newp)
    if k == "salt":
        t["salt"] = "s%d" % rng.randint(10, 99)
        return ws, [], "command of %s" % l
    if k == "outs":
        if t.get("split"):
            return None
        i = int(t["name"][1:])
        r = rng.random()
        if t["outs"] and r < 0.4:
            o = rng.choice(t["outs"])
            o["rel"] = o["rel"] + "2" if o["dir"] else o["rel"].replace(".txt", "_r.txt")
            return ws, [], "rename output of %s" % l
        if r < 0.7 and not any(o["rel"] == "extra%d.txt" % i for o in t["outs"]):
            t["outs"].append({"dir": False, "rel": "extra%d.txt" % i})
            return ws, [], "add output to %s" % l
        if len(t["outs"]) > 1:
            t["outs"].pop()
            return ws, [], "drop output of %s" % l
        return None
    if k == "fp":
        t["fp"] = {rng.choice(["k", "platform", "no-cache", "K"]): "v%d" % rng.randint(4, 99)} if rng.random() < 0.8 else {}
        return ws, [], "fingerprint of %s" % l
    idx = labels.index(l)
    order = sorted(labels, key=lambda x: int(ws["targets"][x]["name"][1:]))
    idx = order.index(l)
    if k == "adddep" and idx > 0:
        d = rng.choice(order[:idx])
        if d in rdeps(ws, l):
            return None
        # the index order is not an invariant of every family (samehash adds edges from a low index to the output-less g-targets):
        # never add an edge that closes a cycle (grog rejects such a graph before it runs anything)
        seen, stack = set(), [d]
        while stack:
            x = stack.pop()
            for y in ws["targets"].get(x, {}).get("deps", []):
                while y in ws["aliases"]:
                    y = ws["aliases"][y]
                if y not in seen:
                    seen.add(y); stack.append(y)
        if l in seen:
            return None
        if rng.random() < 0.4:
            al = lab(ws["targets"][d]["pkg"], "alx%d_%d" % (order.index(d), idx))
            ws["aliases"][al] = d
            d = al
        t["deps"].append(d)
        return ws, [], "add edge %s -> %s" % (l, d)
    if k == "rmdep" and t["deps"]:
        d = rng.choice(t["deps"])
        t["deps"].remove(d)
        return ws, [], "remove edge %s -> %s" % (l, d)
    if k == "realias":
        als = [a for a in t["deps"] if a in ws["aliases"]]
        if als and idx > 0:
            a = rng.choice(als)
            cand = [x for x in order[:idx] if x != resolve_alias(ws, a) and x not in rdeps(ws, l)]
            users = [x for x in labels if a in ws["targets"][x]["deps"] and x != l]
            if cand and not users:
                ws["aliases"][a] = rng.choice(cand)
                return ws, [], "redirect alias %s" % a
        return None
    if k == "viaalias":
        # the adversarial family: change something that reaches a target only through an alias
        cands = [(x, a) for x in labels for a in ws["targets"][x]["deps"] if a in ws["aliases"]]
        if cands:
            x, a = rng.choice(cands)
            d = resolve_alias(ws, a)
            s = src_files_of(ws, d)
            if s:
                p = real_path(ws, rng.choice(s))
                ws["files"][p] = "z%d\n" % rng.randint(100, 999)
                return ws, [], "content of %s (reaches %s only through alias %s)" % (p, x, a)
            ws["targets"][d]["salt"] = "s%d" % rng.randint(100, 199)
            return ws, [], "command of %s (reaches %s through alias %s)" % (d, x, a)
        return None
    if k == "linkfile":
        # content / presence of a file that a glob reaches only through a symlinked directory
        lks = sorted(ws.get("links", {}).items())
        if not lks:
            return None
        lk, tg = rng.choice(lks)
        under = sorted(p for p in ws["files"] if p.startswith(tg + "/"))
        r = rng.random()
        if r < 0.6 and under:
            p = rng.choice(under)
            ws["files"][p] = "k%d\n" % rng.randint(100, 999)
            return ws, [], "content of %s (matched through the symlinked directory %s)" % (p, lk)
        if r < 0.8:
            p = "%s/n%d.in" % (tg, rng.randint(0, 99))
            ws["files"][p] = "a%d\n" % rng.randint(0, 99)
            return ws, [], "add %s (visible through %s)" % (p, lk)
        if len(under) > 1:
            p = rng.choice(under)
            del ws["files"][p]
            return ws, [], "remove %s (visible through %s)" % (p, lk)
        return None
    if k == "swapin":
        sp = [x for x in labels if ws["targets"][x].get("split")]
        if not sp:
            return None
        x = rng.choice(sp)
        fsx = [real_path(ws, y) for y in src_files_of(ws, x)]
        if len(fsx) < 2 or ws["files"][fsx[0]] == ws["files"][fsx[1]]:
            return None
        ws["files"][fsx[0]], ws["files"][fsx[1]] = ws["files"][fsx[1]], ws["files"][fsx[0]]
        return ws, [], "swap contents of %s and %s (outputs of %s swap)" % (fsx[0], fsx[1], x)
    if k == "exclfile":
        ex = [(x, e) for x in labels for e in ws["targets"][x].get("excl", [])]
        if not ex:
            return None
        x, e = rng.choice(ex)
        xt = ws["targets"][x]
        pth = (xt["pkg"] + "/" if xt["pkg"] else "") + e
        if pth not in ws["files"]:
            return None
        ws["files"][pth] = "q%d\n" % rng.randint(100, 999)
        return ws, [], "content of %s (excluded by %s only)" % (pth, x)
    if k == "toolcontent":
        tl = [x for x in labels if ws["targets"][x].get("bin") and any(x in rdeps(ws, y) for y in labels)] or \
             [x for x in labels if ws["targets"][x].get("bin")]
        if not tl:
            return None
        x = rng.choice(tl)
        xt = ws["targets"][x]
        pth = (xt["pkg"] + "/" if xt["pkg"] else "") + xt["bin"]
        ws["files"][pth] = "#!/bin/sh\necho v%d\n" % rng.randint(100, 999)
        return ws, [], "content of %s (input and bin_output of %s)" % (pth, x)
    if k == "nocache":
        t["nocache"] = not t.get("nocache")
        return ws, [], "toggle no-cache of %s" % l
    if k in ("flagoff", "flagon", "flagbad"):
        flags = sorted({c["flag"] for x in ws["targets"].values() for c in x.get("checks", [])})
        if not flags:
            return None
        f = rng.choice(flags)
        if k == "flagoff":
            if f not in ws["files"]:
                return ws, [[f, None]], "destroy external condition %s (raw)" % f
            del ws["files"][f]
            return ws, [[f, None]], "destroy external condition %s" % f
        ws["files"][f] = "ok\n" if k == "flagon" else "no\n"
        return ws, [], ("establish" if k == "flagon" else "spoil") + " external condition %s" % f
    if k == "beh":
        t["beh"] = rng.choice([1, 2, 2, 3, 3, 4, 4, 5, 6]) if t.get("beh", 0) == 0 else 0
        return ws, [], "behaviour of %s := %d" % (l, t["beh"])
    if k == "skipout":
        if t.get("skip"):
            t["skip"] = []
            return ws, [], "%s writes all outputs again" % l
        fo = [o["rel"] for o in t["outs"]]
        if not fo:
            return None
        t["skip"] = [rng.choice(fo)]
        return ws, [], "%s stops writing %s" % (l, t["skip"][0])
    if k == "skipfresh":
        # the command stops writing one declared output (first / middle / last, file or dir::) and the output is not there
        withdir = [x for x in labels if any(o["dir"] for o in ws["targets"][x]["outs"]) and not ws["targets"][x].get("skip")]
        if withdir and rng.random() < 0.5:
            l = rng.choice(withdir)
            t = ws["targets"][l]
            cands = [o for o in t["outs"] if o["dir"]]
        else:
            cands = [o for o in t["outs"]]
        if not cands or t.get("skip") or t.get("split"):
            return None
        o = rng.choice(cands)
        t["skip"] = [o["rel"]]
        return ws, [[out_path(t, o), None]], "%s stops writing %s%s, which is deleted" % (l, "dir::" if o["dir"] else "", o["rel"])
    if k == "skipfirst":
        # >= 2 declared outputs, the FIRST one (declaration order) is no longer written and is not there
        multi = [x for x in labels if len(ws["targets"][x]["outs"]) >= 2 and not ws["targets"][x].get("skip") and not ws["targets"][x].get("split")]
        if not multi:
            return None
        l = rng.choice(multi)
        t = ws["targets"][l]
        o = t["outs"][0] if rng.random() < 0.7 else t["outs"][len(t["outs"]) // 2]
        t["skip"] = [o["rel"]]
        return ws, [[out_path(t, o), None]], "%s stops writing %s%s, which is deleted" % (l, "dir::" if o["dir"] else "", o["rel"])
    if k == "addcheck":
        flag = "ext/%s.flag" % t["name"]
        if t.get("checks"):
            t["checks"] = []
            return ws, [], "remove checks of %s" % l
        t["checks"] = [{"flag": flag, "exp": rng.choice([None, "ok\n"]), "form": rng.randint(0, 5)}]
        return ws, [], "add check to %s" % l
    return None


def gen_tamper(rng, ws, kinds=("delete", "modify", "rmdir", "moddir", "extradir", "rmindir"), prefer_dirs=0.5):
    """tamper with a declared output path; returns (writes for the real side expanded to paths, description)"""
    outs = [(l, o) for l, t in ws["targets"].items() for o in t["outs"]]
    if not outs:
        return None
    outs = sorted(outs, key=lambda x: (x[0], x[1]["rel"]))
    douts = [x for x in outs if x[1]["dir"]]
    l, o = rng.choice(douts) if douts and rng.random() < prefer_dirs else rng.choice(outs)
    p = out_path(ws["targets"][l], o)
    k = rng.choice(kinds)
    if not o["dir"]:
        if k == "delete":
            return [[p, None]], "delete %s" % p
        if k == "modify":
            return [[p, "garbage%d\n" % rng.randint(0, 9)]], "modify %s" % p
        return None
    if k in ("delete", "rmdir"):
        return [[p, None]], "delete directory %s" % p
    op = {"moddir": "mod", "extradir": rng.choice(["extra", "extrasub"])}.get(k, "rmfile")
    return [{"dirtamper": p, "op": op}], "%s inside directory %s (symlink left in place)" % (
        {"mod": "modify a.txt", "extra": "add stale file", "extrasub": "add stale file in in/", "rmfile": "remove sub/b.txt"}[op], p)


def shift_pair(rng, ws):
    """adversarial: move bytes from the end of one input file to the start of the next one of the same target"""
    for l in sorted(ws["targets"]):
        s = [x for x in src_files_of(ws, l) if x in ws["files"]]
        if len(s) >= 2:
            a, b = s[0], s[1]
            ws2 = copy.deepcopy(ws)
            ca, cb = ws["files"][a], ws["files"][b]
            if len(ca) >= 2:
                ws2["files"][a], ws2["files"][b] = ca[:-2], ca[-2:] + cb
                if ws2["files"][a] == "":
                    ws2["files"][a] = ""
                return ws2, "shift 2 bytes from end of %s to start of %s" % (a, b)
    return None


def gen_history(rng, family="mixed", nsteps=None, full=False, minimal=None):
    """family: mixed | edits | tamper | taint | nocache | disabled | checks | minimal"""
    kw = {}
    if family in ("nocache", "taint", "minimal-nocache"):
        kw["nocache_p"] = 0.3
    if family == "checks":
        kw.update(checks_p=0.6, multicheck=True, multi_out=True, dir_p=0.5)
    if family == "taintfail":
        kw.update(checks_p=0.7, multicheck=False)
    if family in ("outless", "taintdis"):
        kw.update(outless_p=0.4, nocache_p=0.25)
    if family == "tool":
        kw.update(tool_p=0.5)
    if family == "depchecks":
        kw.update(depcheck_p=0.8, n=rng.randint(3, 5), outless_p=0.0)
    if family == "swap":
        kw.update(split_p=0.6, dirs=False)
    if family == "shared":
        kw.update(shared_p=1.0)
    if family == "dirs":
        kw.update(dir_p=0.8)
    if family == "fanout":
        kw.update(n=rng.randint(3, 5), dir_p=0.0, split_p=0.0, shared_p=0.0)
    if family == "links":
        kw.update(link_p=1.0, kind_choices=["rec", "rec", "rec", "src", "star"])
    if family == "aliaswipe":
        kw.update(alias_p=0.8, alias2_p=0.6)
    if family == "lostblob":
        kw.update(n=rng.randint(3, 5), dirs=False, split_p=0.0, shared_p=0.0, outless_p=0.0)
    ws = gen_ws(rng, **kw)
    if family == "dirs" and not any(any(o["dir"] for o in t_["outs"]) and any("*" in g for g in t_["globs"]) for t_ in ws["targets"].values()):
        for x in sorted(ws["targets"]):
            xt = ws["targets"][x]
            if any("*" in g for g in xt["globs"]) and not xt.get("split"):
                xt["outs"].append({"dir": True, "rel": "dist%s" % xt["name"][1:]})
                break
    if family == "aliaswipe":
        # make sure some target reaches a dependency only through an alias of an alias
        def chained(w):
            return [(x, a) for x in sorted(w["targets"]) for a in w["targets"][x]["deps"] if a in w["aliases"] and w["aliases"][a] in w["aliases"]]
        if not chained(ws):
            order = sorted(ws["targets"], key=lambda x: int(ws["targets"][x]["name"][1:]))
            if len(order) >= 2:
                d, x = order[0], order[-1]
                a1 = lab(ws["targets"][d]["pkg"], "alc1")
                a2 = lab(ws["targets"][x]["pkg"], "alc2")
                ws["aliases"][a1] = d
                ws["aliases"][a2] = a1
                ws["targets"][x]["deps"] = [y for y in ws["targets"][x]["deps"] if resolve_alias(ws, y) != d and y != d] + [a2]
    if family == "fanout":
        # one dependency with a bulky directory output (loading it takes a while) and several direct dependants
        order = sorted(ws["targets"], key=lambda x: int(ws["targets"][x]["name"][1:]))
        d = order[0]
        dt = ws["targets"][d]
        dt["nocache"] = False
        dt["split"] = False
        dt["outs"] = [o for o in dt["outs"] if not o["dir"]][:1] + [{"dir": True, "rel": "dist%sbulk" % dt["name"][1:]}]
        for x in order[1:]:
            ws["targets"][x]["nocache"] = False
            # independent of each other, so that they are scheduled concurrently and all ask for d's outputs at once
            ws["targets"][x]["deps"] = [d]
    if family == "samehash":
        order = sorted(ws["targets"], key=lambda x: int(ws["targets"][x]["name"][1:]))
        top = order[-1]
        base = len(order)
        for j in range(3):
            name = "t%d" % (base + j)
            pkg = "g%d" % j
            ws["files"]["%s/e%d.txt" % (pkg, base + j)] = "v%d\n" % rng.randint(0, 99)
            ws["targets"][lab(pkg, name)] = {"pkg": pkg, "name": name, "globs": ["e%d.txt" % (base + j)], "excl": [], "salt": "s1", "deps": [],
                                            "outs": [], "fp": {}, "nocache": True, "checks": [], "beh": 0, "skip": [], "sets": []}
        ws["targets"][top]["deps"] += [lab("g0", "t%d" % base), lab("g1", "t%d" % (base + 1))]
        ws["targets"][top]["nocache"] = False
        if not ws["targets"][top]["outs"]:
            ws["targets"][top]["outs"] = [{"dir": False, "rel": "o%s.txt" % ws["targets"][top]["name"][1:]}]
    if family == "lostblob":
        # a chain e <- d <- x (all cached, file outputs): the blob of d's output will be lost
        order = sorted(ws["targets"], key=lambda x: int(ws["targets"][x]["name"][1:]))
        for a, b_ in zip(order, order[1:]):
            if a not in rdeps(ws, b_):
                ws["targets"][b_]["deps"].append(a)
        for x in order:
            xt = ws["targets"][x]
            xt["nocache"] = False
            if not any(not o["dir"] for o in xt["outs"]):
                xt["outs"].append({"dir": False, "rel": "o%s.txt" % xt["name"][1:]})
    if family == "tool":
        # make sure some script target (input == bin_output, usually no-cache) has a dependant that reads the script
        order = sorted(ws["targets"], key=lambda x: int(ws["targets"][x]["name"][1:]))
        tools = [x for x in order[:-1] if ws["targets"][x].get("bin")]
        if not tools:
            x = order[0]
            xt = ws["targets"][x]
            tool = "tool%s.sh" % xt["name"][1:]
            ws["files"][xt["pkg"] + "/" + tool] = "#!/bin/sh\necho v0\n"
            xt["globs"] = xt["globs"] + [tool]
            xt["bin"] = tool
            xt["nocache"] = True
            tools = [x]
        x = tools[0]
        ws["targets"][x]["nocache"] = True
        # the script is the only output: the generic command copies every input into every generated output, which would
        # make the other outputs change with the script and invalidate the dependants anyway
        ws["targets"][x]["outs"] = []
        ws["targets"][x]["split"] = False
        later = [y for y in order if order.index(y) > order.index(x)]
        if later:
            y = later[0]
            yt = ws["targets"][y]
            yt["nocache"] = False           # a cached dependant: it must be invalidated when the script changes
            if yt.get("bin"):
                yt["globs"] = [g for g in yt["globs"] if g != yt["bin"]]
                yt["bin"] = None
            if not yt["outs"]:
                yt["outs"] = [{"dir": False, "rel": "o%s.txt" % yt["name"][1:]}]
            if x not in rdeps(ws, y):
                yt["deps"].append(x)
    hist = {"ws": ws, "algo": "sha256" if family == "lostblob" else rng.choice(["xxh3", "sha256"]), "steps": [], "tags": [family]}
    cur = ws
    versions = [ws]
    minimal = family.startswith("minimal") if minimal is None else minimal

    def build(patterns=None, **fl):
        if patterns is None:
            r = rng.random()
            if r < 0.6 or full:
                patterns = ["//..."]
            else:
                l = rng.choice(sorted(cur["targets"]))
                patterns = [l] if r < 0.9 else [l, rng.choice(sorted(cur["targets"]))]
        st = {"k": "build", "patterns": patterns, "minimal": minimal, "enable_cache": True, "fail_fast": False}
        st.update(fl)
        hist["steps"].append(st)
    if family == "disabled" and rng.random() < 0.5:
        # the very first record of every key is written with the cache DISABLED (no outputs in it): the next build cannot use
        # it, runs everything and has to REPLACE that record, so that the build after that runs nothing
        build(["//..."], enable_cache=False)
        build(["//..."])
        build(["//..."])
    else:
        build(["//..."] if rng.random() < 0.7 else None)
    n = nsteps or (rng.randint(5, 7) if family == "revert" else 2 if family == "fanout" else rng.randint(2, 5))
    if family == "cutoff":
        for _ in range(n):
            e = gen_edit(rng, cur, ["fp"])
            hist["steps"].append({"k": "edit", "ws": e[0], "writes": e[1], "what": e[2]})
            cur = e[0]
            build()
        return hist
    for _ in range(n):
        r = rng.random()
        if family == "taintfail" and r < 0.75:
            # a tainted target runs but FAILS (its checked condition is gone / its command fails); the taint must survive
            # that run: after the cause is removed the target has to run again although its old cache entry is valid
            order_ = sorted(cur["targets"], key=lambda x: int(cur["targets"][x]["name"][1:]))
            roots = [x for x in order_ if not rdeps(cur, x) and not cur["targets"][x].get("nocache")]
            if roots:
                x = rng.choice(roots)
                ext = [c["flag"] for c in cur["targets"][x].get("checks", []) if c["flag"] in cur["files"]
                       and not any(c["flag"] == p_ for p_, _ in cur["targets"][x].get("sets", []))]
                hist["steps"].append({"k": "taint", "patterns": [x]})
                if ext and rng.random() < 0.6:
                    f = rng.choice(ext)
                    keep = cur["files"][f]
                    off = copy.deepcopy(cur)
                    del off["files"][f]
                    hist["steps"].append({"k": "edit", "ws": off, "writes": [[f, None]], "what": "destroy external condition %s" % f})
                    build(["//..."])
                    on = copy.deepcopy(off)
                    on["files"][f] = keep
                    hist["steps"].append({"k": "edit", "ws": on, "writes": [], "what": "establish external condition %s" % f})
                    cur = on
                else:
                    bad = copy.deepcopy(cur)
                    bad["targets"][x]["beh"] = rng.choice([1, 3, 4])
                    hist["steps"].append({"k": "edit", "ws": bad, "writes": [], "what": "behaviour of %s := %d (fails)" % (x, bad["targets"][x]["beh"])})
                    build(["//..."])
                    hist["steps"].append({"k": "edit", "ws": cur, "writes": [], "what": "behaviour of %s := 0 again" % x})
                versions.append(cur)
                build(["//..."])
                if rng.random() < 0.5:
                    build(["//..."])
                continue
        if family == "fanout":
            # fresh checkout + every dependant edited: they all re-run at once and all need the cached dependency's outputs
            order_ = sorted(cur["targets"], key=lambda x: int(cur["targets"][x]["name"][1:]))
            writes = [[pth, None] for pth in sorted(all_out_paths(cur))]
            hist["steps"].append({"k": "edit", "ws": cur, "writes": writes, "what": "tamper: wipe all declared outputs"})
            e2 = copy.deepcopy(cur)
            for x in order_[1:]:
                e2["targets"][x]["salt"] = "s%d" % rng.randint(500, 599)
            hist["steps"].append({"k": "edit", "ws": e2, "writes": [], "what": "command of every dependant of %s" % order_[0]})
            cur = e2
            versions.append(cur)
            build(["//..."])
            continue
        if family == "samehash" and r < 0.7:
            # add / remove ONE of several dependencies whose output hashes are equal (output-less no-cache targets)
            gs = sorted(x for x in cur["targets"] if cur["targets"][x]["pkg"].startswith("g") and not cur["targets"][x]["outs"])
            tops = [x for x in sorted(cur["targets"]) if any(d in gs for d in cur["targets"][x]["deps"])]
            if gs and tops:
                x = tops[0]
                e2 = copy.deepcopy(cur)
                have = [d for d in e2["targets"][x]["deps"] if d in gs]
                missing = [d for d in gs if d not in have]
                if missing and (len(have) <= 1 or rng.random() < 0.5):
                    d = rng.choice(missing)
                    e2["targets"][x]["deps"].append(d)
                    what = "add edge %s -> %s (output hash equal to another dependency's)" % (x, d)
                else:
                    d = rng.choice(have)
                    e2["targets"][x]["deps"].remove(d)
                    what = "remove edge %s -> %s (output hash equal to another dependency's)" % (x, d)
                hist["steps"].append({"k": "edit", "ws": e2, "writes": [], "what": what})
                cur = e2
                versions.append(cur)
                build(["//..."])
                continue
        if family == "revert":
            # edit / revert chains over one cache (>= 5 builds): an earlier state comes back after other states were built,
            # with cache-disabled builds in between
            rr = rng.random()
            if rr < 0.3:
                # the current state is built with the cache DISABLED (an output-less record is stored under its key),
                # another state is built, then the first state comes back
                build(["//..."], enable_cache=False)
                first = cur
                e = gen_edit(rng, cur, ["content", "content", "salt"])
                if e and wf(e[0]):
                    hist["steps"].append({"k": "edit", "ws": e[0], "writes": e[1], "what": e[2]})
                    cur = e[0]
                    versions.append(cur)
                    build(["//..."])
                    hist["steps"].append({"k": "edit", "ws": first, "writes": [], "what": "revert sources to the version built with the cache disabled"})
                    cur = first
                    versions.append(cur)
                    build(["//..."])
                continue
            if rr < 0.6 and len(versions) >= 2:
                cur = rng.choice(versions[:-1])
                versions.append(cur)
                hist["steps"].append({"k": "edit", "ws": cur, "writes": [], "what": "revert sources to an earlier version"})
            else:
                e = gen_edit(rng, cur, ["content", "content", "salt", "addfile"])
                if e and wf(e[0]):
                    hist["steps"].append({"k": "edit", "ws": e[0], "writes": e[1], "what": e[2]})
                    cur = e[0]
                    versions.append(cur)
            build(["//..."], enable_cache=(rng.random() >= 0.25))
            continue
        if family == "lostblob":
            order = sorted(cur["targets"], key=lambda x: int(cur["targets"][x]["name"][1:]))
            mid = rng.choice(order[1:-1]) if len(order) > 2 else order[0]
            mo = [o for o in cur["targets"][mid]["outs"] if not o["dir"]][0]
            hist["steps"].append({"k": "drop", "path": out_path(cur["targets"][mid], mo)})
            # the workspace copy goes too: with the file still in place and matching, the handler's local-digest short cut
            # restores "from the workspace" and the lost blob is not noticed (not modelled: restore needs the blob)
            if rng.random() < 0.7:
                writes = [[pth, None] for pth in sorted(all_out_paths(cur))]
                hist["steps"].append({"k": "edit", "ws": cur, "writes": writes, "what": "tamper: wipe all declared outputs"})
            else:
                hist["steps"].append({"k": "edit", "ws": cur, "writes": [[out_path(cur["targets"][mid], mo), None]],
                                      "what": "tamper: delete %s" % out_path(cur["targets"][mid], mo)})
            top = order[order.index(mid) + 1] if rng.random() < 0.7 else rng.choice(order[order.index(mid) + 1:])
            e2 = copy.deepcopy(cur)
            e2["targets"][top]["salt"] = "s%d" % rng.randint(300, 399)
            hist["steps"].append({"k": "edit", "ws": e2, "writes": [], "what": "command of %s (downstream of the lost blob of %s)" % (top, mid)})
            cur = e2
            versions.append(cur)
            build(["//..."] if rng.random() < 0.6 else [top])
            continue
        if family == "checks" and r < 0.3:
            # the checked external condition is destroyed, the target runs and fails its check, the condition is
            # re-established from outside: the target must run again (nothing may have been cached by the failed run)
            ext = sorted({c["flag"] for t_ in cur["targets"].values() for c in t_.get("checks", [])
                          if c["flag"] in cur["files"] and not any(c["flag"] == p_ for p_, _ in t_.get("sets", []))})
            if ext:
                f = rng.choice(ext)
                keep = cur["files"][f]
                off = copy.deepcopy(cur)
                del off["files"][f]
                hist["steps"].append({"k": "edit", "ws": off, "writes": [[f, None]], "what": "destroy external condition %s" % f})
                cur = off
                build(["//..."])
                if rng.random() < 0.4:
                    e = gen_edit(rng, cur, ["content", "salt"])
                    if e and wf(e[0]):
                        hist["steps"].append({"k": "edit", "ws": e[0], "writes": e[1], "what": e[2]})
                        cur = e[0]
                        build(["//..."])
                on = copy.deepcopy(cur)
                on["files"][f] = keep
                hist["steps"].append({"k": "edit", "ws": on, "writes": [], "what": "establish external condition %s" % f})
                cur = on
                versions.append(cur)
                build(["//..."])
                continue
        if family == "dirs" and r < 0.35:
            cand = [x for x in sorted(cur["targets"]) if any(o["dir"] for o in cur["targets"][x]["outs"])
                    and any("*" in g for g in cur["targets"][x]["globs"])]
            if cand:
                x = rng.choice(cand)
                xt = cur["targets"][x]
                g = [g for g in xt["globs"] if "*" in g][0]
                newf = (xt["pkg"] + "/" if xt["pkg"] else "") + g.replace("/**/", "/d3/").replace("*", "m%d" % rng.randint(0, 99))
                w1 = copy.deepcopy(cur)
                w1["files"][newf] = "a%d\n" % rng.randint(0, 99)
                hist["steps"].append({"k": "edit", "ws": w1, "writes": [], "what": "add %s" % newf})
                build(["//..."])
                hist["steps"].append({"k": "edit", "ws": cur, "writes": [], "what": "remove %s again (the directory output shrinks back)" % newf})
                versions.append(cur)
                if rng.random() < 0.5:
                    e = gen_edit(rng, cur, ["salt"])
                    if e:
                        hist["steps"].append({"k": "edit", "ws": e[0], "writes": e[1], "what": e[2]})
                        cur = e[0]
                        versions.append(cur)
                build(["//..."])
                continue
        if family == "dirs" and r < 0.5 and len(versions) >= 2:
            cur = versions[-2]
            versions.append(cur)
            hist["steps"].append({"k": "edit", "ws": cur, "writes": [], "what": "revert sources to an earlier version"})
            if rng.random() < 0.5:
                e = gen_edit(rng, cur, ["salt"])
                if e:
                    hist["steps"].append({"k": "edit", "ws": e[0], "writes": e[1], "what": e[2]})
                    cur = e[0]
                    versions.append(cur)
            build()
            continue
        if family == "dirs" and r < 0.75:
            tp = gen_tamper(rng, cur, kinds=("moddir", "extradir", "rmindir", "rmdir"), prefer_dirs=1.0)
            if tp:
                hist["steps"].append({"k": "edit", "ws": cur, "writes": tp[0], "what": "tamper: " + tp[1]})
                build()
                continue
        if family == "tamper" and r < 0.6:
            tp = gen_tamper(rng, cur)
            if tp:
                hist["steps"].append({"k": "edit", "ws": cur, "writes": tp[0], "what": "tamper: " + tp[1]})
                build()
                continue
        if family in ("taint", "nocache", "taintedit", "taintdis", "outless") and r < (0.7 if family in ("taintedit", "taintdis") else 0.4):
            l = rng.choice(sorted(cur["targets"]))
            rr = rng.random()
            pats = [l]
            if rr < 0.2:
                pats = ["//..."]
            elif rr < 0.45 and rdeps(cur, l):
                pats = [l, rng.choice(rdeps(cur, l))]            # a target and one of its dependencies
            elif rr < 0.55:
                pats = ["//" + cur["targets"][l]["pkg"] + "/..."]
            hist["steps"].append({"k": "taint", "patterns": pats})
            if family in ("taintdis", "outless") and rng.random() < 0.6:
                build(enable_cache=False)                          # the tainted target runs with the cache disabled
                build()
                continue
            if rng.random() < 0.5:
                # taint + edit of the same target: the tainted target has a cache miss anyway
                e2 = copy.deepcopy(cur)
                e2["targets"][l]["salt"] = "s%d" % rng.randint(200, 299)
                hist["steps"].append({"k": "edit", "ws": e2, "writes": [], "what": "command of %s (just tainted)" % l})
                cur = e2
                versions.append(cur)
            build()
            if rng.random() < 0.5:
                build()     # no-op rebuild right after the taint was consumed
            continue
        if family in ("relocate",) and r < 0.5 or (family in ("edits", "tamper", "wipe") and r > 0.94):
            hist["steps"].append({"k": "relocate"})
            build()
            continue
        if family == "aliaswipe" and r < 0.45:
            ch = [(x, a) for x in sorted(cur["targets"]) for a in cur["targets"][x]["deps"] if a in cur["aliases"] and cur["aliases"][a] in cur["aliases"]]
            if ch:
                x, a = rng.choice(ch)
                writes = [[pth, None] for pth in sorted(all_out_paths(cur))]
                hist["steps"].append({"k": "edit", "ws": cur, "writes": writes, "what": "tamper: wipe all declared outputs"})
                e2 = copy.deepcopy(cur)
                e2["targets"][x]["salt"] = "s%d" % rng.randint(400, 499)
                hist["steps"].append({"k": "edit", "ws": e2, "writes": [], "what": "command of %s (its dependency is behind the alias chain %s)" % (x, a)})
                cur = e2
                versions.append(cur)
                build(["//..."] if rng.random() < 0.5 else [x])
                continue
        if family in ("wipe", "aliaswipe", "depchecks") and r < (0.75 if family != "aliaswipe" else 0.7):
            # fresh-checkout shape: every declared output disappears (files only, directories of file outputs stay),
            # or the sources go back to an earlier version (outputs in the workspace are then stale w.r.t. the cache hit)
            if r < 0.45 or len(versions) < 2:
                writes = [[pth, None] for pth in sorted(all_out_paths(cur))]
                hist["steps"].append({"k": "edit", "ws": cur, "writes": writes, "what": "tamper: wipe all declared outputs"})
                if rng.random() < 0.6:
                    e = gen_edit(rng, cur, ["salt", "content", "fp"])
                    if e and wf(e[0]):
                        hist["steps"].append({"k": "edit", "ws": e[0], "writes": e[1], "what": e[2]})
                        cur = e[0]
                        versions.append(cur)
            else:
                cur = versions[-2]
                versions.append(cur)
                hist["steps"].append({"k": "edit", "ws": cur, "writes": [], "what": "revert sources to an earlier version"})
                if rng.random() < 0.5:
                    l = rng.choice(sorted(cur["targets"]))
                    e = gen_edit(rng, cur, ["salt"])
                    if e:
                        hist["steps"].append({"k": "edit", "ws": e[0], "writes": e[1], "what": e[2]})
                        cur = e[0]
                        versions.append(cur)
            build()
            continue
        if family == "disabled" and r < 0.4:
            if rng.random() < 0.5:
                e = gen_edit(rng, cur, ["content", "salt"])
                if e and wf(e[0]):
                    hist["steps"].append({"k": "edit", "ws": e[0], "writes": e[1], "what": e[2]})
                    cur = e[0]
                    versions.append(cur)
            build(["//..."] if full or rng.random() < 0.6 else None, enable_cache=False)
            if rng.random() < 0.7:
                build(["//..."])        # the result stored while the cache was disabled is unusable: everything runs once more ...
                if rng.random() < 0.7:
                    build(["//..."])    # ... and then nothing
            continue
        if family == "shift" and r < 0.5:
            sp = shift_pair(rng, cur)
            if sp:
                hist["steps"].append({"k": "edit", "ws": sp[0], "writes": [], "what": sp[1]})
                cur = sp[0]
                build()
                continue
        if r < 0.15:
            build()     # no-op rebuild
            continue
        e = None
        for _try in range(6):
            kinds = None
            if family in ("alias", "aliaswipe"):
                kinds = ["viaalias", "viaalias", "realias", "adddep", "content"]
            if family == "links":
                kinds = ["linkfile", "linkfile", "linkfile", "content", "salt"]
            if family == "tool":
                kinds = ["toolcontent", "toolcontent", "toolcontent", "content", "salt"]
            if family == "swap":
                kinds = ["swapin", "swapin", "swapin", "content", "salt"]
            if family == "shared":
                kinds = ["exclfile", "exclfile", "content", "addfile", "salt"]
            if family == "dirs":
                kinds = ["addfile", "addfile", "addfile", "rmfile", "content", "salt"]
            if family == "checks":
                kinds = ["flagoff", "flagoff", "flagon", "flagon", "flagbad", "beh", "beh", "skipout", "skipfresh", "skipfresh", "skipfirst", "skipfirst", "addcheck", "content", "salt"]
            e = gen_edit(rng, cur, kinds)
            if e and wf(e[0]):
                break
            e = None
        if e:
            hist["steps"].append({"k": "edit", "ws": e[0], "writes": e[1], "what": e[2]})
            cur = e[0]
            versions.append(cur)
            if " stops writing " in e[2] and rng.random() < 0.7:
                build([e[2].split(" stops writing ")[0]])       # the verdict of this build is the verdict of that target
                continue
        build()
    return hist


def final_ws(hist, upto=None):
    ws = hist["ws"]
    for s in (hist["steps"] if upto is None else hist["steps"][:upto]):
        if s["k"] == "edit":
            ws = s["ws"]
    return ws


def external_files(hist, upto=None):
    """raw writes that are not at declared output paths (external conditions) accumulated up to a step"""
    ext = {}
    steps = hist["steps"] if upto is None else hist["steps"][:upto]
    ws = hist["ws"]
    for s in steps:
        if s["k"] == "edit":
            ws = s["ws"]
            outs = all_out_paths(ws)
            for w in s.get("writes", []):
                if not isinstance(w, dict) and w[0] not in outs:
                    ext[w[0]] = w[1]
    return [[p, c] for p, c in ext.items()]


def describe(hist):
    out = []
    for s in hist["steps"]:
        if s["k"] == "edit":
            out.append("edit(" + s.get("what", "") + ")")
        elif s["k"] == "taint":
            out.append("taint " + " ".join(s["patterns"]))
        elif s["k"] == "drop":
            out.append("drop-blob " + s["path"])
        elif s["k"] == "relocate":
            out.append("relocate workspace (same cache)")
        elif s["k"] == "run":
            out.append("run " + " ".join(s["targets"]) + (" minimal" if s.get("minimal") else ""))
        else:
            fl = ("" if s.get("enable_cache", True) else {"env": " [GROG_ENABLE_CACHE=false]", "toml": " [enable_cache = false in grog.toml]"}.get(s.get("disable_via"), " --enable-cache=false")) + (" minimal" if s.get("minimal") else "") + \
                 (" --fail-fast" if s.get("fail_fast") else "") + (" --platform=" + s["platform"] if s.get("platform") else "") + \
                 (" [interrupted by SIG%s once %s runs]" % (s["interrupt"].get("signal", "INT"), s["interrupt"]["when_started"]) if s.get("interrupt") else "")
            out.append(s.get("cmd", "build") + " " + " ".join(s["patterns"]) + fl)
    return out


# ------------------------------------------------------------------------------------------------
# special families (oracle-only: the generic model does not cover them)
# ------------------------------------------------------------------------------------------------

def gen_globout(rng):
    """F-globout shape (not WF): b's input glob also matches an output of its dependency a (same package)"""
    v = rng.randint(0, 99)
    ws = {"targets": {}, "aliases": {}, "files": {"p0/i0_0.in": "v%d\n" % v, "p0/e1.txt": "v%d\n" % (v + 1)}}
    ws["targets"]["//p0:t0"] = {"pkg": "p0", "name": "t0", "globs": ["i0_*.in"], "excl": [], "salt": "s1", "deps": [],
                                "outs": [{"dir": False, "rel": "gen0.in"}], "fp": {}, "nocache": False, "checks": [],
                                "beh": 0, "skip": [], "sets": []}
    ws["targets"]["//p0:t1"] = {"pkg": "p0", "name": "t1", "globs": ["gen*.in", "e1.txt"], "excl": [], "salt": "s2",
                                "deps": ["//p0:t0"], "outs": [{"dir": False, "rel": "o1.txt"}], "fp": {}, "nocache": False,
                                "checks": [], "beh": 0, "skip": [], "sets": []}
    b = {"k": "build", "patterns": ["//..."], "minimal": False, "enable_cache": True, "fail_fast": False}
    return {"ws": ws, "algo": "xxh3", "steps": [dict(b), dict(b), dict(b)], "tags": ["globout", "not-wf"]}


def raw_target(pkg, name, globs, deps, outs, raw, nocache=False):
    return {"pkg": pkg, "name": name, "globs": globs, "excl": [], "salt": "raw", "deps": deps,
            "outs": [{"dir": False, "rel": o} for o in outs], "fp": {}, "nocache": nocache, "checks": [], "beh": 0,
            "skip": [], "sets": [], "raw": raw}


def gen_swap(rng, nocache=True):
    """F-nocache-outhash shape: a (no-cache) copies x.in -> o1.txt, y.in -> o2.txt; b concatenates both.
    The edit swaps the contents of x.in and y.in, so a's two outputs swap their contents."""
    x, y = "c%d\n" % rng.randint(0, 49), "c%d\n" % rng.randint(50, 99)
    ws = {"targets": {}, "aliases": {}, "files": {"pa/x.in": x, "pa/y.in": y}}
    ws["targets"]["//pa:a"] = raw_target("pa", "a", ["x.in", "y.in"], [], ["o1.txt", "o2.txt"],
                                         "cat x.in > o1.txt; cat y.in > o2.txt", nocache=nocache)
    ws["targets"]["//pb:b"] = raw_target("pb", "b", [], ["//pa:a"], ["out.txt"], "cat ../pa/o1.txt ../pa/o2.txt > out.txt")
    ws2 = copy.deepcopy(ws)
    ws2["files"]["pa/x.in"], ws2["files"]["pa/y.in"] = y, x
    b = {"k": "build", "patterns": ["//..."], "minimal": False, "enable_cache": True, "fail_fast": False}
    return {"ws": ws, "algo": rng.choice(["xxh3", "sha256"]),
            "steps": [dict(b), {"k": "edit", "ws": ws2, "writes": [], "what": "swap contents of pa/x.in and pa/y.in"}, dict(b)],
            "tags": ["swap", "oracle-only"]}


def gen_samerel(rng):
    """dependency identity: two dependencies in DIFFERENT packages declare the SAME package-relative output name and copy their
    one input to it; a third target reads both. The edit swaps the contents of the two inputs, so the two dependencies swap
    their outputs: the multiset of (package-relative name, digest) records is unchanged, only which dependency produced which
    changes. (Pre-c2b7f0c the dependant's key did not change: stale cache hit.)"""
    x, y = "c%d\n" % rng.randint(0, 49), "c%d\n" % rng.randint(50, 99)
    rel = rng.choice(["out.txt", "same.txt", "gen/o.txt"])
    pa, pb = rng.choice([("pa", "pb"), ("pa", "pa/sub"), ("p/x", "p/y")])

    def T(pkg, name, globs, deps, outs, split=False):
        return {"pkg": pkg, "name": name, "globs": globs, "excl": [], "salt": "s%d" % rng.randint(0, 9), "deps": deps,
                "outs": [{"dir": False, "rel": o} for o in outs], "fp": {}, "nocache": False, "checks": [], "beh": 0, "skip": [],
                "sets": [], "split": split}
    ws = {"targets": {}, "aliases": {}, "links": {}, "files": {pa + "/s.in": x, pb + "/s.in": y}}
    la, lb, lc = lab(pa, "t0"), lab(pb, "t1"), lab("pc", "t2")
    ws["targets"][la] = T(pa, "t0", ["s.in"], [], [rel], split=True)
    ws["targets"][lb] = T(pb, "t1", ["s.in"], [], [rel], split=True)
    ws["targets"][lc] = T("pc", "t2", [], [la, lb], ["res.txt"])
    if rng.random() < 0.5:
        ws["targets"][lab("pd", "t3")] = T("pd", "t3", [], [lc], ["top.txt"])
    b = {"k": "build", "patterns": ["//..."], "minimal": False, "enable_cache": True, "fail_fast": False}
    steps = [dict(b)]
    cur = ws
    for i in range(rng.randint(1, 3)):
        w2 = copy.deepcopy(cur)
        w2["files"][pa + "/s.in"], w2["files"][pb + "/s.in"] = cur["files"][pb + "/s.in"], cur["files"][pa + "/s.in"]
        steps.append({"k": "edit", "ws": w2, "writes": [], "what": "swap contents of %s/s.in and %s/s.in" % (pa, pb)})
        cur = w2
        if rng.random() < 0.3:
            steps.append({"k": "edit", "ws": cur, "writes": [[p_, None] for p_ in sorted(all_out_paths(cur))], "what": "tamper: wipe all declared outputs"})
        steps.append(dict(b))
    return {"ws": ws, "algo": rng.choice(["xxh3", "sha256"]), "steps": steps, "tags": ["swap", "samerel"]}


def gen_collector(rng):
    """command-less collector: gen_a -> dist/a.txt, gen_b -> dist/b.txt, bundle (NO command, deps gen_a gen_b, own input manifest)
    declares dir::dist, site reads the bundle. (Overlapping outputs are legal between targets ordered by a dependency.)"""
    va, vb = rng.randint(0, 99), rng.randint(0, 99)
    ws = {"targets": {}, "aliases": {}, "links": {},
          "files": {"pc/a.src": "A%d\n" % va, "pc/b.src": "B%d\n" % vb, "pc/manifest.txt": "m0\n"}}
    ws["targets"]["//pc:gen_a"] = raw_target("pc", "gen_a", ["a.src"], [], ["dist/a.txt"], "mkdir -p dist; cat a.src > dist/a.txt")
    ws["targets"]["//pc:gen_b"] = raw_target("pc", "gen_b", ["b.src"], [], ["dist/b.txt"], "mkdir -p dist; cat b.src > dist/b.txt")
    bundle = raw_target("pc", "bundle", ["manifest.txt"], ["//pc:gen_a", "//pc:gen_b"], [], "")
    bundle["outs"] = [{"dir": True, "rel": "dist"}]
    bundle["nocmd"] = True
    ws["targets"]["//pc:bundle"] = bundle
    ws["targets"]["//ps:site"] = raw_target("ps", "site", [], ["//pc:bundle"], ["site.txt"], "cat ../pc/dist/a.txt ../pc/dist/b.txt > site.txt")
    b = {"k": "build", "patterns": ["//..."], "minimal": False, "enable_cache": True, "fail_fast": False}
    steps = [dict(b)]
    cur = ws

    def edit(f, c, what, writes=()):
        nonlocal cur
        w2 = copy.deepcopy(cur)
        w2["files"][f] = c
        steps.append({"k": "edit", "ws": w2, "writes": list(writes), "what": what})
        cur = w2
    edit("pc/a.src", "A%d\n" % (va + 100), "content of pc/a.src")
    steps.append(dict(b))
    edit("pc/a.src", "A%d\n" % va, "content of pc/a.src back to the first version")
    edit("pc/manifest.txt", "m1\n", "content of pc/manifest.txt (the command-less collector must be rebuilt)")
    steps.append(dict(b))
    if rng.random() < 0.7:
        wipe = [["pc/dist", None], ["ps/site.txt", None]]
        steps.append({"k": "edit", "ws": cur, "writes": wipe, "what": "tamper: wipe all declared outputs"})
        edit("pc/manifest.txt", "m2\n", "content of pc/manifest.txt")
        steps.append(dict(b))
    return {"ws": ws, "algo": rng.choice(["xxh3", "sha256"]), "steps": steps, "tags": ["collector", "oracle-only"]}


def gen_runchain(rng):
    """`grog run` of generated binaries: data -> a (bin, prints data's output at run time) -> b (bin); histories of
    `grog run //:a //:b` / `grog run //:a` with reverts, wipes and edits"""
    d0 = rng.randint(0, 99)
    ws = {"targets": {}, "aliases": {}, "links": {},
          "files": {"pr/data.src": "D%d\n" % d0,
                    "pr/a.src": "#!/bin/sh\nset -e\necho \"RUN:a data=$(cat \"$GROG_WORKSPACE_ROOT/pr/data.out\")\"\n",
                    "pr/b.src": "#!/bin/sh\necho RUN:b v0\n"}}
    ws["targets"]["//pr:data"] = raw_target("pr", "data", ["data.src"], [], ["data.out"], "cp data.src data.out")
    a = raw_target("pr", "a", ["a.src"], ["//pr:data"], [], "cp a.src a.bin")
    a["bin"] = "a.bin"
    a["binraw"] = True
    bb = raw_target("pr", "b", ["b.src"], ["//pr:a"], [], "cp b.src b.bin")
    bb["bin"] = "b.bin"
    bb["binraw"] = True
    ws["targets"]["//pr:a"] = a
    ws["targets"]["//pr:b"] = bb
    steps = []
    cur = ws
    ver = [0]

    def run(ts):
        steps.append({"k": "run", "targets": ts, "minimal": False})

    def edit(f, c, what):
        nonlocal cur
        w2 = copy.deepcopy(cur)
        w2["files"][f] = c
        steps.append({"k": "edit", "ws": w2, "writes": [], "what": what})
        cur = w2

    def edit_b():
        ver[0] += 1
        edit("pr/b.src", "#!/bin/sh\necho RUN:b v%d\n" % ver[0], "content of pr/b.src")
    both = ["//pr:a", "//pr:b"]
    run(both)
    for _ in range(rng.randint(3, 5)):
        r = rng.random()
        if r < 0.3:
            edit("pr/data.src", "D%d\n" % rng.randint(100, 199), "content of pr/data.src")
        elif r < 0.55:
            edit("pr/data.src", "D%d\n" % d0, "content of pr/data.src back to the first version")
            edit_b()
        elif r < 0.8:
            steps.append({"k": "edit", "ws": cur, "writes": [["pr/data.out", None], ["pr/a.bin", None], ["pr/b.bin", None]],
                          "what": "tamper: wipe all declared outputs"})
            if rng.random() < 0.6:
                edit_b()
        else:
            edit_b()
        run(both if rng.random() < 0.65 else [rng.choice(both)])
    return {"ws": ws, "algo": rng.choice(["xxh3", "sha256"]), "steps": steps, "tags": ["run", "oracle-only"]}


# ------------------------------------------------------------------------------------------------
# engine shared by the checks
# ------------------------------------------------------------------------------------------------

def hkey(h):
    return hashlib.sha1(json.dumps({"ws": h["ws"], "steps": h["steps"]}, sort_keys=True).encode()).hexdigest()


def has_model(h):
    return "oracle-only" not in h.get("tags", []) and "not-wf" not in h.get("tags", [])


def run_both(ctx, hists, scratch_name="h", fixes=ALL_FIXES, par=4, force_minimal=None):
    """-> list of records {hist, real, model, diffs}; None if grog could not be built"""
    grog = ctx.grog_binary()
    if not grog:
        return None
    real = run_real_many(grog, hists, ctx.scratch(scratch_name), par=par, force_minimal=force_minimal, prefix=scratch_name)
    mh = [h for h in hists if has_model(h)]
    mo = iter(run_model(ctx, mh, fixes, force_minimal)) if mh else iter([])
    recs = []
    flaky = []
    for i, (h, r) in enumerate(zip(hists, real)):
        m = next(mo) if has_model(h) else None
        diffs = compare(h, r, m) if m is not None else []
        if diffs:
            # A disagreement must be reproducible to count: the real side is re-run once, alone (no parallel load from this
            # check). A run that only failed the first time is recorded in the evidence (with the log of the failing build),
            # not reported: it has no failing input that can be replayed.
            base = os.path.join(ctx.scratch(scratch_name), "retry%d" % i)
            try:
                r2 = run_real(grog, h, base, force_minimal)
            finally:
                shutil.rmtree(base, ignore_errors=True)
            d2 = compare(h, r2, m)
            if not d2:
                bi = diffs[0][0]
                obs = [o for o in r if "ok" in o]
                flaky.append({"history": describe(h), "first_difference": [diffs[0][0], diffs[0][1], str(diffs[0][2])[:200], str(diffs[0][3])[:200]],
                              "impl_log_of_that_build": obs[bi]["log"][-1200:] if 0 <= bi < len(obs) else ""})
                r, diffs = r2, d2
        recs.append({"hist": h, "real": r, "model": m, "diffs": diffs})
    if FLAKES["impl_timeouts"]:
        ctx.coverage["impl_build_timeouts"] = FLAKES["impl_timeouts"]
        ctx.notes.append("%d real `grog build` invocation(s) did not terminate within the harness timeout and were re-run "
                         "(termination is property C04; goroutine dump of the first ones in coverage.impl_timeout_dump)" % FLAKES["impl_timeouts"])
        ctx.coverage["impl_timeout_dump"] = [d[-3000:] for d in FLAKES["timeout_dumps"]]
    if flaky:
        ctx.coverage["unreproduced_disagreements"] = flaky[:5]
        ctx.coverage["unreproduced_disagreements_n"] = len(flaky)
        ctx.notes.append("%d history run(s) disagreed with the model once and agreed when re-run alone (see coverage.unreproduced_disagreements)" % len(flaky))
    return recs


def selected_outputs(ws, patterns):
    """declared output paths of the targets a build of `patterns` processes"""
    return sorted(out_path(ws["targets"][l], o) for l in selected(ws, patterns) for o in all_outs(ws["targets"][l]))


def clean_oracle(ctx, hist, real, scratch_name="clean", par=4, which="last"):
    """C01's model-independent oracle. For the last (or every) successful cache-enabled mode-`all` build of the history:
    a real from-scratch build (fresh cache root, fresh workspace holding only the sources and external files) of the
    sources at that point must succeed and give the same bytes at every declared output of the selected targets.
    -> list of failures {build, path, incremental, clean}"""
    grog = ctx.grog_binary()
    bidx = [i for i, s in enumerate(hist["steps"]) if s["k"] == "build"]
    cands = []
    for n, si in enumerate(bidx):
        s = hist["steps"][si]
        if n < len(real) and real[n].get("ok") and s.get("enable_cache", True) and not s.get("minimal"):
            cands.append((n, si))
    if which == "last":
        cands = cands[-1:]
    fails = []

    def one(c, attempt=0):
        out = one_try(c)
        if out and attempt == 0:
            return one_try(c)       # a failure of the oracle must be reproducible
        return out

    def one_try(c):
        n, si = c
        ws = final_ws(hist, si)
        base = os.path.join(ctx.scratch(scratch_name), "%s-%d" % (hkey(hist)[:10], n))
        try:
            ob = clean_build(grog, ws, hist["steps"][si]["patterns"], base, hist.get("algo", "xxh3"), external_files(hist, si))
        finally:
            shutil.rmtree(base, ignore_errors=True)
        out = []
        if not ob["ok"]:
            out.append({"build": n, "path": None, "incremental": "build succeeded", "clean": "from-scratch build failed: " + ob["log"][-400:]})
            return out
        for p in selected_outputs(ws, hist["steps"][si]["patterns"]):
            if real[n]["fs"].get(p) != ob["fs"].get(p):
                out.append({"build": n, "path": p, "incremental": real[n]["fs"].get(p), "clean": ob["fs"].get(p)})
        return out
    with ThreadPoolExecutor(max_workers=par) as ex:
        for r in ex.map(one, cands):
            fails += r
    return fails, len(cands)


def truncate(hist, nbuilds):
    """prefix of the history ending with its nbuilds-th build"""
    out, n = [], 0
    for s in hist["steps"]:
        out.append(s)
        if s["k"] in ("build", "run"):
            n += 1
            if n == nbuilds:
                break
    h = dict(hist)
    h["steps"] = out
    return h


def shrink(hist, still_fails, budget=12):
    """greedy delta-debugging on steps: drop one non-final step at a time while `still_fails(hist)` holds"""
    cur = hist
    changed = True
    while changed and budget > 0:
        changed = False
        for i in range(len(cur["steps"]) - 1):
            cand = dict(cur)
            cand["steps"] = cur["steps"][:i] + cur["steps"][i + 1:]
            if not any(s["k"] == "build" for s in cand["steps"]):
                continue
            budget -= 1
            if budget < 0:
                break
            try:
                if still_fails(cand):
                    cur = cand
                    changed = True
                    break
            except Exception:
                pass
    return cur


def stats(recs):
    """distribution counters for the evidence file"""
    c = {"histories": len(recs), "builds": 0, "executions": 0, "hits": 0, "failed_builds": 0, "edits": 0, "taints": 0,
         "tamperings": 0, "minimal_builds": 0, "cache_disabled_builds": 0, "targets_total": 0, "families": {}}
    nontrivial = set()
    for r in recs:
        h = r["hist"]
        for t in h.get("tags", []):
            c["families"][t] = c["families"].get(t, 0) + 1
        c["targets_total"] += len(h["ws"]["targets"])
        ws = h["ws"]
        obs = [o for o in r["real"] if "ok" in o]
        n = 0
        any_exec = any_hit = False
        for s in h["steps"]:
            if s["k"] == "edit":
                if s.get("what", "").startswith("tamper"):
                    c["tamperings"] += 1
                else:
                    c["edits"] += 1
                ws = s["ws"]
            elif s["k"] == "taint":
                c["taints"] += 1
            elif s["k"] == "build" and n < len(obs):
                o = obs[n]
                n += 1
                c["builds"] += 1
                c["executions"] += len(o["executed"])
                sel = selected(ws, s["patterns"])
                hits = max(0, len(sel) - len(set(o["executed"])))
                c["hits"] += hits if o["ok"] else 0
                any_exec |= bool(o["executed"])
                any_hit |= hits > 0 and o["ok"]
                c["failed_builds"] += 0 if o["ok"] else 1
                c["minimal_builds"] += 1 if s.get("minimal") else 0
                c["cache_disabled_builds"] += 0 if s.get("enable_cache", True) else 1
        if any_exec and any_hit and len(obs) >= 2:
            nontrivial.add(hkey(h))
    c["distinct_nontrivial"] = len(nontrivial)
    return c


def sample_of(rec, nmax=3):
    h = rec["hist"]
    obs = [o for o in rec["real"] if "ok" in o]
    return {"targets": sorted(h["ws"]["targets"]), "aliases": h["ws"]["aliases"], "history": describe(h),
            "builds": [{"ok": o["ok"], "executed": o["executed"]} for o in obs][:8]}


def report_disagreement(ctx, rec, correspondence, extra=None):
    d = rec["diffs"][0]
    obj = {"kind": "correspondence", "correspondence": correspondence, "history": rec["hist"], "described": describe(rec["hist"]),
           "first_difference": {"build": d[0], "field": d[1], "impl": str(d[2])[:600], "model": str(d[3])[:600]},
           "impl_log_of_that_build": ([o for o in rec["real"] if "ok" in o][d[0]]["log"][-1500:] if d[0] >= 0 else ""),
           "n_differences": len(rec["diffs"])}
    if extra:
        obj.update(extra)
    ctx.violation("model and implementation disagree on a build history (%s)" % correspondence, obj, found_input=False)


def replay_history(ctx, rep, fixes=ALL_FIXES):
    h = rep.get("history")
    if not h:
        print("nothing to replay in this file (see 'kind')")
        return 0
    recs = run_both(ctx, [h], "replay", fixes)
    if recs is None:
        return 1
    r = recs[0]
    for line in describe(h):
        print("  ", line)
    obs = [o for o in r["real"] if "ok" in o]
    for i, o in enumerate(obs):
        m = r["model"][i] if isinstance(r["model"], list) and i < len(r["model"]) else None
        print("build %d: impl ok=%s executed=%s | model %s" % (i, o["ok"], o["executed"],
              ("ok=%s executed=%s" % (m["ok"], m["executed"])) if m else "-"))
    for d in r["diffs"][:10]:
        print("  DIFF", d[0], d[1], str(d[2])[:200], "|", str(d[3])[:200])
    fails, n = clean_oracle(ctx, h, r["real"], "replay-clean")
    for f in fails:
        print("  CLEAN-BUILD ORACLE FAILS:", f["build"], f["path"], repr(f["incremental"])[:200], "vs", repr(f["clean"])[:200])
    return 1 if (r["diffs"] or fails) else 0


# ------------------------------------------------------------------------------------------------
# model-independent helpers for the C02 / C13 / C14 oracles
# ------------------------------------------------------------------------------------------------

def tkey(ws, l):
    """everything of a target that enters its own key (not its dependencies' outputs)"""
    t = ws["targets"][l]
    pre = t["pkg"] + "/" if t["pkg"] else ""
    af = all_files(ws)
    ins = [(r, af.get(pre + r)) for r in resolved_inputs(ws, l)]
    return json.dumps([cmd_text(ws, l), ins, [(o["dir"], o["rel"]) for o in sorted_outs(t)], sorted(t.get("fp", {}).items()),
                       rdeps(ws, l), bool(t.get("nocache")), t.get("checks", [])], sort_keys=True)


def state_key(ws, l):
    """what the cache key of a dependency-free target is made of (checks and tags are not part of it)"""
    t = ws["targets"][l]
    pre = t["pkg"] + "/" if t["pkg"] else ""
    af = all_files(ws)
    ins = [(r, af.get(pre + r)) for r in resolved_inputs(ws, l)]
    return json.dumps([cmd_text(ws, l), ins, [(o["dir"], o["rel"]) for o in sorted_outs(t)], sorted(t.get("fp", {}).items())], sort_keys=True)


def descendants(ws, roots):
    out = set(roots)
    changed = True
    while changed:
        changed = False
        for l in ws["targets"]:
            if l not in out and any(d in out for d in rdeps(ws, l)):
                out.add(l)
                changed = True
    return out


def touched(ws_a, ws_b):
    """targets whose own definition / input contents differ between two versions of the sources (or are new)"""
    return {l for l in ws_b["targets"] if l not in ws_a["targets"] or tkey(ws_a, l) != tkey(ws_b, l)}


def check_holds(chk, fs):
    v = fs.get(chk["flag"])
    if v is None:
        return False
    return chk["exp"] is None or v.strip() == chk["exp"].strip()


def walk(hist, real):
    """iterate builds with context: yields dict(n, step, ws, obs, prev (previous build record or None),
    taints_since (patterns tainted since the previous build), edits_since (list of (ws_before, ws_after, what, writes)))"""
    ws = hist["ws"]
    obs = [o for o in real if "ok" in o]
    n = 0
    prev = None
    tp, es = [], []
    for s in hist["steps"]:
        if s["k"] == "edit":
            es.append((ws, s["ws"], s.get("what", ""), s.get("writes", [])))
            ws = s["ws"]
        elif s["k"] == "taint":
            tp += s["patterns"]
        elif s["k"] in ("build", "run"):
            if s["k"] == "run":
                s = dict(s, patterns=list(s["targets"]))
            if n >= len(obs):
                return
            rec = {"n": n, "step": s, "ws": ws, "obs": obs[n], "prev": prev, "taints_since": tp, "edits_since": es}
            yield rec
            prev = rec
            tp, es = [], []
            n += 1


def summary_numbers(log):
    import re
    m = re.search(r"(\d+) targets? completed \((\d+) cache hits?\)", log)
    return (int(m.group(1)), int(m.group(2))) if m else None
