"""Broad randomized CLI scenario generator shared by C03 / C04 / C05 (usable by C18).

A *world* is a generated workspace (targets, aliases, outputs of every kind, output checks, bin tools, tags, timeouts,
shell styles, designed failure kinds gated by flag files that are NOT inputs), a configuration (num_workers, fail-fast,
load_outputs, enable_cache, disable_default_shell_flags, hash algorithm) and a history of 1-3 `grog build //...`
invocations with steps in between (heal / break / taint / lose blobs / remove outputs) and an optional interrupt.

Every command grog starts (target commands and output-check commands) appends single-write lines to an O_APPEND trace:
    s  <id> <ns>                 command of target <id> started
    d  <id> <dep> <path> <val>   what the command sees of a dependency output at its start (size, or md5 of small files)
    b  <id> <dep> <text>         what the dependency's bin tool prints when the command calls $(bin :dep)
    e  <id> <ns>                 the command reached the end of its body
    x  <id> <status> <ns>        EXIT trap: exit status of the whole script
    cs <id>.<k> <ns> / ce <id>.<k> <ns>   output check k of target <id>
All oracles are computed from that trace, grog's exit status / report and the cache directory; each oracle names the
property whose clause it checks (C03 order / at-most-once / concurrency, C04 termination / resolution / crash,
C05 containment / fail-fast / report / never cached / retry / outputs exist).
"""
import hashlib, json, os, random, re, shutil, signal, subprocess, time

NCPU = os.cpu_count() or 8
WALL = 45            # seconds per build; the worlds need 0.6 - 4 s on the unchanged tree
SMALL = 1 << 20

FAIL_KINDS = ["exit", "tail-and", "tail-not", "tail-or", "tail-subshell", "tail-plain", "timeout", "missing-first", "missing-middle",
              "missing-last", "missing-dir", "check", "check-expected"]
OK_TAILS = ["none", "and", "not", "or", "subshell", "exit0", "bg"]


def name(t):
    return f"t{t['id']}_test" if t.get("test") else f"t{t['id']}"


# first lines of commands: grog shortens / prints / logs the first line of a command (status line, debug log, failure report).
# Width classes (bytes per character) x lengths around the places where code might cut (66..72, 80, 120, 4096) x odd shapes.
CHARSETS = {"ascii": "abcdefghij klmnop-qrstu_vwxyz0123456789", "latin": "äöüßéèàçñøåæœ", "cjk": "编译目标输出文件依赖缓存构建检查结果日本語テキスト한국어",
            "emoji": "🚀🔥✅📦🧪🛠🐹🦀", "mixed": "aé编🚀 b-ñ語✅_"}
BANNER_LENGTHS = [1, 2, 23, 24, 35, 36, 48, 60, 64, 65, 66, 67, 68, 69, 70, 71, 72, 73, 80, 100, 120, 127, 128, 129, 255, 256, 257, 1000, 4096, 20000]


def gen_banner(rng):
    """-> (kind, text): the text becomes the FIRST line(s) of a command; it is a shell no-op (comment, blank, blanks + comment)"""
    shape = rng.choice(["comment", "comment", "comment", "comment", "empty-first", "leading-blanks", "tabs", "colon-noop", "crlf-free-blank-lines"])
    cs = rng.choice(list(CHARSETS))
    nchar = rng.choice(BANNER_LENGTHS) if rng.random() < 0.7 else rng.randint(1, 90)
    chars = CHARSETS[cs]
    text = "".join(rng.choice(chars) for _ in range(nchar)).replace("'", "")
    if shape == "comment":
        return f"comment:{cs}", "# " + text
    if shape == "empty-first":
        return "empty-first-line", ""
    if shape == "leading-blanks":
        return f"leading-blanks:{cs}", " \t   # " + text[:200]
    if shape == "tabs":
        return f"tabs:{cs}", "#\t" + "\t".join(text[i:i + 7] for i in range(0, min(len(text), 140), 7))
    if shape == "colon-noop":
        return f"colon-noop:{cs}", ": '" + text[:3000] + "'"
    return "blank-lines", "\n\n"


# ------------------------------------------------------------------------------------------------------------------
# generation
# ------------------------------------------------------------------------------------------------------------------

def gen_world(rng, focus=None):
    """focus in (None, 'C03', 'C04', 'C05'): shifts the probabilities towards the features the property's clauses need;
    every feature stays reachable under every focus."""
    f3, f4, f5 = focus == "C03", focus == "C04", focus == "C05"
    n = rng.randint(4, 11)
    cfg = {"num_workers": rng.choice([1, 1, 2, 2, 3, 4, 8]),
           "fail_fast": rng.random() < (0.35 if f5 else 0.2),
           "load_outputs": "minimal" if rng.random() < (0.55 if f3 else 0.3) else "all",
           "enable_cache": rng.random() > 0.08,
           "disable_default_shell_flags": rng.random() < (0.25 if f5 else 0.12),
           "hash_algorithm": rng.choice(["xxh3", "xxh3", "sha256"])}
    shape = rng.random()
    targets = []
    for i in range(n):
        t = {"id": i, "deps": [], "alias": {}, "outs": [], "checks": [], "tags": [], "sleep": rng.choice([0, 0, 0.05, 0.15, 0.3]),
             "tail": rng.choice(OK_TAILS), "fail": None, "timeout": None, "cmdless": False, "test": False, "bin": False, "uses_bin": [],
             "banner": None, "noise": 0}
        # dependencies: layered / wide / chain mixtures
        if i > 0:
            if shape < 0.3:          # wide: most targets hang off a few roots
                cand = list(range(min(i, 2)))
                k = 1 if rng.random() < 0.8 else 2
            elif shape < 0.5:        # chain-ish
                cand = [i - 1] + ([rng.randrange(i)] if rng.random() < 0.3 else [])
                k = len(cand)
            elif shape < 0.65:       # independent
                cand, k = [], 0
            else:
                cand = list(range(i))
                k = rng.choice([0, 1, 1, 2, 3])
            t["deps"] = sorted(set(rng.sample(cand, min(k, len(cand))))) if cand else []
        targets.append(t)
    has_dependants = {d for t in targets for d in t["deps"]}
    for t in targets:
        i = t["id"]
        leaf = i not in has_dependants
        r = rng.random()
        # outputs
        if r < 0.12 and leaf:
            pass                                                           # no outputs
        elif r < 0.45:
            t["outs"] = [("file", f"t{i}.out", 0)]
        elif r < 0.62:
            t["outs"] = [("file", f"t{i}.o{k}", 0) for k in range(rng.choice([2, 3]))]
        elif r < 0.8:
            t["outs"] = [("dir", f"d{i}_0", 0)] + ([("file", f"t{i}.out", 0)] if rng.random() < 0.5 else [])
        elif r < (0.9 if f4 else 0.86):
            k = rng.choice([2, 4, NCPU, 2 * NCPU, 2 * NCPU + 1, 3 * NCPU]) if rng.random() < (0.8 if f4 else 0.5) else rng.choice([2, 3])
            t["outs"] = [("dir", f"d{i}_{j}", 0) for j in range(k)]
        elif r < (0.97 if f3 else 0.93):
            t["outs"] = [("file", f"t{i}.big", rng.choice([16, 32, 64]) << 20)]      # slow restore
        else:
            t["outs"] = [("file", f"t{i}.out", 0)]
        if t["outs"] and rng.random() < 0.12 and not leaf:
            t["bin"] = True
        if leaf and rng.random() < 0.15:
            t["test"] = True                  # (reset below if a later target comes to depend on it)
        # output checks
        nc = rng.choice([0, 0, 0, 1, 2, 3] if not f3 else [0, 0, 1, 2, 2, 3])
        t["checks"] = [{"sleep": rng.choice([0, 0.15, 0.3]), "expected": rng.random() < 0.4, "fail": False,
                        "banner": gen_banner(rng) if rng.random() < 0.25 else None} for _ in range(nc)]
        if rng.random() < (0.6 if f4 else 0.4):
            t["banner"] = gen_banner(rng)
        if leaf and not t["outs"] and t["checks"] and rng.random() < 0.5 and not t["test"]:
            t["cmdless"] = True
        if rng.random() < 0.1:
            t["tags"].append("no-cache")
        if rng.random() < 0.05:
            t["tags"].append("multiplatform-cache")
        if rng.random() < (0.45 if cfg["fail_fast"] else 0.1):
            t["timeout"] = rng.choice(["20s", "120s", "1h"])               # generous: never fires
    # aliases on dependency edges, alias of alias
    for t in targets:
        for d in t["deps"]:
            if rng.random() < (0.4 if f4 else 0.25):
                t["alias"][d] = 2 if rng.random() < 0.3 else 1
    # bin tool users
    for t in targets:
        for d in t["deps"]:
            if targets[d]["bin"] and d not in t["alias"] and not t["cmdless"]:
                t["uses_bin"].append(d)
    # designed failures
    nfail = rng.choice([0, 1, 1, 2, 3] if (f5 or f4) else [0, 0, 1, 1, 2])
    for t in rng.sample(targets, min(nfail, n)):
        kinds = []
        files = [o for o in t["outs"] if o[0] == "file"]
        dirs = [o for o in t["outs"] if o[0] == "dir"]
        if t["cmdless"]:
            kinds = ["check", "check-expected"]
        else:
            kinds = ["exit", "tail-and", "tail-not", "tail-or", "tail-subshell", "timeout", "check", "check-expected"]
            if cfg["disable_default_shell_flags"]:
                kinds += ["tail-plain", "tail-plain"]
            if len(files) >= 2:
                kinds += ["missing-first", "missing-last"] + (["missing-middle"] if len(files) >= 3 else [])
            elif len(files) == 1 and not t["bin"]:
                kinds += ["missing-last"]
            if dirs:
                kinds += ["missing-dir", "missing-dir"]
        t["fail"] = rng.choice(kinds)
        if t["fail"] == "timeout":
            t["timeout"] = "400ms"
            # the healthy run of this target must stay far below its timeout also on a loaded machine: no sleep, no background tail
            t["sleep"] = 0
            if t.get("tail") == "bg":
                t["tail"] = "none"
        if t["fail"] in ("check", "check-expected"):
            # the failing check stands at a random position among 1..3 checks; the checks around it pass, each with or without
            # expected_output: every order of (exit-status-only / expected_output) x (passing / failing) is reachable
            want = rng.choice([1, 2, 2, 3, 3])
            while len(t["checks"]) < want:
                t["checks"].append({"sleep": 0, "expected": rng.random() < 0.5, "fail": False, "banner": None})
            k = rng.randrange(len(t["checks"]))
            t["checks"][k]["fail"] = True
            t["checks"][k]["expected"] = t["fail"] == "check-expected"
        if t["fail"].startswith("missing") and "no-cache" not in t["tags"] and rng.random() < 0.35:
            t["tags"].append("no-cache")                                   # the output path that bypasses the cache has its own code
        if t["fail"] == "exit" and rng.random() < (0.5 if cfg["fail_fast"] else 0.2):
            t["noise"] = rng.choice([1, 70, 300])                          # kB printed before failing: repeated in grog's report
    # history
    steps_pool = ["heal", "heal", "nothing", "taint", "lose-blobs", "rm-outputs", "break"]
    if f5:
        steps_pool += ["taint", "taint", "break"]
    if f4:
        steps_pool += ["lose-blobs", "lose-blobs"]
    if f3:
        steps_pool += ["rm-outputs+taint-dependants", "rm-outputs+taint-dependants", "rm-outputs+taint-dependants"]
    nb = rng.choice([1, 2, 2, 3, 3])
    history = [{"op": "build"}]
    for _ in range(nb - 1):
        st = rng.choice(steps_pool)
        if st == "taint" and rng.random() < 0.5:
            history.append({"op": "break"})
        history.append({"op": st, "seed": rng.randrange(1 << 30)})
        history.append({"op": "build"})
    healed = rng.random() < 0.45
    # history templates (still random worlds; the template only shapes the history so that multi-step clauses are reachable)
    tpl = rng.random()
    has_fail = any(t["fail"] for t in targets)
    if has_fail and tpl < (0.3 if f5 else 0.08):
        # built once successfully, then the cause of a failure appears and the target is tainted: the forced run fails and the
        # build after that has to attempt it again
        healed = True
        history = [{"op": "build"}, {"op": "break+taint-failing", "seed": rng.randrange(1 << 30)}, {"op": "build"},
                   {"op": rng.choice(["nothing", "nothing", "rm-outputs"]), "seed": rng.randrange(1 << 30)}, {"op": "build"}]
    elif tpl > (0.7 if f3 else 0.94):
        # a cached dependency with a large output and several dependants that all have to execute at once (restore under contention)
        cand = max(targets, key=lambda t: sum(1 for u in targets if t["id"] in u["deps"]))
        users = [u for u in targets if cand["id"] in u["deps"]]
        later = [u for u in targets if u["id"] > cand["id"] and u not in users and not u["cmdless"]]
        for u in later[:max(0, 3 - len(users))]:
            u["deps"] = sorted(set(u["deps"]) | {cand["id"]})
        if not cand["cmdless"] and not cand["test"] and cand["fail"] is None:
            cand["outs"] = [("file", f"t{cand['id']}.big", rng.choice([64, 96, 128]) << 20)]
            cand["bin"] = False
            for u in targets:
                u["uses_bin"] = [d for d in u["uses_bin"] if d != cand["id"]]
            cand["tags"] = [x for x in cand["tags"] if x != "no-cache"]
            if rng.random() < 0.8:
                cfg["load_outputs"] = "minimal"
                cfg["num_workers"] = max(cfg["num_workers"], rng.choice([2, 3, 4]))
                cfg["enable_cache"] = True
            # two or three of the dependants become ready at the same instant: nothing else to wait for, nothing to do before the restore
            twins = [u for u in targets if cand["id"] in u["deps"] and not u["cmdless"] and not u["test"]][:rng.choice([2, 3])]
            for u in twins:
                u["deps"], u["alias"], u["uses_bin"], u["checks"], u["sleep"] = [cand["id"]], ({cand["id"]: 1} if rng.random() < 0.3 else {}), [], [], 0
                if u["fail"] in ("check", "check-expected"):
                    u["fail"] = None
            history = [{"op": "build"}, {"op": "rm-outputs+taint-dependants", "seed": rng.randrange(1 << 30), "dep": cand["id"]}, {"op": "build"}]
    interrupt = None
    nb = sum(1 for st in history if st["op"] == "build")
    if rng.random() < (0.3 if f4 else 0.12):
        interrupt = {"signal": rng.choice(["SIGINT", "SIGTERM"]), "delay": rng.choice([0.25, 0.5, 0.9]), "build": rng.randrange(nb)}
    slow_reader = 0
    # the command: `grog build //...`, or `grog test //...` (tests and what they depend on; same report, same exit status rules)
    cmd = "build"
    if rng.random() < (0.3 if f5 else 0.15):
        leaves = [t for t in targets if t["id"] not in {d for u in targets for d in u["deps"]} and not t["cmdless"] and not t["bin"]]
        for t in rng.sample(leaves, min(len(leaves), rng.randint(1, 3))):
            t["test"] = True
        if any(t["test"] for t in targets):
            cmd = "test"
    # a non-test target must not depend on a test target (grog's analysis rejects that graph before anything runs): only targets that
    # nothing but tests depend on stay tests
    changed = True
    while changed:
        changed = False
        for u in targets:
            if not u["test"]:
                for d in u["deps"]:
                    if targets[d]["test"]:
                        targets[d]["test"] = False; changed = True
    if cmd == "test" and not any(t["test"] for t in targets):
        cmd = "build"
    return {"cfg": cfg, "targets": targets, "history": history, "interrupt": interrupt, "healed_at_start": healed, "slow_reader": slow_reader, "cmd": cmd}


def features(world):
    f = set()
    cfg = world["cfg"]
    f.add(f"workers={cfg['num_workers'] if cfg['num_workers'] < 4 else '4+'}")
    for k in ("fail_fast", "disable_default_shell_flags"):
        if cfg[k]:
            f.add(k)
    if not cfg["enable_cache"]:
        f.add("cache-disabled")
    f.add("load=" + cfg["load_outputs"])
    f.add("hash=" + cfg["hash_algorithm"])
    for t in world["targets"]:
        kinds = [o[0] for o in t["outs"]]
        if not kinds:
            f.add("no-outputs")
        if kinds.count("file") == 1 and t["outs"][0][2] == 0:
            f.add("file-output")
        if kinds.count("file") >= 2:
            f.add("multi-file")
        if any(o[2] for o in t["outs"]):
            f.add("big-output")
        if "dir" in kinds:
            f.add("dir-output")
        if kinds.count("dir") >= 2 * NCPU:
            f.add("dirs>=2xNCPU")
        elif kinds.count("dir") >= 2:
            f.add("many-dirs")
        if t["bin"]:
            f.add("bin-output")
        if t["uses_bin"]:
            f.add("bin-user")
        if t["checks"]:
            f.add(f"checks={min(len(t['checks']), 3)}")
            if any(c["expected"] for c in t["checks"]):
                f.add("expected_output")
        if t["cmdless"]:
            f.add("command-less")
        if t["test"]:
            f.add("test-target")
        for tag in t["tags"]:
            f.add("tag:" + tag)
        if t["timeout"]:
            f.add("timeout-attr")
            if cfg["fail_fast"] and not t["fail"]:
                f.add("fail-fast+bystander-timeout")
        if t.get("banner"):
            f.add("first-line:" + t["banner"][0])
        if t.get("noise"):
            f.add("noisy-failure")
        for k, c in enumerate(t["checks"]):
            if c.get("fail"):
                before = ["E" if x["expected"] else "N" for x in t["checks"][:k]]
                f.add("failing-check:" + "".join(before) + ("[E]" if c["expected"] else "[N]") + "".join("E" if x["expected"] else "N" for x in t["checks"][k + 1:]))
            if c.get("banner"):
                f.add("check-first-line")
        if t["alias"]:
            f.add("alias-dep")
            if 2 in t["alias"].values():
                f.add("alias-of-alias")
        if t["fail"]:
            f.add("fail:" + t["fail"])
            if t["alias"] is not None and any(t["id"] in u["alias"] for u in world["targets"]):
                f.add("alias-below-failure")
        elif t["tail"] != "none":
            f.add("tail:" + t["tail"])
    for st in world["history"]:
        if st["op"] != "build":
            f.add("step:" + st["op"])
    f.add(f"builds={sum(1 for s in world['history'] if s['op'] == 'build')}")
    if world["interrupt"]:
        f.add("interrupt:" + world["interrupt"]["signal"])
    if world.get("healed_at_start") and any(t["fail"] for t in world["targets"]):
        f.add("healed-at-start")
    if world.get("slow_reader"):
        f.add("slow-reader")
    if world.get("cmd", "build") != "build":
        f.add("cmd:" + world["cmd"])
        if any(t["fail"] and not t["test"] for t in world["targets"]):
            f.add("cmd:test+failing-non-test")
    for t in world["targets"]:
        if t["fail"] and t["fail"].startswith("missing") and ("no-cache" in t["tags"] or not cfg["enable_cache"]):
            f.add("missing-output+uncached")
    if world.get("designed"):
        f.add("designed:" + world["designed"])
    return f


# ------------------------------------------------------------------------------------------------------------------
# materialisation
# ------------------------------------------------------------------------------------------------------------------

def small_content(t, out):
    i = t["id"]
    if out[0] == "file":
        return f"{out[1]} of t{i}\n".encode()
    return (f"{out[1]}/a of t{i}\n" + f"{out[1]}/sub/b of t{i}\n").encode()


def expected_val(t, out):
    if out[0] == "file" and out[2]:
        return str(out[2])
    return hashlib.md5(small_content(t, out)).hexdigest()


def probe_expr(out):
    """shell expression printing what a command sees of an output (size for big files, md5 for small ones / directories)"""
    if out[0] == "file" and out[2]:
        return f"$(wc -c < {out[1]} 2>/dev/null || echo MISSING)"
    if out[0] == "file":
        return f"$( (cat {out[1]} 2>/dev/null || echo MISSING) | md5sum | cut -c1-32)"
    return f"$( (cat {out[1]}/a.txt {out[1]}/sub/b.txt 2>/dev/null || echo MISSING) | md5sum | cut -c1-32)"


class World:
    def __init__(self, ctx, wname, world):
        self.world = world
        self.grog = ctx.grog_binary()
        self.d = ctx.scratch(wname)
        self.ws, self.root = os.path.join(self.d, "ws"), os.path.join(self.d, "root")
        self.trace = os.path.join(self.d, "trace")
        self.pkg = os.path.join(self.ws, "pkg")
        os.makedirs(self.pkg)
        os.makedirs(self.root)
        cfg = world["cfg"]
        with open(os.path.join(self.ws, "grog.toml"), "w") as fh:
            fh.write(f"num_workers = {cfg['num_workers']}\nfail_fast = {str(cfg['fail_fast']).lower()}\nload_outputs = \"{cfg['load_outputs']}\"\n"
                     f"enable_cache = {str(cfg['enable_cache']).lower()}\ndisable_default_shell_flags = {str(cfg['disable_default_shell_flags']).lower()}\n"
                     f"hash_algorithm = \"{cfg['hash_algorithm']}\"\n")
        self.T = world["targets"]
        self.flags = set()
        targets, aliases = [], []
        for t in self.T:
            targets.append(self.target_json(t))
        seen = set()
        for t in self.T:
            for d, depth in t["alias"].items():
                dn = name(self.T[d])
                if ("a", d) not in seen:
                    aliases.append({"name": f"a{d}", "actual": f":{dn}"})
                    seen.add(("a", d))
                if depth == 2 and ("aa", d) not in seen:
                    aliases.append({"name": f"aa{d}", "actual": f":a{d}"})
                    seen.add(("aa", d))
        pkg = {"targets": targets}
        if aliases:
            pkg["aliases"] = aliases
        with open(os.path.join(self.pkg, "BUILD.json"), "w") as fh:
            json.dump(pkg, fh)

    def flag(self, i):
        return os.path.join(self.d, f"flag{i}")

    def target_json(self, t):
        i, tr, F = t["id"], self.trace, self.flag(t["id"])
        deps = []
        for d in t["deps"]:
            depth = t["alias"].get(d)
            deps.append(f":aa{d}" if depth == 2 else f":a{d}" if depth == 1 else f":{name(self.T[d])}")
        j = {"name": name(t), "dependencies": deps}
        outs = []
        for o in t["outs"]:
            outs.append(("dir::" if o[0] == "dir" else "") + o[1])
        if outs:
            j["outputs"] = outs
        if t["bin"]:
            j["bin_output"] = f"tool{i}.sh"
        if t["tags"]:
            j["tags"] = list(t["tags"])
        if t["timeout"]:
            j["timeout"] = t["timeout"]
        kind = t["fail"]
        # output checks
        checks = []
        for k, c in enumerate(t["checks"]):
            sl = f"sleep {c['sleep']}; " if c["sleep"] else ""
            body = (c["banner"][1] + "\n") if c.get("banner") else ""
            body += f'echo "cs {i}.{k} $(date +%s%N)" >> {tr}; {sl}echo "ce {i}.{k} $(date +%s%N)" >> {tr}; '
            cj = {}
            # a check marked "self" looks at a marker that the target's OWN command sets (healthy) or removes (failing): it can pass
            # before the command and fail after it
            FC = (F + ".m") if c.get("fail") == "self" else F
            if c["expected"]:
                if c.get("fail"):
                    body += f"if test -f {FC}; then echo ok; else echo bad; fi"
                else:
                    body += "echo ok"
                cj["expected_output"] = "ok"
            elif c.get("fail"):
                body += f"test -f {FC}"
            else:
                body += "true"
            cj["command"] = body
            checks.append(cj)
        if checks:
            j["output_checks"] = checks
        if t["cmdless"]:
            j["command"] = ""
            return j
        # the command
        parts = [f"trap 'echo \"x {i} $? $(date +%s%N)\" >> {tr}' EXIT", f'echo "s {i} $(date +%s%N)" >> {tr}']
        if t.get("lean"):
            # hundreds of these in one world: one fork per command; the exit record carries the start time
            parts = [f'N=$(date +%s%N); echo "s {i} $N" >> {tr}', f"trap 'echo \"x {i} $? '$N'\" >> {tr}' EXIT"]
        for d in t["deps"]:
            dt = self.T[d]
            for o in dt["outs"][:2]:
                parts.append(f'echo "d {i} {d} {o[1]} {probe_expr(o)}" >> {tr}')
        for d in t["uses_bin"]:
            parts.append(f'echo "b {i} {d} $($(bin :{name(self.T[d])}) 2>&1)" >> {tr}')
        if kind in ("missing-first", "missing-middle", "missing-last", "missing-dir"):
            parts.append("rm -rf " + " ".join(o[1] for o in t["outs"]))      # stale outputs of an earlier build must not hide the failure
        if kind == "exit":
            if t.get("noise"):
                parts.append(f"test -f {F} || head -c {t['noise'] * 1024} /dev/zero | tr '\\0' 'x' | fold -w 100")
            parts.append(f"test -f {F} || exit 3")
        if kind == "timeout":
            parts.append(f"test -f {F} || exec sleep 30")
        if t["sleep"]:
            parts.append(f"sleep {t['sleep']}")
        files = [o for o in t["outs"] if o[0] == "file"]
        dirs = [o for o in t["outs"] if o[0] == "dir"]
        skip = None
        if kind in ("missing-first", "missing-middle", "missing-last") and files:
            skip = files[0] if kind == "missing-first" else files[-1] if kind == "missing-last" else files[len(files) // 2]
        for o in files:
            mk = (f"truncate -s {o[2]} {o[1]}" if len(o) > 3 and o[3] == "sparse" else f"head -c {o[2]} /dev/zero > {o[1]}") if o[2] \
                else f"printf '%s\\n' '{o[1]} of t{i}' > {o[1]}"
            parts.append(f"if test -f {F}; then {mk}; fi" if o is skip else mk)
        if dirs:
            if len(dirs) <= 3:
                mk = "; ".join(f"mkdir -p {o[1]}/sub; printf '%s\\n' '{o[1]}/a of t{i}' > {o[1]}/a.txt; printf '%s\\n' '{o[1]}/sub/b of t{i}' > {o[1]}/sub/b.txt" for o in dirs)
            else:
                mk = (f"for k in $(seq 0 {len(dirs) - 1}); do mkdir -p d{i}_$k/sub; printf '%s\\n' \"d{i}_$k/a of t{i}\" > d{i}_$k/a.txt; "
                      f"printf '%s\\n' \"d{i}_$k/sub/b of t{i}\" > d{i}_$k/sub/b.txt; done")
            parts.append(f"if test -f {F}; then {mk}; fi" if kind == "missing-dir" else mk)
        if kind == "check-self":
            parts.append(f"if test -f {F}; then touch {F}.m; else rm -f {F}.m; fi")
        if t["bin"]:
            parts.append(f"printf '#!/bin/sh\\necho tool{i}\\n' > tool{i}.sh; chmod +x tool{i}.sh")
        parts.append(f'echo "e {i} $(date +%s%N)" >> {tr}')
        tail = {"tail-and": f"test -f {F} && true", "tail-not": f"! test ! -f {F}", "tail-or": f"test -f {F} || false",
                "tail-subshell": f"( test -f {F} )", "tail-plain": f"test -f {F}"}.get(kind)
        if tail is None:
            tail = {"none": None, "and": "true && true", "not": "! false", "or": "false || true", "subshell": "( true )", "exit0": "exit 0",
                    "bg": "( sleep 0.05; : ) & wait $!"}[t["tail"]]
        if tail:
            parts.append(tail)
        if t.get("banner"):
            parts.insert(0, t["banner"][1])
        j["command"] = "\n".join(parts)
        return j

    # ---- running -----------------------------------------------------------------------------------------------
    def env(self):
        env = dict(os.environ, GROG_ROOT=self.root, HOME=self.d, GROG_DISABLE_TEA="true")
        env.pop("CI", None)
        return env

    def read_trace(self):
        ev = []
        if os.path.exists(self.trace):
            for line in open(self.trace, errors="replace"):
                p = line.split()
                if p and p[0] in ("s", "e", "x", "d", "b", "cs", "ce"):
                    ev.append(p)
            os.remove(self.trace)
        return ev

    def build(self, interrupt=None):
        t0 = time.time()
        p = subprocess.Popen([self.grog, self.world.get("cmd", "build"), "//..."], cwd=self.ws, env=self.env(), stdout=subprocess.PIPE, stderr=subprocess.STDOUT, text=True,
                             errors="replace", start_new_session=True)
        sig_at, sig_ns = None, None
        if interrupt:
            if interrupt.get("when") == "cas-file":
                # the moment an output is being copied into the cache: the first file (temporary or not) under cache/cas
                t_end = time.time() + 30
                while time.time() < t_end and p.poll() is None and not self.cas_blobs(include_tmp=True):
                    time.sleep(0.004)
                time.sleep(interrupt.get("delay", 0))
            else:
                time.sleep(interrupt["delay"])
            if p.poll() is None:
                sig_at, sig_ns = time.time(), time.time_ns()
                try:
                    os.kill(p.pid, getattr(signal, interrupt["signal"]))
                except ProcessLookupError:
                    sig_at = None
                if sig_at and interrupt.get("freeze"):
                    # a busy machine: the signal has been handled, then the process does not get the CPU for a while
                    try:
                        time.sleep(0.05)
                        os.kill(p.pid, signal.SIGSTOP)
                        t_f = time.time()
                        # while nothing moves: whatever is visible in the CAS under a digest now is what an exit at this instant leaves
                        self._frozen_audit = self.cas_audit() if self.world["cfg"]["hash_algorithm"] == "sha256" else []
                        time.sleep(max(0, interrupt["freeze"] - (time.time() - t_f)))
                        os.kill(p.pid, signal.SIGCONT)
                    except OSError:
                        pass
        if self.world.get("slow_reader") and not interrupt:
            time.sleep(self.world["slow_reader"])
        try:
            out, _ = p.communicate(timeout=WALL)
            rc = p.returncode
        except subprocess.TimeoutExpired:
            # ask the Go runtime for a goroutine dump (SIGQUIT) before killing: a hang that does not repeat is otherwise lost
            try:
                os.kill(p.pid, signal.SIGQUIT)
                out, _ = p.communicate(timeout=5)
            except (subprocess.TimeoutExpired, OSError):
                for pid in session_pids(p.pid) + [p.pid]:
                    try:
                        os.kill(pid, signal.SIGKILL)
                    except OSError:
                        pass
                try:
                    out, _ = p.communicate(timeout=10)
                except subprocess.TimeoutExpired:
                    out = ""
            rc = 124
        t_exit = time.time()
        wall = t_exit - t0
        shells_left = []
        if interrupt:
            time.sleep(0.5)
            shells_left = [(pid, comm) for pid, comm in session_comms(p.pid) if comm in ("sh", "dash", "bash", "ash", "ksh", "zsh")]
        # whatever the build left behind in its session (orphans of killed shells) must not disturb later builds' traces
        for pid in session_pids(p.pid):
            try:
                os.kill(pid, signal.SIGKILL)
            except OSError:
                pass
        return {"rc": rc, "out": out, "wall": wall, "trace": self.read_trace(), "sig_latency": (t_exit - sig_at) if sig_at else None,
                "signalled": sig_at is not None, "sig_ns": sig_ns, "shells_left": shells_left, "frozen_audit": self.__dict__.pop("_frozen_audit", [])}

    def taint(self, ids):
        labels = [f"//pkg:{name(self.T[i])}" for i in ids]
        return subprocess.run([self.grog, "taint", *labels], cwd=self.ws, env=self.env(), capture_output=True, text=True, timeout=60)

    def cas_blobs(self, include_tmp=False):
        out = []
        for r, _, files in os.walk(self.root):
            if os.path.basename(r) == "cas":
                out += [os.path.join(r, f) for f in files if include_tmp or not f.startswith("tmp-")]
        return out

    def cas_audit(self):
        """sha256 worlds: every blob filed under a digest has that digest. -> list of (name, size) of blobs that do not"""
        bad = []
        seen = self.__dict__.setdefault("_audited", {})
        for f in self.cas_blobs():
            nm = os.path.basename(f)
            if len(nm) != 64:
                continue
            try:
                st = os.stat(f)
                if seen.get(f) == (st.st_size, st.st_mtime_ns):
                    continue
                h = hashlib.sha256()
                with open(f, "rb") as fh:
                    for chunk in iter(lambda: fh.read(1 << 22), b""):
                        h.update(chunk)
                if h.hexdigest() != nm:
                    bad.append((nm[:16], st.st_size))
                else:
                    seen[f] = (st.st_size, st.st_mtime_ns)
            except OSError:
                pass
        return bad

    def target_cache_entries(self):
        n = 0
        for r, dirs, files in os.walk(self.root):
            if os.path.basename(r) == "target" and os.path.basename(os.path.dirname(r)) == "cache":
                n += len(files) + sum(len(f) for dd in dirs for _, _, f in os.walk(os.path.join(r, dd)))
                dirs[:] = []
        return n

    def rm_outputs(self, ids):
        for i in ids:
            for o in self.T[i]["outs"]:
                p = os.path.join(self.pkg, o[1])
                shutil.rmtree(p, ignore_errors=True) if o[0] == "dir" else (os.path.exists(p) and os.remove(p))
            if self.T[i]["bin"]:
                p = os.path.join(self.pkg, f"tool{i}.sh")
                os.path.exists(p) and os.remove(p)

    def outputs_state(self, i):
        """-> list of (path, problem) for declared outputs of target i that are missing or have the wrong content"""
        bad = []
        t = self.T[i]
        for o in t["outs"]:
            p = os.path.join(self.pkg, o[1])
            if o[0] == "file":
                if not os.path.isfile(p):
                    bad.append((o[1], "missing"))
                elif o[2]:
                    if os.path.getsize(p) != o[2]:
                        bad.append((o[1], f"size {os.path.getsize(p)} != {o[2]}"))
                elif open(p, "rb").read() != small_content(t, o):
                    bad.append((o[1], "wrong content"))
            else:
                try:
                    got = open(os.path.join(p, "a.txt"), "rb").read() + open(os.path.join(p, "sub", "b.txt"), "rb").read()
                    if got != small_content(t, o):
                        bad.append((o[1], "wrong content"))
                except OSError:
                    bad.append((o[1], "missing or incomplete"))
        if t["bin"] and not os.access(os.path.join(self.pkg, f"tool{i}.sh"), os.X_OK):
            bad.append((f"tool{i}.sh", "missing or not executable"))
        return bad

    def cleanup(self):
        shutil.rmtree(self.d, ignore_errors=True)


def session_comms(sid):
    out = []
    for p in os.listdir("/proc"):
        if p.isdigit():
            try:
                st = open(f"/proc/{p}/stat").read()
                rp = st.rindex(")")
                f = st[rp + 2:].split()
                if int(f[3]) == sid and f[0] != "Z":
                    out.append((int(p), st[st.index("(") + 1:rp]))
            except (OSError, ValueError, IndexError):
                pass
    return out


def session_pids(sid):
    out = []
    for p in os.listdir("/proc"):
        if p.isdigit():
            try:
                st = open(f"/proc/{p}/stat").read()
                f = st[st.rindex(")") + 2:].split()
                if int(f[3]) == sid and f[0] != "Z":
                    out.append(int(p))
            except (OSError, ValueError, IndexError):
                pass
    return out


# ------------------------------------------------------------------------------------------------------------------
# one history with all oracles
# ------------------------------------------------------------------------------------------------------------------

def ancestors(T):
    anc = [set() for _ in T]
    for t in T:
        for d in t["deps"]:
            anc[t["id"]] |= {d} | anc[d]
    return anc


def designed_fail(w, t):
    return t["fail"] is not None and t["id"] not in w.flags


def run_world(ctx, wname, world):
    """-> dict with 'bad': list of (property, signature, message), 'features', per-build summaries"""
    w = World(ctx, wname, world)
    T, cfg = w.T, world["cfg"]
    n = len(T)
    anc = ancestors(T)
    ids = {name(t): t["id"] for t in T}
    res = {"world": world, "features": sorted(features(world)), "builds": [], "bad": []}
    bad = res["bad"]
    succeeded_ever, need_run, disturbed = set(), set(range(n)), False
    rng = random.Random(1)
    bi = 0
    if world.get("healed_at_start"):
        for t in T:
            if t["fail"]:
                open(w.flag(t["id"]), "w").close()
                w.flags.add(t["id"])
    try:
        for step in world["history"]:
            op = step["op"]
            if op != "build":
                rng = random.Random(step.get("seed", 1))
                if op == "heal":
                    for t in T:
                        if t["fail"] and rng.random() < 0.8:
                            open(w.flag(t["id"]), "w").close()
                            w.flags.add(t["id"])
                elif op == "break":
                    for i in list(w.flags):
                        if rng.random() < 0.7:
                            os.remove(w.flag(i))
                            w.flags.discard(i)
                elif op == "taint":
                    cand = [t["id"] for t in T if not t["cmdless"] or True]
                    pick = rng.sample(cand, min(len(cand), rng.randint(1, 3)))
                    failing = [t["id"] for t in T if designed_fail(w, t) and t["id"] in succeeded_ever]
                    pick = sorted(set(pick + failing[:1]))
                    r = w.taint(pick)
                    if r.returncode == 0:
                        need_run |= set(pick)
                    res.setdefault("tainted", []).append(pick)
                elif op == "lose-blobs":
                    blobs = w.cas_blobs()
                    lose = blobs if rng.random() < 0.3 else rng.sample(blobs, min(len(blobs), rng.randint(1, 4)))
                    for b in lose:
                        os.remove(b)
                    w.rm_outputs(range(n))
                    disturbed = True
                elif op == "rm-outputs":
                    w.rm_outputs([i for i in range(n) if rng.random() < 0.6])
                    disturbed = True
                elif op == "rm-all-outputs":
                    w.rm_outputs(range(n))
                    disturbed = True
                elif op == "break+taint-failing":
                    fl = [t["id"] for t in T if t["fail"]]
                    for i in fl:
                        if i in w.flags:
                            os.remove(w.flag(i))
                            w.flags.discard(i)
                    pick = [i for i in fl if i in succeeded_ever] or fl
                    r = w.taint(pick)
                    if r.returncode == 0:
                        need_run |= set(pick)
                    res.setdefault("tainted", []).append(pick)
                elif op == "rm-outputs+taint-dependants":
                    # a cached dependency whose outputs are gone, and several dependants that have to execute at once
                    cands = [t["id"] for t in T if t["outs"] and sum(1 for u in T if t["id"] in u["deps"]) >= 1 and t["id"] in succeeded_ever]
                    if step.get("dep") in cands:
                        cands = [step["dep"]]
                    if cands:
                        d = max(cands, key=lambda i: (sum(1 for u in T if i in u["deps"]), max(o[2] for o in T[i]["outs"])))
                        users = [u["id"] for u in T if d in u["deps"]]
                        w.rm_outputs([d])
                        r = w.taint(users)
                        if r.returncode == 0:
                            need_run |= set(users)
                        res.setdefault("tainted", []).append(users)
                continue
            # ---- a build ------------------------------------------------------------------------------------------
            intr = world["interrupt"] if world["interrupt"] and world["interrupt"]["build"] == bi else None
            b = w.build(interrupt=intr)
            bi += 1
            summ = check_build(w, world, b, anc, ids, succeeded_ever, need_run, disturbed, bool(intr and b["signalled"]), bad)
            summ["index"] = bi
            res["builds"].append(summ)
            world["_after_interrupt"] = bool(intr and b["signalled"])
            world["_had_interrupt"] = bool(world.get("_had_interrupt") or (intr and b["signalled"]))
            if b["rc"] == 124:
                break
            disturbed = False
    finally:
        if bad:
            res["dir_kept"] = False
        w.cleanup()
    return res


def check_build(w, world, b, anc, ids, succeeded_ever, need_run, disturbed, interrupted, bad):
    T, cfg = w.T, world["cfg"]
    n = len(T)
    tr, rc, out = b["trace"], b["rc"], b["out"]
    W = cfg["num_workers"]
    reported = sorted({ids[m] for m in re.findall(r"Target //pkg:(\S+) failed", out) if m in ids})
    starts, ends, exits, check_iv = {}, {}, {}, []
    summ = {"rc": rc, "wall": round(b["wall"], 2), "reported_failed": reported, "interrupted": interrupted}

    def V(prop, sig, msg):
        bad.append((prop, sig, msg))

    if world.get("_after_interrupt") and (rc == 124 or "Another grog build" in out):
        V("C18", "next-build-cannot-acquire-lock", "the build after the interrupted one " + ("did not finish" if rc == 124 else "had to wait for the workspace lock"))
    # ---- C04: termination, crash --------------------------------------------------------------------------------------
    if rc == 124:
        V("C04", "build-hang", f"grog build did not return within {WALL} s" + (" after " + world["interrupt"]["signal"] if interrupted else ""))
        summ["out_tail"] = out[-20000:]
        return summ
    crash = next((l for l in out.splitlines() if l.startswith(("fatal error:", "panic:"))), None)
    if crash or rc not in (0, 1) and not (interrupted and rc < 0):
        V("C04", "build-crashed", f"grog died: {crash or 'exit status ' + str(rc)}")
        summ["out_tail"] = out[-800:]
        return summ
    if interrupted and b["sig_latency"] is not None and b["sig_latency"] > 8:
        V("C04", "interrupt-slow-exit", f"grog exited {b['sig_latency']:.1f} s after {world['interrupt']['signal']}")
    # ---- parse the trace ---------------------------------------------------------------------------------------------
    open_checks = {}
    deprec, binrec = [], []
    for p in tr:
        try:
            if p[0] == "s":
                starts.setdefault(int(p[1]), []).append(int(p[2]))
            elif p[0] == "e":
                ends[int(p[1])] = int(p[2])
            elif p[0] == "x":
                exits[int(p[1])] = (int(p[2]), int(p[3]))
            elif p[0] == "cs":
                open_checks[p[1]] = int(p[2])
            elif p[0] == "ce":
                if p[1] in open_checks:
                    check_iv.append((open_checks.pop(p[1]), int(p[2]), p[1]))
            elif p[0] == "d":
                deprec.append((int(p[1]), int(p[2]), p[3], p[4] if len(p) > 4 else "EMPTY"))
            elif p[0] == "b":
                binrec.append((int(p[1]), int(p[2]), p[3] if len(p) > 3 else ""))
        except (ValueError, IndexError):
            pass
    started = set(starts)
    summ["started"] = sorted(started)
    failed_now = set(reported)
    ok_now = {i for i in started if i not in failed_now and i in ends and exits.get(i, (0,))[0] == 0}
    check_started = {}
    for s0, e0, cid in check_iv:
        i = int(cid.split(".")[0])
        check_started[i] = min(check_started.get(i, s0), s0)
    for cid, s0 in open_checks.items():
        i = int(cid.split(".")[0])
        check_started[i] = min(check_started.get(i, s0), s0)
    # ---- C03: order ----------------------------------------------------------------------------------------------------
    done_at = {}
    for i in started:
        if i in exits and exits[i][0] == 0:
            done_at[i] = exits[i][1]
        elif i in ends and i not in exits:
            done_at[i] = ends[i]
    for i in set(started) | set(check_started):
        if disturbed and cfg["load_outputs"] == "minimal":
            break           # a dependency may legitimately be re-run inside a dependant's task after a cache fault
        t0 = min(([starts[i][0]] if i in starts else []) + ([check_started[i]] if i in check_started else []))
        for d in T[i]["deps"]:
            if T[d]["cmdless"] or len(starts.get(d, [])) > 1:
                continue
            if d in started and (d not in done_at or done_at[d] > t0):
                V("C03", "started-before-dependency-finished",
                  f"a command of {name(T[i])} started although the command of its dependency {name(T[d])} "
                  f"{'had not finished' if d in done_at or d in ends else 'never finished / failed'} in this build")
    for i, d, path, val in deprec:
        o = next((o for o in T[d]["outs"] if o[1] == path), None)
        if o is not None and val != expected_val(T[d], o):
            V("C03", "dependency-output-incomplete-at-command-start",
              f"the command of {name(T[i])} started while output {path} of its dependency {name(T[d])} was "
              f"{'missing' if val in ('MISSING', 'EMPTY') or val == hashlib.md5(b'MISSING' + bytes([10])).hexdigest() else 'incomplete (saw ' + val + ', expected ' + expected_val(T[d], o) + ')'} "
              f"(load_outputs={cfg['load_outputs']}, dependency {'executed' if d in started else 'not executed (cache hit / restore)'} in this build)")
    for i, d, text in binrec:
        if text != f"tool{d}":
            V("C03", "dependency-bin-tool-unusable-at-command-start", f"$(bin :{name(T[d])}) in the command of {name(T[i])} printed '{text[:60]}'")
    # ---- C03: at most once ---------------------------------------------------------------------------------------------
    if not disturbed:
        for i, ss in starts.items():
            if len(ss) > 1:
                V("C03", "executed-more-than-once", f"{name(T[i])} ran {len(ss)} times in one build (load_outputs={cfg['load_outputs']})")
    # ---- C03: concurrency (target commands + output-check commands) ----------------------------------------------------
    iv = []
    for i, ss in starts.items():
        for s0 in ss[:1]:
            end = exits[i][1] if i in exits else ends.get(i)
            iv.append((s0, end if end and end > s0 else s0, f"cmd:{name(T[i])}"))
    iv += [(s0, e0, "check:" + cid) for s0, e0, cid in check_iv]
    peak, what = 0, []
    for s0, _, _ in iv:
        cur = [lab for a, z, lab in iv if a <= s0 < z or a == s0]
        if len(cur) > peak:
            peak, what = len(cur), cur
    summ["peak"] = peak
    if peak > W:
        V("C03", "more-commands-than-workers", f"{peak} commands ran at the same time with num_workers={W}: {sorted(what)[:8]}")
    if cfg["hash_algorithm"] == "sha256" and cfg["enable_cache"]:
        wrong = w.cas_audit()
        if wrong:
            V("C18" if (interrupted or world.get("_had_interrupt")) else "C07", "cas-blob-does-not-match-its-digest",
              f"blobs in the CAS whose content does not have the digest they are filed under (name, size): {wrong[:4]}"
              + (" - after an interrupted build" if (interrupted or world.get("_had_interrupt")) else ""))
    if b.get("frozen_audit"):
        V("C18", "partial-cas-blob-visible-at-interrupt", f"{world['interrupt']['signal']} while an output was being copied into the cache, process frozen right after: the CAS "
          f"shows entries under a digest their content does not (yet) have (name, size): {b['frozen_audit'][:3]}; an exit at this instant leaves them, and the next "
          "build takes them for the complete blob")
    if interrupted:
        signame = world["interrupt"]["signal"]
        finished = "completed successfully" in out
        # shells that were running when the signal arrived and never reached their end: the build cannot have completed
        cut = sorted(name(T[i]) for i in started if b.get("sig_ns") and starts[i][0] < b["sig_ns"] and (i not in ends or (i in exits and exits[i][0] != 0)))
        if rc == 0 and (not finished or cut):
            V("C18", "interrupt-exit-zero", f"the build was interrupted by {signame} before it finished"
              + (f" (the commands of {cut} were running and did not reach their end)" if cut else "") + " but exited 0"
              + (" and reports success" if finished else ""))
        if b["sig_latency"] is not None and b["sig_latency"] > 5:
            V("C18", "interrupt-slow-exit", f"grog exited {b['sig_latency']:.1f} s after {signame} (bound 5 s)")
        if b.get("sig_ns"):
            late = sorted(name(T[i]) for i, ss in starts.items() if any(x > b["sig_ns"] + 0.5e9 for x in ss))
            late += sorted("check " + cid for s0, _, cid in check_iv if s0 > b["sig_ns"] + 0.5e9)
            if late:
                V("C18", "command-started-after-signal", f"commands started more than 0.5 s after {signame}: {late[:6]}")
            survivors = sorted(name(T[i]) for i in started if starts[i][0] < b["sig_ns"] and i in exits and exits[i][1] > b["sig_ns"] + 1.5e9)
            if survivors:
                V("C18", "shell-survived-signal", f"target shells of {survivors} were running at {signame} and still reached their end more than 1.5 s later")
        if b.get("shells_left"):
            V("C18", "target-shell-survived-grog", f"{signame}: target shell(s) {b['shells_left']} still run 0.5 s after grog exited")
        entries = w.target_cache_entries()
        # command-less targets complete (and are recorded) when their checks have run: they never appear in `started`
        cmdless_done = {i for i in check_started if T[i]["cmdless"]}
        if cfg["enable_cache"] and entries > len(succeeded_ever | ok_now | cmdless_done):
            V("C18", "interrupted-target-cached", f"{entries} target results cached after the interrupt but only {len(succeeded_ever | ok_now | cmdless_done)} targets ever completed")
        succeeded_ever |= cmdless_done
        # nothing more is required of an interrupted build. What completed before the signal may or may not have been
        # recorded: it counts as built for the upper bound on cache entries and is no longer *required* to run
        succeeded_ever |= ok_now
        need_run -= ok_now
        return summ
    # ---- C05: report / exit status ------------------------------------------------------------------------------------
    for i in started:
        t = T[i]
        nonzero = i in exits and exits[i][0] != 0
        if cfg["fail_fast"] and failed_now:
            continue        # cancelled by fail-fast while running: a cancellation, not a failure (also if its script had just failed)
        if (designed_fail(w, t) or nonzero) and i not in failed_now:
            why = f"its script exited with status {exits[i][0]}" if nonzero else f"it fails by construction (kind {t['fail']})"
            V("C05", "failed-target-reported-successful", f"{name(t)} ran and {why}, but grog does not report it as failed (exit status {rc})")
    for i in check_started:
        t = T[i]
        if cfg["fail_fast"] and failed_now:
            continue        # as for commands: a check cut short by the fail-fast cancellation of another failure is not a failure of its own
        if t["cmdless"] and designed_fail(w, t) and i not in failed_now:
            V("C05", "failed-target-reported-successful", f"the output check of the command-less target {name(t)} fails but it is not reported as failed")
    if failed_now and rc == 0:
        V("C05", "failure-exit-zero", f"targets {[name(T[i]) for i in sorted(failed_now)]} are reported failed but grog exited 0")
    if rc != 0 and not failed_now:
        V("C05", "exit-nonzero-without-failed-target", f"grog exited {rc} without naming a failed target: {out[-300:]}")
    for i in failed_now:
        t = T[i]
        if t.get("timeout") == "400ms" and f"{name(t)} failed: timeout" in out and i in starts and (i not in exits or exits[i][1] - starts[i][-1] > 0.3e9):
            # a target with the tight designed timeout whose healthy command really did not reach its end within the timeout (machine under
            # load): grog is right to fail it — the command exceeded its timeout
            summ.setdefault("tight_timeouts_under_load", []).append(name(t))
            continue
        if not designed_fail(w, t) and not (i in exits and exits[i][0] != 0) and not disturbed:
            V("C05", "healthy-target-reported-failed", f"{name(t)} is reported failed although nothing makes it fail: {out[-400:]}")
    # ---- C05: containment ----------------------------------------------------------------------------------------------
    for i in set(started) | set(check_started):
        below = anc[i] & failed_now
        if below:
            V("C05", "executed-below-failure", f"{name(T[i])} ran although its transitive dependency {name(T[min(below)])} failed in this build")
    # ---- C05: fail-fast --------------------------------------------------------------------------------------------------
    if cfg["fail_fast"] and failed_now:
        t_fail = min([exits[i][1] for i in failed_now if i in exits] or [0])
        if t_fail:
            # statistic (no slack): commands that started after the failing script had exited. One such start is allowed by the
            # property (the window between the process exiting and the walker observing the failure); whether they are systematic
            # is decided over many builds, see run_worlds
            after = sorted(name(T[i]) for i, ss in starts.items() if ss[0] > t_fail and i not in failed_now)
            queued = len([i for i in range(n) if not T[i]["test"] and not T[i]["cmdless"] and i not in starts and not (anc[i] & failed_now) and i not in failed_now])
            summ["post_failure_starts"] = after
            summ["post_failure_starts_with_timeout"] = [m for m in after if T[ids[m]]["timeout"]]
            summ["not_started"] = queued
            late = sorted((name(T[i]), round((ss[0] - t_fail) / 1e9, 2)) for i, ss in starts.items() if ss[0] > t_fail + 1.0e9)
            if late:
                V("C05", "command-started-after-fail-fast", f"--fail-fast: commands started more than 1 s after the first failure: {late[:5]}")
    # ---- C04 / C05: every selected target resolved; failures and never-built targets are attempted -------------------
    if world.get("cmd") == "test":
        # `grog test` selects the test targets and what they depend on
        tests = [i for i in range(n) if T[i]["test"]]
        sel = sorted(set(tests) | {a for i in tests for a in anc[i]})
        for i in (set(started) | set(check_started)) - set(sel):
            V("C03", "unselected-target-started", f"{name(T[i])} is neither a test nor a dependency of one, `grog test` does not select it, but it ran")
    else:
        sel = [i for i in range(n) if not T[i]["test"]]          # `grog build` does not select test targets
        for i in (set(started) | set(check_started)) - set(sel):
            V("C03", "unselected-target-started", f"{name(T[i])} is a test target, `grog build` does not select it, but it ran")
    if not cfg["fail_fast"]:
        for i in sel:
            t = T[i]
            if t["cmdless"]:
                ran = i in check_started
            else:
                ran = i in started
            must = i in need_run or not cfg["enable_cache"] or "no-cache" in t["tags"]
            if must and not (anc[i] & failed_now) and not ran:
                why = "was never built successfully" if i not in succeeded_ever else "failed, was skipped or was tainted before" if i in need_run else "is not cacheable"
                V("C05" if i in succeeded_ever or True else "C04", "target-not-attempted",
                  f"{name(t)} {why} and none of its transitive dependencies failed, but it was not run by this keep-going build (exit {rc})")
    m = re.search(r"(\d+) targets? completed", out)
    if rc == 0 and m and int(m.group(1)) != len(sel) and world.get("cmd", "build") == "build":
        V("C04", "selected-target-unresolved", f"the build exited 0 but reports {m.group(1)} of {len(sel)} selected targets completed")
    # ---- bookkeeping ----------------------------------------------------------------------------------------------------
    cmdless_ok = {i for i in check_started if T[i]["cmdless"] and i not in failed_now}
    succeeded_ever |= ok_now | cmdless_ok
    need_run -= (ok_now | cmdless_ok)
    # What must run in a later keep-going build is tracked by cause: never built successfully (initially everything), tainted and not yet
    # executed successfully (added by the taint step), not cacheable (judged at the check). A failure adds nothing to that: a target that
    # failed stays in need_run if it was there (it is only removed on success); one that ran only because an output check failed, and whose
    # check passes again later, is a legitimate cache hit; targets that were merely SKIPPED below a failure are cache hits too if they were
    # built before and their dependencies reproduce the same outputs.
    if cfg["fail_fast"] and failed_now:
        need_run |= set(range(n)) - succeeded_ever
    # ---- C05: never cached -------------------------------------------------------------------------------------------------
    entries = w.target_cache_entries()
    summ["cache_entries"] = entries
    if cfg["enable_cache"] and entries > len(succeeded_ever):
        V("C05", "more-cache-entries-than-successes", f"{entries} target results in the cache but only {len(succeeded_ever)} targets ever completed successfully "
          f"(failed now: {[name(T[i]) for i in sorted(failed_now)]})")
    # ---- C05: declared outputs of successful targets exist --------------------------------------------------------------------
    for i in ok_now:
        st = w.outputs_state(i)
        if st:
            V("C05", "successful-target-without-declared-output", f"{name(T[i])} ran and is reported successful but its declared outputs are not there: {st[:3]}")
    if rc == 0 and cfg["load_outputs"] == "all" and cfg["enable_cache"]:
        for i in sel:
            st = w.outputs_state(i)
            if st and i not in ok_now:
                V("C05", "declared-output-absent-after-successful-build", f"build exited 0 (load_outputs=all) but outputs of {name(T[i])} are not in the workspace: {st[:3]}")
                if world.get("_had_interrupt"):
                    V("C18", "wrong-output-restored-after-interrupt", f"a build after the interrupted one exited 0 but the outputs of {name(T[i])} it restored from the "
                      f"cache are not what the command produces: {st[:3]}")
    return summ


# ------------------------------------------------------------------------------------------------------------------
# driver used by the property checks
# ------------------------------------------------------------------------------------------------------------------

def _blank_target(i, **kw):
    t = {"id": i, "deps": [], "alias": {}, "outs": [("file", f"t{i}.out", 0)], "checks": [], "tags": [], "sleep": 0, "tail": "none", "fail": None,
         "timeout": None, "cmdless": False, "test": False, "bin": False, "uses_bin": [], "banner": None, "noise": 0}
    t.update(kw)
    return t


def designed_worlds(rng, focus):
    """Worlds built by rule instead of by chance, in the same schema and under the same oracles as the random ones: cross products
    and threshold sizes that a sample of 30 random worlds reaches only now and then.
      check-orders        every order of (exit-status-only | expected_output) x (passing | failing) over 2 checks and the 3-check orders
                          with the failing check last; each such target has a dependant; two builds
      ff-bystanders       fail-fast, 1-3 workers, one failing target, nine independent quick bystanders (more ready targets than workers),
                          most of them with a `timeout:`. Only the jobs already in the pool's channel (<= num_workers) can start after
                          the failure, and they do so at once: see the statistic `post_failure_starts` and its oracle
      check-flips         output checks that pass before the command and fail after it (the command itself flips what the check looks at):
                          healthy build, switch the failure on + taint, build, heal, build
      first-lines         one target (and one output check) per (character width class x length around 64..73 / 128 / 256 / 4096)
      many-failures-N     keep-going, N independent failing leaves for N around multiples of 256, one healthy target
      interrupt-queued    SIGINT / SIGTERM while more targets are ready than there are workers, then another build"""
    out = []
    cfg0 = {"num_workers": 4, "fail_fast": False, "load_outputs": "all", "enable_cache": True, "disable_default_shell_flags": False, "hash_algorithm": "xxh3"}
    base = {"interrupt": None, "healed_at_start": False, "slow_reader": 0}
    if focus in ("C05", None):
        T = []
        combos = [(a, b, f) for a in (False, True) for b in (False, True) for f in (None, 0, 1)]
        combos3 = [(a, b, c) for a in (False, True) for b in (False, True) for c in (False, True)]
        for a, b, f in combos:
            i = len(T)
            checks = [{"sleep": 0, "expected": a, "fail": f == 0, "banner": None}, {"sleep": 0, "expected": b, "fail": f == 1, "banner": None}]
            T.append(_blank_target(i, checks=checks, fail=None if f is None else ("check-expected" if (a, b)[f] else "check")))
            T.append(_blank_target(i + 1, deps=[i]))
        for a, b, c in combos3:
            i = len(T)
            checks = [{"sleep": 0, "expected": a, "fail": False, "banner": None}, {"sleep": 0, "expected": b, "fail": False, "banner": None},
                      {"sleep": 0, "expected": c, "fail": True, "banner": None}]
            T.append(_blank_target(i, checks=checks, fail="check-expected" if c else "check"))
            T.append(_blank_target(i + 1, deps=[i]))
        out.append(dict(base, designed="check-orders", cfg=dict(cfg0, num_workers=8), targets=T,
                        history=[{"op": "build"}, {"op": "nothing"}, {"op": "build"}]))
        # a check that passes BEFORE the command and fails AFTER it: healthy build (marker set), then the designed failure is switched on
        # and the targets are tainted (they execute although their checks pass on the state of the previous build; the command removes
        # the marker), then heal. Exit-status and expected_output flavour, plain and no-cache, each with a dependant.
        T = []
        for exp, tags in ((False, []), (True, []), (False, ["no-cache"]), (True, ["no-cache"])):
            i = len(T)
            T.append(_blank_target(i, fail="check-self", tags=list(tags), checks=[{"sleep": 0, "expected": exp, "fail": "self", "banner": None}]))
            T.append(_blank_target(i + 1, deps=[i]))
        T.append(_blank_target(len(T)))
        out.append(dict(base, designed="check-flips", healed_at_start=True, cfg=dict(cfg0, num_workers=4), targets=T,
                        history=[{"op": "build"}, {"op": "break+taint-failing"}, {"op": "build"}, {"op": "heal", "seed": 7}, {"op": "build"}]))
        for workers in (1, 2, 3, 1, 2, 3):
            T = [_blank_target(0, fail="exit", noise=rng.choice([0, 1, 300]), sleep=0.2)]
            for i in range(1, 10):
                T.append(_blank_target(i, sleep=0.1, timeout=rng.choice(["20s", "120s", "1h"]) if rng.random() < 0.8 else None))
            out.append(dict(base, designed="ff-bystanders", cfg=dict(cfg0, num_workers=workers, fail_fast=True), targets=T, history=[{"op": "build"}]))
        # `grog test`: the failing target is a NON-test dependency of a selected test (every failure kind), next to a healthy
        # library with its test and a failing test
        T = []
        for kind in ("exit", "tail-and", "timeout", "missing-last", "check", "check-expected"):
            i = len(T)
            lib = _blank_target(i, fail=kind, timeout="400ms" if kind == "timeout" else None)
            if kind.startswith("check"):
                lib["checks"] = [{"sleep": 0, "expected": kind == "check-expected", "fail": True, "banner": None}]
            T.append(lib)
            T.append(_blank_target(i + 1, deps=[i], test=True))
        i = len(T)
        T += [_blank_target(i), _blank_target(i + 1, deps=[i], test=True), _blank_target(i + 2, fail="exit", test=True), _blank_target(i + 3)]
        out.append(dict(base, designed="test-failing-dependency", cmd="test", cfg=dict(cfg0, num_workers=4), targets=T,
                        history=[{"op": "build"}, {"op": "nothing"}, {"op": "build"}]))
        # a declared output that is not created x the output path that bypasses the cache (`no-cache` tag / cache disabled)
        for uncached in ("tag", "cache-disabled"):
            T = []
            for kind, outs in (("missing-last", lambda i: [("file", f"t{i}.out", 0)]), ("missing-first", lambda i: [("file", f"t{i}.o0", 0), ("file", f"t{i}.o1", 0)]),
                               ("missing-middle", lambda i: [("file", f"t{i}.o{k}", 0) for k in range(3)]), ("missing-dir", lambda i: [("dir", f"d{i}_0", 0), ("file", f"t{i}.out", 0)])):
                i = len(T)
                T.append(_blank_target(i, fail=kind, outs=outs(i), tags=["no-cache"] if uncached == "tag" else []))
                T.append(_blank_target(i + 1, deps=[i]))
                T.append(_blank_target(i + 2, deps=[i + 1]))
            T.append(_blank_target(len(T)))
            out.append(dict(base, designed="missing-output-uncached", cfg=dict(cfg0, num_workers=4, enable_cache=uncached == "tag"), targets=T,
                            history=[{"op": "build"}, {"op": "nothing"}, {"op": "build"}]))
        for nf in ([256, 512] if rng.random() < 0.5 else [512, 256]):
            T = [_blank_target(0)]
            for i in range(1, nf + 1):
                T.append(_blank_target(i, fail="exit", outs=[], lean=True))
            out.append(dict(base, designed=f"many-failures-{nf}", cfg=dict(cfg0, num_workers=8), targets=T, history=[{"op": "build"}]))
        nf = rng.choice([255, 257, 511, 513])
        T = [_blank_target(0)] + [_blank_target(i, fail="exit", outs=[], lean=True) for i in range(1, nf + 1)]
        out.append(dict(base, designed=f"many-failures-{nf}", cfg=dict(cfg0, num_workers=8), targets=T, history=[{"op": "build"}]))
    if focus in ("C04", None):
        T = []
        for cs in CHARSETS:
            for nchar in (23, 24, 35, 36, 64, 66, 67, 68, 70, 71, 73, 128, 256, 4096):
                text = "".join(rng.choice(CHARSETS[cs]) for _ in range(nchar))
                i = len(T)
                chk = [{"sleep": 0, "expected": rng.random() < 0.5, "fail": False, "banner": (f"comment:{cs}", "# " + text)}] if nchar in (24, 67, 128) else []
                T.append(_blank_target(i, banner=(f"comment:{cs}", "# " + text), checks=chk, lean=True))
        for shape in ("", "\n\n", " \t  # x", ": 'ü'"):
            T.append(_blank_target(len(T), banner=("shape", shape), lean=True))
        out.append(dict(base, designed="first-lines", cfg=dict(cfg0, num_workers=8), targets=T, history=[{"op": "build"}, {"op": "nothing"}, {"op": "build"}]))
        # an interrupt that arrives while more targets are ready than there are workers (jobs sit in the pool's channel, callbacks
        # are blocked in Run), followed by another build
        for workers, sig in ((1, "SIGINT"), (2, "SIGTERM"), (3, rng.choice(["SIGINT", "SIGTERM"]))):
            T = [_blank_target(i, sleep=0.4, timeout="20s" if rng.random() < 0.3 else None) for i in range(10)]
            out.append(dict(base, designed="interrupt-queued", cfg=dict(cfg0, num_workers=workers), targets=T,
                            history=[{"op": "build"}, {"op": "nothing"}, {"op": "build"}],
                            interrupt={"signal": sig, "delay": rng.choice([0.5, 0.7]), "build": 0}))
    if focus == "C18":
        # (a) the signal arrives while the big output of a FINISHED command is being copied into the cache; then build again, remove
        #     the outputs, build a third time (cache hit): CAS audit (sha256: every blob has the digest it is filed under) and bytes
        for freeze, size in ((0.8, 500 << 20), (0.6, 300 << 20)):
            T = [_blank_target(0, outs=[("file", "t0.big", size, "sparse")]), _blank_target(1, deps=[0], alias={0: 1})]
            out.append(dict(base, designed="interrupt-output-write", cfg=dict(cfg0, num_workers=2, hash_algorithm="sha256"), targets=T,
                            history=[{"op": "build"}, {"op": "nothing"}, {"op": "build"}, {"op": "rm-all-outputs"}, {"op": "build"}],
                            interrupt={"signal": rng.choice(["SIGINT", "SIGTERM"]), "when": "cas-file", "delay": 0, "freeze": freeze, "build": 0}))
        # (b) running shells of targets that declare a `timeout:` (their command runs under a context of its own)
        for sig in ("SIGINT", "SIGTERM"):
            T = [_blank_target(i, sleep=3, timeout=("5m" if i % 2 else None)) for i in range(4)]
            out.append(dict(base, designed="interrupt-timeout-shells", cfg=dict(cfg0, num_workers=4), targets=T,
                            history=[{"op": "build"}, {"op": "nothing"}, {"op": "build"}],
                            interrupt={"signal": sig, "delay": 0.7, "build": 0}))
        # (c) late signal: everything but one slow target has completed, and the selection contains aliases (nodes that complete
        #     without being targets) on completed targets
        for sig, depth in (("SIGINT", 1), ("SIGTERM", 2)):
            T = [_blank_target(0), _blank_target(1, deps=[0], alias={0: depth}), _blank_target(2, deps=[1], alias={1: depth}, sleep=3)]
            out.append(dict(base, designed="interrupt-late-with-aliases", cfg=dict(cfg0, num_workers=2), targets=T,
                            history=[{"op": "build"}, {"op": "nothing"}, {"op": "build"}],
                            interrupt={"signal": sig, "delay": 1.2, "build": 0}))
    return out


def force_interrupt(world, rng):
    """C18: every world gets an interrupt, on a build that is followed by another one; a third of the targets declare a generous
    `timeout:` (their command runs under a context of its own)"""
    for t in world["targets"]:
        if not t["timeout"] and rng.random() < 0.35:
            t["timeout"] = rng.choice(["20s", "5m", "1h"])
    nb = sum(1 for st in world["history"] if st["op"] == "build")
    if nb == 1:
        world["history"] += [{"op": "nothing"}, {"op": "build"}]
        nb = 2
    world["interrupt"] = {"signal": rng.choice(["SIGINT", "SIGTERM"]), "delay": rng.choice([0.05, 0.15, 0.3, 0.5, 0.8, 1.2]), "build": rng.randrange(nb - 1)}
    return world


def run_worlds(ctx, nworlds, focus, threads=4, interrupt_all=False):
    """Runs `nworlds` random worlds (seeded from ctx.rng). A world with oracle failures is run a second time in a fresh
    workspace; only failures whose signature repeats are returned as confirmed (timing / scheduling dependent ones included:
    a real defect of this kind shows up again, a scheduling accident does not)."""
    import concurrent.futures as cf
    if ctx.grog_binary() is None:
        return [], {}
    seeds = [ctx.rng.randrange(1 << 30) for _ in range(nworlds)]
    designed = designed_worlds(random.Random(ctx.rng.randrange(1 << 30)), "C18" if interrupt_all else focus)
    seeds = [-(k + 1) for k in range(len(designed))] + seeds

    def one(k, seed):
        world = designed[-seed - 1] if seed < 0 else gen_world(random.Random(seed), focus)
        if interrupt_all and seed >= 0:
            force_interrupt(world, random.Random(seed + 1))
        r = run_world(ctx, f"world-{focus}-{k}", world)
        r["seed"] = seed
        if r["bad"]:
            world.pop("_after_interrupt", None)
            world.pop("_had_interrupt", None)
            r2 = run_world(ctx, f"world-{focus}-{k}-again", world)
            sig2 = {(p, s) for p, s, _ in r2["bad"]}
            r["unconfirmed"] = [(p, s) for p, s, _ in r["bad"] if (p, s) not in sig2]
            if r["unconfirmed"]:
                r["unconfirmed_detail"] = [b["out_tail"] for b in r["builds"] if b.get("out_tail")][:1]
            r["bad"] = [x for x in r["bad"] if (x[0], x[1]) in sig2]
        return r
    results = []
    with cf.ThreadPoolExecutor(max_workers=threads) as ex:
        for f in [ex.submit(one, k, s) for k, s in enumerate(seeds)]:
            results.append(f.result())
    # ---- fail-fast, decided over all worlds: are command starts after the first failure systematic? -----------------------------
    def ff_hit(r):
        return any(b.get("post_failure_starts") for b in r["builds"])
    ff_builds = [b for r in results for b in r["builds"] if "post_failure_starts" in b]
    hit_worlds = [r for r in results if ff_hit(r)]
    ff_stat = {"fail_fast_builds_with_a_failure": len(ff_builds), "with_a_start_after_the_failure": sum(1 for b in ff_builds if b["post_failure_starts"])}
    if len(hit_worlds) >= 3 and ff_stat["with_a_start_after_the_failure"] >= 0.15 * len(ff_builds):
        again = []
        with cf.ThreadPoolExecutor(max_workers=threads) as ex:
            for r in hit_worlds[:8]:
                r["world"].pop("_after_interrupt", None)
            for f in [ex.submit(run_world, ctx, f"world-{focus}-ff-again-{k}", r["world"]) for k, r in enumerate(hit_worlds[:8])]:
                again.append(f.result())
        ff_stat["rerun_of_the_worlds_with_such_a_start"] = [ff_hit(r) for r in again]
        if sum(ff_hit(r) for r in again) >= 2:
            ex_b = next(b for b in hit_worlds[0]["builds"] if b.get("post_failure_starts"))
            hit_worlds[0]["bad"].append(("C05", "fail-fast-starts-after-failure-systematic",
                                         f"--fail-fast: in {ff_stat['with_a_start_after_the_failure']} of {len(ff_builds)} builds with a failing target a command started "
                                         f"after the failing script had exited (e.g. {ex_b['post_failure_starts']}), and again in {sum(ff_hit(r) for r in again)} of "
                                         f"{len(again)} reruns of those worlds; one such start is a scheduling accident, this many are not "
                                         f"(started targets that declare a timeout: {[b.get('post_failure_starts_with_timeout') for r in hit_worlds for b in r['builds'] if b.get('post_failure_starts')][:6]})"))
    feat, pairs = {}, {}
    for r in results:
        fs = r["features"]
        for a in fs:
            feat[a] = feat.get(a, 0) + 1
        for x in range(len(fs)):
            for y in range(x + 1, len(fs)):
                k = fs[x] + " + " + fs[y]
                pairs[k] = pairs.get(k, 0) + 1
    cov = {"worlds": len(results), "builds": sum(len(r["builds"]) for r in results), "features": dict(sorted(feat.items())),
           "feature_pairs_covered": len(pairs), "feature_pairs_top": dict(sorted(pairs.items(), key=lambda kv: -kv[1])[:40]),
           "feature_pairs_once": sum(1 for v in pairs.values() if v == 1),
           "unconfirmed_oracle_failures": [(r["seed"], r["unconfirmed"]) for r in results if r.get("unconfirmed")],
           "unconfirmed_oracle_failure_output": [(r["seed"], r["unconfirmed_detail"]) for r in results if r.get("unconfirmed_detail")][:3],
           "fail_fast_post_failure_starts": ff_stat,
           "max_wall_s": max([b["wall"] for r in results for b in r["builds"]] or [0])}
    return results, cov


def report(ctx, results, cov, own):
    """violations of oracles owned by `own` (the property of the running check) are reported; failures of oracles owned by
    other properties are recorded in the evidence (their own checks run their own share of worlds)"""
    foreign = []
    for r in results:
        seen = set()
        for prop, sig, msg in r["bad"]:
            if (prop, sig) in seen:
                continue
            seen.add((prop, sig))
            if prop == own:
                slim = dict(r)
                ctx.violation(msg, {"kind": "oracle", "oracle": "cliworld: trace / report / cache oracles", "seed": r["seed"], "features": r["features"],
                                    "world": r["world"], "builds": r["builds"], "all_oracle_failures": r["bad"][:12]}, signature="world:" + sig)
            else:
                foreign.append((prop, sig, r["seed"]))
    cov = dict(cov)
    cov["oracle_failures_owned_by_other_properties"] = foreign[:20]
    ctx.coverage["cliworld"] = cov
    ctx.coverage["evaluations"] = ctx.coverage.get("evaluations", 0) + cov.get("builds", 0)
    ctx.coverage["distinct_nontrivial"] = ctx.coverage.get("distinct_nontrivial", 0) + len({tuple(r["features"]) for r in results})
    for seed, unc in cov["unconfirmed_oracle_failures"]:
        ctx.notes.append(f"cliworld seed {seed}: oracle failure(s) {unc} did not repeat in a second run of the same world")


def normalize_world(world):
    """a world read back from a replay file (JSON turned tuples into lists and int keys into strings)"""
    for t in world["targets"]:
        t["outs"] = [tuple(o) for o in t["outs"]]
        t["alias"] = {int(k): v for k, v in t["alias"].items()}
    return world


def replay(ctx, rep):
    world = normalize_world(rep["world"])
    r = run_world(ctx, "world-replay", world)
    print("features:", r["features"])
    for b in r["builds"]:
        print("build", b)
    print("oracle failures:" if r["bad"] else "all oracles hold on this run")
    for x in r["bad"]:
        print("  ", x)
    return 0
