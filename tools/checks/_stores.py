"""Shared generators and helpers of the store group (C06, C07, C08).

Entry trees travel as  ["f", bytes, exec] | ["d", [[name, entry], ...]] | ["l", target]
(byte strings as latin-1 protocol text, see harness/verifdrv/main.go).
"""
import json, os, subprocess


def F(b="", x=False):
    return ["f", b, bool(x)]


def D(*es):
    return ["d", [[n, e] for n, e in es]]


def L(t):
    return ["l", t]


# permission modes of stale files in prior states of a destination (owner always keeps rw: the checks may run unprivileged)
ODD_MODES = [0o654, 0o645, 0o611, 0o601, 0o610, 0o744, 0o700, 0o655, 0o664, 0o600, 0o656]


def FB(runs, x=False):
    """a large file given by runs [[byte, count], ...]; listed by the harness as ["fh", sha256, size, exec]"""
    return ["fb", [list(r) for r in runs], x]


def has_big(e):
    if e is None:
        return False
    if e[0] == "d":
        return any(has_big(c) for _, c in e[1])
    return e[0] in ("fb", "fh")


def digestify(e):
    """files above the harness' listing threshold (1 MiB) in the form the harness lists them: ["fh", sha256, size, exec]"""
    import hashlib
    if e is None:
        return None
    if e[0] == "d":
        return ["d", [[n, digestify(c)] for n, c in e[1]]]
    if e[0] == "f" and len(e[1]) > (1 << 20):
        return ["fh", hashlib.sha256(e[1].encode("latin-1")).hexdigest(), len(e[1]), e[2]]
    return e


def for_model(e):
    """the model's view of an entry: an explicit permission mode becomes 'the owner may execute it'"""
    if e is None:
        return None
    if e[0] == "d":
        return ["d", [[n, for_model(c)] for n, c in e[1]]]
    if e[0] == "f" and not isinstance(e[2], bool):
        return ["f", e[1], bool(e[2] & 0o100)]
    return e


def proto(s):
    """python str -> protocol text (UTF-8 bytes as latin-1 code points)"""
    return s.encode("utf-8").decode("latin-1")


def unproto(s):
    """protocol text -> python str (for matching error messages)"""
    return s.encode("latin-1").decode("utf-8", "replace")


AWKWARD = [proto(x) for x in [
    "a b", " lead", "trail ", ".hidden", "..dots", "-dash", "ünï", "日本", "x" * 120, "a:b", "semi;colon", "q'uote", 'dq"', "star*", "tab\tx",
    "new\nline", "back\\slash", "~tilde", "#hash", "%25", "tmp-123", "CON", "a.tar.gz", "0", "$(x)", "{b}", "é", "é"]]
PLAIN = ["a", "b", "c", "d", "e", "f.txt", "g.sh", "bin", "lib", "src", "x1", "x2", "out", "data", "README", "main.go", "z"]
CONTENTS = ["", "a", "hello\n", "#!/bin/sh\necho hi\n", "\x00\x01\x02\xff", "x" * 1000, proto("ünïcode ✓"), "same", "same", "same"]


def canon(e):
    """sort directory entries by name, recursively (comparison form)"""
    if e is None:
        return None
    if e[0] == "d":
        return ["d", sorted(([n, canon(c)] for n, c in e[1]), key=lambda p: p[0].encode("latin-1", "replace"))]
    return e


def get(e, path):
    for n in path:
        if e is None or e[0] != "d":
            return None
        nxt = None
        for m, c in e[1]:
            if m == n:
                nxt = c
                break
        e = nxt
    return e


def put(root, path, e):
    """functional update: place e at path under root (creating directories)"""
    if not path:
        return e
    if root is None or root[0] != "d":
        root = D()
    n = path[0]
    es = [[m, c] for m, c in root[1] if m != n]
    old = get(root, [n])
    es.append([n, put(old, path[1:], e)])
    return ["d", es]


def remove(root, path):
    if root is None or root[0] != "d" or not path:
        return root
    n = path[0]
    if len(path) == 1:
        return ["d", [[m, c] for m, c in root[1] if m != n]]
    return ["d", [[m, (remove(c, path[1:]) if m == n else c)] for m, c in root[1]]]


def size(e):
    if e[0] != "d":
        return 1
    return 1 + sum(size(c) for _, c in e[1])


def depth(e):
    if e[0] != "d":
        return 0
    return 1 + max([depth(c) for _, c in e[1]] + [0])


def count_kind(e, k):
    n = 1 if e[0] == k else 0
    if e[0] == "d":
        n += sum(count_kind(c, k) for _, c in e[1])
    return n


def gen_name(rng, used):
    for _ in range(50):
        r = rng.random()
        if r < 0.6:
            n = rng.choice(PLAIN)
        elif r < 0.85:
            n = rng.choice(AWKWARD)
        else:
            n = rng.choice(PLAIN) + str(rng.randint(0, 99))
        if n not in used and n not in (".", "..") and "/" not in n and "\x00" not in n and n != "":
            used.add(n)
            return n
    n = "n%d" % len(used)
    used.add(n)
    return n


def gen_content(rng):
    r = rng.random()
    if r < 0.03:
        # around buffer sizes / io.Copy chunks
        n = rng.choice([4095, 4096, 4097, 32767, 32768, 32769, 65536, 65537])
        k = rng.randint(1, 250)
        return "".join(chr((i * k) % 251) for i in range(n))
    if r < 0.6:
        return rng.choice(CONTENTS)
    if r < 0.8:
        return "".join(chr(rng.randint(0, 255)) for _ in range(rng.randint(1, 40)))
    return rng.choice(["line %d\n" % rng.randint(0, 5) * rng.randint(1, 50), "same"])


def gen_tree(rng, max_depth=6, max_fan=8, p_dir=0.35, p_link=0.12, subtree_pool=None):
    """A directory entry. Duplicate contents, empty files and directories, symlinks (incl. dangling and
    to directories), executable bits, awkward names, repeated identical sub-directories."""
    if subtree_pool is None:
        subtree_pool = []
    used = set()
    es = []
    fan = rng.choice([0, 1, 1, 2, 2, 3, 3, 4, 5, max_fan]) if max_depth > 0 else rng.choice([0, 1, 2, 3])
    for _ in range(fan):
        n = gen_name(rng, used)
        r = rng.random()
        if r < p_dir and max_depth > 1:
            if subtree_pool and rng.random() < 0.25:
                sub = rng.choice(subtree_pool)      # identical sub-directory elsewhere: de-duplicated child
            else:
                sub = gen_tree(rng, max_depth - 1, max(1, max_fan - 2), p_dir * 0.8, p_link, subtree_pool)
                if depth(sub) < 3:
                    subtree_pool.append(sub)
            es.append([n, sub])
        elif r < p_dir + p_link:
            es.append([n, L(rng.choice(["a", "../a", "nowhere/dangling", ".", "/etc/hostname", proto("ünï"), "sub/"]))])
        else:
            es.append([n, F(gen_content(rng), rng.random() < 0.3)])
    rng.shuffle(es)
    return ["d", es]


def mutate_tree(rng, t):
    """a different tree derived from t: stale extra files, modified / truncated contents, flipped bits, kind changes"""
    if t[0] != "d":
        return t
    es = []
    for n, c in t[1]:
        r = rng.random()
        if r < 0.12:
            continue                                        # missing entry
        if c[0] == "f" and r < 0.3:
            es.append([n, F(c[1][: len(c[1]) // 2], c[2])])  # truncated
        elif c[0] == "f" and r < 0.4:
            es.append([n, F(c[1] + "X", c[2])])               # modified
        elif c[0] == "f" and r < 0.5:
            # flipped executable bit only, or the same bytes under an unusual permission mode
            es.append([n, F(c[1], not c[2]) if rng.random() < 0.6 else ["f", c[1], rng.choice(ODD_MODES)]])
        elif c[0] == "f" and r < 0.55:
            es.append([n, D(("inner", F("x")))])              # directory where a file should be
        elif c[0] == "d" and r < 0.3:
            es.append([n, F("file where a directory should be")])
        elif c[0] == "l" and r < 0.4:
            es.append([n, L(c[1] + "x")])
        elif c[0] == "d":
            es.append([n, mutate_tree(rng, c)])
        else:
            es.append([n, c])
    if rng.random() < 0.6:
        es.append(["stale-%d" % rng.randint(0, 9), rng.choice([F("stale"), D(("s", F("stale", True))), L("stale")])])
    return ["d", es]


def jdump(x):
    return json.dumps(x, sort_keys=True, ensure_ascii=True)


def run_lines(binary, reqs, timeout=3600):
    """like vlib.run_lines, but replies are split on '\n' only (str.splitlines also splits on U+0085, U+2028, \x0b, \x0c,
    \x1c-\x1e, which occur raw in file contents / names of this group)."""
    data = "".join(json.dumps(r, ensure_ascii=True) + "\n" for r in reqs)
    p = subprocess.run([binary], input=data.encode(), capture_output=True, timeout=timeout)
    outs = []
    for line in p.stdout.decode("utf-8", "replace").split("\n"):
        line = line.strip(" \r\t")
        if not line:
            continue
        try:
            outs.append(json.loads(line))
        except Exception:
            outs.append({"error": "unparsable reply", "raw": line[:200]})
    while len(outs) < len(reqs):
        outs.append({"error": "no reply (driver died)" if p.returncode != 0 else "no reply", "stderr": p.stderr.decode("utf-8", "replace")[-2000:]})
    return outs


def impl(ctx, reqs, **kw):
    b = ctx.impl_binary()
    if not b:
        return None
    return run_lines(b, reqs, **kw)


def model(ctx, reqs, **kw):
    return run_lines(ctx.model_binary(), reqs, **kw)


def workload(rng, k):
    """a workspace with 1..3 targets with disjoint outputs; contents and sub-directories are shared between targets so
    that Cas.Write meets digests that already exist (memo hit / Exists=true / skipped upload)"""
    shared = gen_tree(rng, 2, 3)
    ws = D(("p", D()))
    targets = []
    nt = rng.choice([1, 2, 2, 3])
    for t in range(nt):
        outs = []
        for o in range(rng.choice([1, 1, 2])):
            if rng.random() < 0.65:
                oid = "out%d_%d" % (t, o)
                tree = gen_tree(rng, rng.choice([1, 2, 3]), rng.choice([2, 3, 4]))
                if rng.random() < 0.6:
                    tree = put(tree, ["shared"], shared)
                if rng.random() < 0.5:
                    tree = put(tree, ["dup.txt"], F("same"))
                ws = put(ws, ["p", oid], tree)
                outs.append(["dir", oid])
            else:
                oid = "f%d_%d.bin" % (t, o)
                ws = put(ws, ["p", oid], F(rng.choice(["same", gen_content(rng)]), rng.random() < 0.4))
                outs.append(["file", oid])
        targets.append({"pkg": "p", "name": "t%d" % t, "key": "key%d_%d" % (k, t), "outputs": outs})
    return ws, targets




def confirm_hang(ctx, req, has_hang, timeout_s=45):
    """A hang is reported only if it is reproducible: the same request is run once more, alone, with a longer timeout
    (a genuine deadlock is deterministic for a given fault plan; a stall on a loaded machine is not). At most three
    confirmation attempts and one confirmed hang per run: later hanging cases of a run are neither re-run nor reported (one
    replay per class suffices)."""
    n = getattr(ctx, "_hang_confirmations", 0)
    if n >= 3 or getattr(ctx, "_hang_confirmed", False):
        return False
    ctx._hang_confirmations = n + 1
    out = impl(ctx, [dict(req, timeout_s=timeout_s)])
    ok = bool(out) and has_hang(out[0])
    if ok:
        ctx._hang_confirmed = True      # one confirmed hang per run: the replay file of the class exists, later hanging cases are not re-run
    return ok
