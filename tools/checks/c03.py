"""C03 — dependencies first, each target once, at most num_workers at a time.

Theorem side : GrogModel/Props/C03.lean — invariants of the walker transition system (all DAGs, all
               schedules, fail-fast on/off, with cancellation) and of the pool model.
Correspondence: trace inclusion. The real dag.Walker (optionally with the real TaskWorkerPool behind the
               callback) runs on generated DAGs (1..400 nodes; chains, diamonds, fan-out/in, bipartite,
               layered), latencies incl. zero, failing subsets, fail-fast on/off, selections; every
               recorded trace is replayed through the Lean `step`.
Oracle (no model): on the real trace — every dependency's successful end precedes the dependant's start,
               no callback is entered twice, commands only inside their callback, overlap <= workers.
"""
import concurrent.futures as cf
import json, os
from checks import _walker as W
from checks import _cliworld

PROPERTY = "C03"
LEVEL = "proof"
LEVEL_TEXT = ("Lean 4 theorems over a labelled transition system of graph_walker.go (all acyclic graphs, closed selections, schedules, "
              "fail-fast on/off, cancellation at any point): a node whose callback was entered has every transitive dependency successfully "
              "completed; a callback is entered at most once along any run; running commands <= tasks on a worker <= num_workers, in the pool model "
              "and in every reachable state of the composition walker x tasks with W workers; on the build model (Exec/Build) a label occurs "
              "at most once in the execution log of one invocation, in both load_outputs modes. "
              "The model is tied to the code by trace inclusion: traces of the real Walker/TaskWorkerPool on generated DAGs must be runs of the "
              "model's step function; a model-independent oracle checks order, single start and overlap on the real traces.")
LEVEL_NOTE = ("Real schedules are sampled (Go scheduler, zero and random latencies, Gosched), not enumerated; atomicity of onComplete is a mutex in "
              "the code and an atomic event in the model; four registered theorems (no_second_wake, no_command_start_under_cancelled_context, "
              "composed_no_command_start_after_cancel, every_command_needs_a_worker) are one-step unfoldings of a guard; "
              "exec.CommandContext refusing a cancelled context is trusted.")
TECHNIQUE = "Lean 4 invariant proofs over an executable LTS + trace-inclusion correspondence with the real walker and worker pool"
OBLIGATIONS = [
    # invariants over Reach / ReachW / Build.build (inductive proofs)
    "Grog.C03.started_anc_ok",
    "Grog.C03.wake_only_after_anc_ok",
    "Grog.C03.callback_at_most_once",
    "Grog.C03.running_le_workers",
    "Grog.C03.command_only_after_all_dependencies",
    "Grog.C03.commands_le_workers",
    "Grog.C03.bounded_runs_are_runs",
    "Grog.C03.build_executes_each_target_at_most_once",
    "Grog.C03.build_executes_each_target_at_most_once_minimal",
    # one-step facts: each merely unfolds a guard of `step` (kept because other proofs and the notes cite them; they carry no
    # weight on their own - the weight is in the trace-inclusion check that ties the guards to the code)
    "Grog.C03.no_second_wake",
    "Grog.C03.no_command_start_under_cancelled_context",
    "Grog.C03.composed_no_command_start_after_cancel",
    "Grog.C03.every_command_needs_a_worker",
    # arithmetic on the one-line re-run formula (superseded by build_executes_each_target_at_most_once*; kept as the CLI regression's
    # model side) and its regression witness
    "Grog.C03.exec_at_most_once",
    "Grog.C03.exec_more_than_once_witness_old",
]
ASSUMPTIONS = [
    "selection closed under dependencies and graph acyclic (CfgOK; discharged by the selection / analysis properties C12, C11); the "
    "selection is a duplicate-free list (c.sel.Nodup) for the worker bound",
    "GetDescendants returns the set of descendants (CfgOK.desc_iff; graph group)",
    "a worker goroutine is inside at most one task (guard onWorkers < W of Sys.stepW; worker identities: the list model Grog.Pool); "
    "tied to the code by the maxCmds oracle on the real pool",
    "at-most-once in minimal mode: no lost blobs (CasOK), well-formed build (BuildOK), repaired code (rerunOnce, loadFault, minValidate)",
]


def run(ctx):
    quick = ctx.tier == "quick"
    ncases = 420 if quick else 5000
    rng = ctx.rng
    cases = []
    # targeted families first: zero-latency wide fan-out / fan-in (registration window), diamonds with one slow side
    for k in (2, 30, 200, 399):
        n, e, fam = W.g_fanout(k + 1)
        for w in (0, 2):
            cases.append(dict(W.make_case(rng, family=(n, e, fam), workers=w, fail_fast=False), latUs=[0] * n, fail=[], unsel=[]))
    for k in (3, 50, 399):
        n, e, fam = W.g_fanin(k + 1)
        cases.append(dict(W.make_case(rng, family=(n, e, fam), workers=3, fail_fast=False), fail=[], unsel=[]))
    for _ in range(12):
        n, e, fam = W.g_diamonds(rng.randint(1, 5))
        c = W.make_case(rng, family=(n, e, fam), fail_fast=False)
        c["latUs"] = [rng.choice([0, 400]) for _ in range(n)]
        c["fail"] = []
        c["unsel"] = []
        cases.append(c)
    for w in (1, 2, 3, 8):
        n, e, fam = W.g_forest(40)
        cases.append(dict(W.make_case(rng, family=(n, e, fam), workers=w, fail_fast=False), latUs=[300] * n, fail=[], unsel=[]))
    # a dependency listed twice that finishes early while another dependency is still running
    for rep in range(6):
        for edges, n, lat in (([[0, 2], [0, 2], [1, 2]], 3, [0, 3000, 0]), ([[1, 3], [0, 3], [0, 3], [0, 3], [2, 3]], 4, [0, 2000, 4000, 0])):
            c = W.make_case(rng, family=(n, edges, "dup-edge"), workers=rng.choice([0, 3]), fail_fast=rep % 2 == 1)
            c.update(edges=edges, latUs=lat, fail=[], unsel=[])
            cases.append(c)
    # boundary sizes (buffer sizes / powers of two), each twice (different schedules)
    for k in (63, 64, 65, 127, 128, 129, 255, 256, 257):
        for rep in range(2):
            n, e, fam = (W.g_fanout if rep == 0 else W.g_fanin)(k)
            c = W.make_case(rng, family=(n, e, fam), workers=rng.choice([0, 4]), fail_fast=False)
            c.update(latUs=[0] * n if rep == 0 else c["latUs"], fail=[], unsel=[])
            cases.append(c)
    for w in (1, 2, 3, 4, 7, 8, 9, 16, 17):
        n, e, fam = W.g_forest(2 * w + 3)
        cases.append(dict(W.make_case(rng, family=(n, e, fam), workers=w, fail_fast=False), latUs=[200] * n, fail=[], unsel=[]))
    # degenerate shapes: single node, nothing selected, everything independent and failing
    cases.append(dict(W.make_case(rng, family=(1, [], "single"), workers=0, fail_fast=False), fail=[], unsel=[]))
    cases.append(dict(W.make_case(rng, family=(1, [], "single"), workers=1, fail_fast=True), fail=[0], unsel=[]))
    cases.append(dict(W.make_case(rng, family=(3, [[0, 1], [1, 2]], "nothing-selected"), workers=0, fail_fast=False), fail=[], unsel=[0, 1, 2]))
    cases.append(dict(W.make_case(rng, family=(5, [], "independent"), workers=2, fail_fast=False), fail=[0, 1, 2, 3, 4], unsel=[]))
    while len(cases) < ncases:
        cases.append(W.make_case(rng, maxn=400 if rng.random() < 0.25 else 60, cancel=rng.random() < 0.15))
    ctx.coverage["rule"] = (f"{len(cases)} walks of the real dag.Walker: targeted (zero-latency fan-out/fan-in up to 400 nodes, diamonds with one slow side, "
                            "independent nodes through pools of 1/2/3/8 workers) + random DAG families x latencies (0..300us) x failing subsets x fail-fast x "
                            "selection x workers{0,1,2,3,8} x 15% external cancellation; non-trivial = distinct (family,n,failFast,workers,fails>0,cancel) "
                            "classes with at least one dependency edge or pool")
    outs = W.run_impl(ctx, cases)
    if outs is None:
        return
    reps = W.replay_model(ctx, cases, outs)
    classes, fams, sizes = set(), {}, {"1-9": 0, "10-99": 0, "100-400": 0}
    n_events = 0
    disagreements = []
    oracle_fail = 0
    for c, o, r in zip(cases, outs, reps):
        fams[c["family"]] = fams.get(c["family"], 0) + 1
        sizes["1-9" if c["n"] < 10 else "10-99" if c["n"] < 100 else "100-400"] += 1
        n_events += len(o.get("trace", []))
        if c["edges"] or c["workers"]:
            classes.add((c["family"], c["n"], c["failFast"], c["workers"], bool(c["fail"]), c["cancelAfterEvents"] >= 0))
        bad = W.oracle(c, o)
        for prop, sig, msg in bad:
            if prop in ("C03", "C04"):     # a crash / hang also breaks the ordering guarantee's premise; C04 reports it as its own
                if prop == "C03":
                    oracle_fail += 1
                    ctx.violation(msg, {"kind": "oracle", "case": c, "impl": o}, signature=sig)
        if not r.get("ok") and not o.get("crash") and not o.get("hang") and "error" not in o:
            disagreements.append((c, o, r))
    ctx.coverage["evaluations"] = len(cases)
    ctx.coverage["distinct_nontrivial"] = len(classes)
    ctx.coverage["families"] = fams
    ctx.coverage["sizes"] = sizes
    ctx.coverage["trace_events_replayed"] = n_events
    ctx.coverage["traces_validated_against_impl"] = len(cases)
    ctx.coverage["with_pool"] = sum(1 for c in cases if c["workers"])
    ctx.coverage["fail_fast"] = sum(1 for c in cases if c["failFast"])
    ctx.coverage["with_failures"] = sum(1 for c in cases if c["fail"])
    ctx.coverage["with_cancel"] = sum(1 for c in cases if c["cancelAfterEvents"] >= 0)
    ctx.coverage["oracle_failures"] = oracle_fail
    ctx.coverage["disagreements"] = len(disagreements)
    # ---- step-level correspondence of onComplete (deterministic; release only when all dependencies succeeded) ----
    scases = []
    for _ in range(120 if quick else 1500):
        c = W.make_case(rng, maxn=40, workers=0)
        scases.append(c)
    for a, b in ((1, 1), (2, 3), (9, 9)):
        n, e, fam = W.g_bipartite(a, b)
        scases.append(dict(W.make_case(rng, family=(n, e, fam), workers=0, fail_fast=False), fail=[], unsel=[]))
    sbad, sinfo = W.run_steps(ctx, scases)
    if not sinfo["built"]:
        ctx.harness_broken("go test of the onComplete step harness failed to build/run against the current tree", sinfo["raw"])
    ctx.coverage["oncomplete_step_cases"] = sinfo["n"]
    ctx.coverage["oncomplete_steps_compared"] = sinfo["steps"]
    ctx.coverage["oncomplete_step_disagreements"] = len(sbad)
    for c, real, m, k in sbad[:1]:
        orc = [x for x in W.step_oracle(c, real) if x[0] == "C03"]
        if orc:
            for prop, sig, msg in orc:
                ctx.violation(msg, {"kind": "oracle", "oracle": "onComplete step records", "case": c, "steps": real}, signature=sig)
        elif not ctx.violations:
            ctx.violation("onComplete of the real walker and the model's `complete` event disagree: " + W.describe_step_diff(c, real, m, k),
                          {"kind": "correspondence", "correspondence": "TestVerifOnCompleteSteps vs walker.steps", "case": c, "steps": real,
                           "model": m}, found_input=False)
    for c, o in list(zip(cases, outs))[:2]:
        ctx.sample({"n": c["n"], "family": c["family"], "failFast": c["failFast"], "workers": c["workers"], "trace_head": o.get("trace", [])[:8]})
    run_cli(ctx)
    # ---- broad randomized CLI worlds (shared generator; all oracles run, the C03-owned ones are reported here) ----
    results, cov = _cliworld.run_worlds(ctx, 30 if quick else 300, "C03")
    _cliworld.report(ctx, results, cov, "C03")
    ctx.coverage["evaluations"] += ctx.coverage.get("cli_builds", 0) + ctx.coverage.get("oncomplete_step_cases", 0)
    if disagreements and not ctx.violations:
        c, o, r = min(disagreements, key=lambda t: t[0]["n"])
        ctx.violation("a trace of the real walker is not a run of the model: " + str(r.get("why", r)),
                      {"kind": "correspondence", "correspondence": "walker.run trace vs GrogModel.Walker.step", "case": c, "impl": o, "model": r,
                       "n_disagreements": len(disagreements)}, found_input=False)


def cli_case(ctx, idx, seed, fixed=None):
    """one cold build through the real CLI; oracle on the O_APPEND trace of the commands (target commands and
    output-check commands both count as commands)"""
    import random
    rng = random.Random(seed)
    pick = rng.random()
    fixed = fixed or {}
    if "graph" in fixed:
        n, edges, fam = fixed["graph"]
    elif pick < 0.25:
        n, edges, fam = W.g_fanout(rng.randint(3, 6))
    elif pick < 0.45:
        n, edges, fam = W.g_diamonds(rng.randint(1, 2))
    elif pick < 0.6:
        n, edges, fam = W.g_forest(rng.randint(6, 10))
    else:
        n, edges, fam = W.g_layered(rng, rng.randint(5, 10), rng.randint(2, 4), 2)
    workers = fixed.get("workers", rng.choice([1, 2, 3, 8]))
    mode = fixed.get("mode", rng.choice(["all", "minimal"]))
    sleep = fixed.get("sleep", [rng.choice([0, 0.05, 0.12]) for _ in range(n)])
    ins, outs = W.deps_of(n, edges), W.dependants(n, edges)
    if "opts" in fixed:
        opts = fixed["opts"]
    else:
        opts = {"dup_deps": [m for m in range(n) if ins[m] and rng.random() < 0.3],
                "no_outputs": [m for m in range(n) if rng.random() < 0.15],
                "check_only": [m for m in range(n) if rng.random() < 0.12],
                "via_alias": [m for m in range(n) if outs[m] and rng.random() < 0.2]}
        opts["no_outputs"] = [m for m in opts["no_outputs"] if m not in opts["check_only"]]
    ws = W.CliWs(ctx, f"c03-{idx}", n, edges, sleep=sleep, workers=workers, **{k: tuple(v) for k, v in opts.items()})
    check_only = set(opts.get("check_only", ()))
    nocache = fixed.get("nocache", sorted(m for m in range(n) if m not in check_only and rng.random() < 0.25))
    if nocache:
        p = os.path.join(ws.ws, "pkg", "BUILD.json")
        j = json.load(open(p))
        for m in nocache:
            j["targets"][m]["tags"] = ["no-cache"]
        json.dump(j, open(p, "w"))
    b = ws.build(flags=("--load-outputs=" + mode,))
    res = {"n": n, "edges": edges, "family": fam, "workers": workers, "mode": mode, "nocache": nocache, "opts": opts, "sleep": sleep,
           "rc": b["rc"], "bad": []}
    bad = res["bad"]
    if b["rc"] != 0:
        bad.append(("build-failed", f"cold build exited {b['rc']}: {b['out'][-300:]}"))
    open_cmds, done_ok, starts = set(), set(), {}
    peak, peak_what = 0, []
    for k, m, _ in b["trace"]:
        if k in ("s", "cs"):
            if k == "s":
                starts[m] = starts.get(m, 0) + 1
            for d in ins[m]:
                if d not in done_ok:
                    bad.append(("started-before-dependency-succeeded",
                                f"{'command' if k == 's' else 'output check'} of t{m} started before its dependency t{d} ended"))
            open_cmds.add((k[0] if k == "s" else "c", m))
            if len(open_cmds) > peak:
                peak, peak_what = len(open_cmds), sorted(open_cmds)
        else:
            open_cmds.discard(("s" if k == "e" else "c", m))
            done_ok.add(m)
    res["peak"], res["starts"] = peak, starts
    if peak > workers:
        bad.append(("more-commands-than-workers",
                    f"{peak} commands (target commands / output checks: {peak_what}) ran at the same time with num_workers={workers}"))
    for m, k in sorted(starts.items()):
        if k > 1:
            if mode == "minimal" and m in nocache and outs[m]:
                bad.append(("executed-more-than-once:minimal-mode-no-cache-dependency",
                            f"load_outputs=minimal: the no-cache target t{m} with {len(outs[m])} dependants ran {k} times in one build"))
            else:
                bad.append(("executed-more-than-once", f"target t{m} ran {k} times in one build (mode {mode})"))
    if set(starts) != set(range(n)) - check_only and b["rc"] == 0:
        bad.append(("selected-target-not-executed", f"cold build did not execute {sorted(set(range(n)) - check_only - set(starts))}"))
    # the re-run model (GrogModel.Pool.execCount) for no-cache roots whose dependants are cacheable
    res["model_counts"] = {}
    for m in nocache:
        if mode == "minimal" and not ins[m] and all(x not in nocache for x in outs[m]) and all(all(y not in nocache or y == m for y in ins[x]) for x in outs[m]):
            res["model_counts"][m] = (1, starts.get(m, 0))     # Pool.execCount with producedInThisBuild
    if bad:
        res["out"] = b["out"][-800:]
        res["trace"] = [(k, m) for k, m, _ in b["trace"]]
    ws.cleanup()
    return res


NO_OPTS = {"dup_deps": [], "no_outputs": [], "check_only": [], "via_alias": []}
TARGETED_CLI = [
    # the input of the fixed finding F-nocache-rerun (regression): no-cache root with two / five dependants, minimal mode
    {"graph": W.g_fanout(3), "workers": 2, "mode": "minimal", "nocache": [0], "opts": NO_OPTS},
    {"graph": W.g_fanout(6), "workers": 2, "mode": "minimal", "nocache": [0], "opts": NO_OPTS},
    # a dependency listed twice (":t0" and "//pkg:t0") that finishes early + a slow dependency without outputs:
    # the dependant must still wait for the slow one (one edge per listed label in the graph)
    {"graph": (3, [[0, 2], [1, 2]], "dup-dependency-label"), "workers": 4, "mode": "all", "nocache": [], "sleep": [0.1, 0.9, 0],
     "opts": dict(NO_OPTS, dup_deps=[2], no_outputs=[1])},
    {"graph": (4, [[0, 3], [1, 3], [2, 3]], "dup-dependency-label"), "workers": 4, "mode": "minimal", "nocache": [], "sleep": [0.7, 0.05, 0.05, 0],
     "opts": dict(NO_OPTS, dup_deps=[3], no_outputs=[0], via_alias=[1])},
    # a target WITHOUT a command whose output check is a command: it needs a worker like every other command
    {"graph": (2, [], "command-less-with-check"), "workers": 1, "mode": "all", "nocache": [], "sleep": [0.8, 0.3],
     "opts": dict(NO_OPTS, check_only=[1])},
    {"graph": (5, [[0, 3], [0, 4]], "command-less-with-check"), "workers": 2, "mode": "all", "nocache": [], "sleep": [0.05, 0.7, 0.7, 0.3, 0.3],
     "opts": dict(NO_OPTS, check_only=[3, 4])},
    # more than 2*num_workers ready targets that each run longer than the 1 s enqueue backstop of the pool
    {"graph": W.g_forest(4), "workers": 1, "mode": "all", "nocache": [], "sleep": [1.25] * 4, "opts": NO_OPTS},
]


def run_cli(ctx):
    quick = ctx.tier == "quick"
    if ctx.grog_binary() is None:
        return
    seeds = [ctx.rng.randrange(1 << 30) for _ in range(8 if quick else 120)]     # the targeted corpus + a few; breadth comes from _cliworld
    results = []
    with cf.ThreadPoolExecutor(max_workers=4) as ex:
        futs = [ex.submit(W.confirmed, cli_case, ctx, 1000 + j, 7 + j, t) for j, t in enumerate(TARGETED_CLI)]     # the slow ones first
        futs += [ex.submit(W.confirmed, cli_case, ctx, i, s) for i, s in enumerate(seeds)]
        for f in futs:
            results.append(f.result())
    count_bad = []
    for r in results:
        for sig, msg in r["bad"]:
            ctx.violation(msg, {"kind": "oracle", "oracle": "CLI command trace", "build": r}, signature=sig)
        for m, (exp, got) in r["model_counts"].items():
            if exp != got:
                count_bad.append((r, m, exp, got))
    ctx.coverage["cli_unconfirmed_oracle_failures"] = [(r.get("mode"), r["unconfirmed"], r.get("unconfirmed_record")) for r in results if r.get("unconfirmed")]
    ctx.coverage["cli_builds"] = len(results)
    ctx.coverage["cli_modes"] = {m: sum(1 for r in results if r["mode"] == m) for m in ("all", "minimal")}
    ctx.coverage["cli_workers"] = {str(w): sum(1 for r in results if r["workers"] == w) for w in (1, 2, 3, 8)}
    ctx.coverage["cli_peak_overlap"] = max([r["peak"] for r in results] or [0])
    ctx.coverage["cli_with_nocache"] = sum(1 for r in results if r["nocache"])
    ctx.coverage["cli_features"] = {k: sum(1 for r in results if r["opts"].get(k)) for k in ("dup_deps", "no_outputs", "check_only", "via_alias")}
    ctx.coverage["cli_rerun_counts_compared"] = sum(len(r["model_counts"]) for r in results)
    if count_bad and not ctx.violations:
        r, m, exp, got = count_bad[0]
        ctx.violation(f"re-run count of no-cache target t{m}: real {got}, model (execCount) {exp}",
                      {"kind": "correspondence", "correspondence": "CLI execution count vs GrogModel.Pool.execCount", "build": r}, found_input=False)


def replay(ctx, rep):
    if "world" in rep:
        return _cliworld.replay(ctx, rep)
    c = rep.get("case")
    if rep.get("build"):
        b = rep["build"]
        r = cli_case(ctx, 0, 1, {"graph": (b["n"], b["edges"], b["family"]), "workers": b["workers"], "mode": b["mode"], "nocache": b["nocache"],
                                 "opts": b.get("opts", NO_OPTS), "sleep": b.get("sleep")})
        print("re-run of the CLI build:", {k: v for k, v in r.items() if k != "out"})
        return 0
    if rep.get("steps") is not None and c:
        bad, info = W.run_steps(ctx, [dict(c)])
        print("onComplete step records disagree with the model:" if bad else "step records agree with the model", [W.describe_step_diff(*b) for b in bad])
        return 0
    if not c:
        print("nothing to replay in this file (see 'kind')")
        return 0
    outs = W.run_impl(ctx, [c])
    print("impl :", outs[0])
    print("oracle:", W.oracle(c, outs[0]))
    print("model:", W.replay_model(ctx, [c], outs)[0])
    return 0
