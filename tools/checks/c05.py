"""C05 — failures are contained (keep-going / fail-fast) and never cached.

Theorem side : GrogModel/Props/C05.lean — keep-going: skipped iff a transitive dependency failed, healthy nodes are
               built; no callback below a failure; fail-fast: an observed failure implies a cancelled walk context,
               under which no command starts; failures write no target result; exit status.
Correspondence: (a) trace inclusion of the real dag.Walker on DAGs with failing subsets, both modes (as C03/C04);
               (b) real CLI histories: generated workspaces, failing subsets with the four failure kinds of the
               property (non-zero exit, timeout, missing declared output, failing output check), keep-going and
               fail-fast, then a second build after the causes are removed (flag files that are not inputs, so
               every cache key is unchanged).
Oracle (no model): build 1 exits non-zero, names exactly the failed targets, runs every target without a failed
               transitive dependency and none below a failure (keep-going); number of target-cache entries = number of
               successes; build 2 executes every previously failed target and every dependant of one and exits 0;
               fail-fast: no command starts later than 1 s after the first failing command ended.
"""
import concurrent.futures as cf
import time
from checks import _walker as W
from checks import _cliworld

PROPERTY = "C05"
LEVEL = "proof"
LEVEL_TEXT = ("Lean 4 theorems over the walker transition system, its composition with the pool tasks, and the build model Exec/Build (all "
              "graphs, failing subsets, schedules, both failure modes): at the end of a keep-going walk a node is skipped iff a transitive "
              "dependency failed and every other node was built; a callback is never entered below a failure; in fail-fast mode every reachable "
              "state of the composition with an observed failure has a cancelled context and no task can start a command; on the build model a "
              "step that leaves its target not ok leaves the cache (results, blobs, taints) unchanged, and in a second build from what the first "
              "one left every target that was not ok is not ok again and - if its dependencies are ok - its command is executed again; exit status "
              "non-zero iff a failure was recorded or Walk returned an error. Tied by trace inclusion (in-process) and by real CLI histories over "
              "two builds.")
LEVEL_NOTE = ("'Observed' failure = onComplete of the failing node; commands that start in the window between the failing process exiting and "
              "onComplete are allowed by the property and by the model, the CLI oracle therefore uses a 1 s slack. After a fail-fast failure a "
              "callback may still be entered and a taken task may still answer from the cache (restore + ok): only command starts are excluded. "
              "exec.CommandContext refusing a cancelled context is trusted. failed_not_cached / tail_failure_kinds / "
              "missing_any_declared_output_fails are case analyses of the classification table Pool.execTail (true by its construction; they "
              "record the order of the stages and which error paths wrap context.Canceled); the statements about the cache are "
              "failed_step_stores_nothing, failed_step_ran and failed_target_is_attempted_again (mode all; mode minimal has the same cache, "
              "verdicts and log by C15). Naming the failed targets in the summary is checked on the CLI only. With a remote cache tier a failed "
              "remote write of the result record can leave the record in the local tier (RemoteWrapper.Set writes both concurrently): the target "
              "is reported failed and the next build on the same machine is a local hit; not modelled, not exercised (no remote in the scenarios). "
              "Atomic write of the target result belongs to C07.")
TECHNIQUE = "Lean 4 invariant proofs over an executable LTS and the build model + trace inclusion + two-build CLI histories with four failure kinds"
OBLIGATIONS = [
    "Grog.C05.keep_going_runs_iff",
    "Grog.C05.no_exec_below_failure",
    "Grog.C05.below_failure_never_started",
    "Grog.C05.fail_fast_trigger",
    "Grog.C05.fail_fast_no_command_start",
    "Grog.C05.fail_fast_no_release",
    "Grog.C05.ctx_stays_cancelled",
    # never cached: the build model
    "Grog.C05.failed_step_stores_nothing",
    "Grog.C05.failed_step_ran",
    "Grog.C05.failed_target_is_attempted_again",
    # the classification table of the task tail (case analyses)
    "Grog.C05.failed_not_cached",
    "Grog.C05.missing_any_declared_output_fails",
    "Grog.C05.tail_failure_kinds",
    "Grog.C05.exit_status",
    "Grog.C05.keep_going_exit_status",
    "Grog.C05.fail_fast_exit_nonzero",
]
ASSUMPTIONS = [
    "selection closed under dependencies and graph acyclic (CfgOK)",
    "exec.CommandContext does not start a process under a cancelled context",
    "the failure causes used by the CLI histories are flag files outside the declared inputs, so cache keys do not change between the two builds",
    "two-build theorem: injective key / commands write what they name (Good), sound initial cache (every cache reachable from the empty one is: "
    "C01.cacheSound_preserved), well-formed order (WF), a single cache tier",
]

KINDS = ["exit", "timeout", "missing", "missing-first", "check"]


def cli_case(ctx, idx, rng_seed):
    import random
    rng = random.Random(rng_seed)
    # small DAGs: every shape the walker distinguishes (chain, diamond, fan, independent) with 4..9 targets
    pick = rng.random()
    if pick < 0.2:
        n, edges, fam = W.g_chain(rng.randint(3, 6))
    elif pick < 0.4:
        n, edges, fam = W.g_diamonds(rng.randint(1, 2))
    elif pick < 0.55:
        n, edges, fam = W.g_fanout(rng.randint(3, 7))
    elif pick < 0.7:
        n, edges, fam = W.g_fanin(rng.randint(3, 7))
    else:
        n, edges, fam = W.g_layered(rng, rng.randint(4, 9), rng.randint(2, 4), 2)
    nf = rng.choice([1, 1, 2, 3])
    failing = sorted(rng.sample(range(n), min(nf, n)))
    kinds = [None] * n
    for f in failing:
        kinds[f] = rng.choice(KINDS)
    ff = rng.random() < 0.4
    workers = rng.choice([1, 2, 4])
    ws = W.CliWs(ctx, f"c05-{idx}", n, edges, kinds=kinds, workers=workers)
    anc = W.ancestors_all(n, edges)
    res = {"n": n, "edges": edges, "family": fam, "failing": failing, "kinds": {f: kinds[f] for f in failing}, "failFast": ff, "workers": workers, "bad": []}
    flags = ("--fail-fast",) if ff else ()
    b1 = ws.build(flags=flags)
    started1 = {m for k, m, _ in b1["trace"] if k == "s"}
    ended1 = {m for k, m, _ in b1["trace"] if k == "e"}
    res["b1"] = {"rc": b1["rc"], "started": sorted(started1), "wall": round(b1["wall"], 2), "failed_labels": W.failed_labels(b1["out"])}
    bad = res["bad"]
    if b1["rc"] == 0:
        bad.append(("failure-exit-zero", "a build with failing targets exited 0"))
    if b1["rc"] not in (0, 1):
        bad.append(("build-crashed", f"build exited {b1['rc']}: {b1['out'][-300:]}"))
    below = {m for m in range(n) if anc[m] & set(failing)}
    if started1 & below:
        bad.append(("executed-below-failure", f"targets {sorted(started1 & below)} ran although a transitive dependency failed"))
    if not ff:
        healthy = set(range(n)) - below
        if healthy - started1:
            bad.append(("healthy-target-not-built", f"targets {sorted(healthy - started1)} have no failed transitive dependency but were not run"))
        exp_failed = sorted(set(failing) - below)
        if res["b1"]["failed_labels"] != exp_failed:
            bad.append(("failed-targets-misreported", f"reported failed {res['b1']['failed_labels']} expected {exp_failed}"))
        succeeded = healthy - set(failing)
        entries = ws.target_cache_entries()
        res["b1"]["cache_entries"] = entries
        if entries != len(succeeded):
            bad.append(("cache-entries-differ-from-successes", f"{entries} target results in the cache after {len(succeeded)} successes (failed targets must leave no entry)"))
    else:
        if not res["b1"]["failed_labels"]:
            bad.append(("failed-targets-misreported", "fail-fast build named no failed target"))
        if not set(res["b1"]["failed_labels"]) <= set(failing):
            bad.append(("failed-targets-misreported", f"fail-fast build named {res['b1']['failed_labels']}, failing were {failing}"))
    # second build: causes removed, keys unchanged
    ws.heal()
    b2 = ws.build()
    started2 = {m for k, m, _ in b2["trace"] if k == "s"}
    res["b2"] = {"rc": b2["rc"], "started": sorted(started2), "wall": round(b2["wall"], 2)}
    if b2["rc"] != 0:
        bad.append(("retry-build-failed", f"the build after removing the failure causes exited {b2['rc']}: {b2['out'][-300:]}"))
    if not ff:
        must = set(failing) - below | below
    else:
        reported = set(res["b1"]["failed_labels"])
        must = reported | {m for m in range(n) if anc[m] & reported}
    if must - started2:
        bad.append(("failed-target-not-retried", f"targets {sorted(must - started2)} failed or were skipped in build 1 but were not executed by build 2 (a failure was cached)"))
    b3 = ws.build()
    if b3["rc"] != 0 or any(k == "s" for k, _, _ in b3["trace"]):
        res["b3"] = {"rc": b3["rc"], "started": sorted({m for k, m, _ in b3["trace"] if k == "s"})}
    if bad:
        res["out1"] = b1["out"][-4000:]
        res["trace1"] = [(k, m) for k, m, _ in b1["trace"]]
        res["out2"] = b2["out"][-800:]
    ws.cleanup()
    return res


def cli_case_confirmed(ctx, idx, seed):
    """a failing history is run a second time in a fresh workspace; only oracle failures that repeat are reported (the
    history is deterministic up to scheduling; what does not repeat is counted in the evidence as unconfirmed)"""
    r = cli_case(ctx, idx, seed)
    if r["bad"]:
        r2 = cli_case(ctx, idx + 5000, seed)
        sigs2 = {sig for sig, _ in r2["bad"]}
        r["first_attempt_bad"] = [sig for sig, _ in r["bad"]]
        r["unconfirmed"] = [sig for sig, _ in r["bad"] if sig not in sigs2]
        r["bad"] = [(sig, msg) for sig, msg in r["bad"] if sig in sigs2]
        if r["unconfirmed"]:
            r["unconfirmed_out1"] = r.get("out1")
    return r


def ff_timing_case(ctx, idx, workers):
    # 4 failing and 24 slow independent targets: the order in which the pool takes them is random, the first failing one
    # is reached early with high probability; without fail-fast cancellation the remaining sleepers keep starting for seconds
    nfail, nslow = 4, 24
    n = nfail + nslow
    kinds = ["exit"] * nfail + [None] * nslow
    sleep = [0] * nfail + [0.25] * nslow
    ws = W.CliWs(ctx, f"c05-ff-{idx}", n, [], kinds=kinds, sleep=sleep, workers=workers)
    b = ws.build(flags=("--fail-fast",))
    tr = b["trace"]
    res = {"n": n, "family": "ff-timing", "workers": workers, "rc": b["rc"], "wall": round(b["wall"], 2), "bad": []}
    s0 = sorted(t for k, m, t in tr if k == "s" and m < nfail)
    if b["rc"] == 0:
        res["bad"].append(("failure-exit-zero", "fail-fast build with a failing target exited 0"))
    if s0:
        late = [(m, round((t - s0[0]) / 1e9, 2)) for k, m, t in tr if k == "s" and t > s0[0] + 1.0e9]
        res["late_starts"] = late
        res["first_failure_after_s"] = round((s0[0] - min(t for _, _, t in tr)) / 1e9, 2)
        if late:
            res["bad"].append(("command-started-after-fail-fast", f"commands started {late[:6]} s after the first failing command (slack 1 s)"))
    res["started"] = sorted({m for k, m, _ in tr if k == "s"})
    if res["bad"]:
        res["out"] = b["out"][-1200:]
    ws.cleanup()
    return res


def ff_queue_case(ctx, idx, workers=1, seed=0):
    """fail-fast with more ready targets than workers: f runs 0.5 s and fails; r is quick; q1..q6 depend on r; a random majority of the
    bystanders (r, q*) declares a generous `timeout:` (the attribute changes which context their command runs under). Whatever
    order the pool picks, something is queued behind f when it fails: every command start after f's failure is a target started
    after the first failure. The property (and the model) allow a start in the window between the failing process exiting and
    onComplete, so one late start proves nothing: the scenario is repeated until three runs show late starts (reported) or three
    runs show none."""
    import random
    rng = random.Random(seed)
    n = 8
    edges = [[1, m] for m in range(2, 8)]
    kinds = ["exit-logged"] + [None] * 7
    sleep = [0.5, 0] + [0.1] * 6
    timeouts = {m: rng.choice(["20s", "120s", "1h"]) for m in range(1, 8) if rng.random() < 0.8}
    runs, hits, misses = [], 0, 0
    for attempt in range(5):
        ws = W.CliWs(ctx, f"c05-ffq-{idx}-{attempt}", n, edges, kinds=kinds, sleep=sleep, workers=workers, timeouts=timeouts)
        b = ws.build(flags=("--fail-fast",))
        time.sleep(0.6)                      # commands started by a dying grog survive as orphans: let them log
        tr = b["trace"] + ws.read_trace()
        failed_at = [t for k, m, t in tr if k == "e" and m == 0]
        late = sorted((m, round((t - failed_at[0]) / 1e9, 3)) for k, m, t in tr if failed_at and k == "s" and m != 0 and t > failed_at[0])
        runs.append({"rc": b["rc"], "late_starts": late, "f_ran": bool(failed_at)})
        ws.cleanup()
        hits += bool(late)
        misses += not late
        if hits >= 3 or misses >= 3:
            break
    res = {"n": n, "edges": edges, "family": "ff-queue", "workers": workers, "failFast": True, "timeouts": timeouts, "runs": runs, "bad": []}
    if any(r["rc"] == 0 for r in runs):
        res["bad"].append(("failure-exit-zero", "fail-fast build with a failing target exited 0"))
    if hits >= 3:
        res["bad"].append(("target-started-after-first-failure",
                           f"--fail-fast, num_workers={workers}, timeouts on {sorted(timeouts)}: in {hits} of {len(runs)} runs commands started after the "
                           f"failing command had failed: {[r['late_starts'] for r in runs]}"))
    return res


def run(ctx):
    quick = ctx.tier == "quick"
    rng = ctx.rng
    # ---- (a) in-process walker traces with failures ---------------------------------------------
    ncases = 220 if quick else 3000
    cases = []
    for k in (1, 2, 64, 128):
        # failing node with zero / one / many dependants
        n, e, fam = W.g_fanout(k + 1)
        for ff in (False, True):
            c = W.make_case(rng, family=(n, e, fam), workers=0, fail_fast=ff)
            c.update(fail=[0], unsel=[])
            cases.append(c)
            c = W.make_case(rng, family=(n, e, fam), workers=2, fail_fast=ff)
            c.update(fail=[n - 1], unsel=[])
            cases.append(c)
    while len(cases) < ncases:
        c = W.make_case(rng, maxn=80)
        if not c["fail"]:
            c["fail"] = [rng.randrange(c["n"])]
            if W.path_count(c["n"], c["edges"], c["fail"][0]) > 20000:
                c["fail"] = []
        cases.append(c)
    outs = W.run_impl(ctx, cases)
    if outs is None:
        return
    reps = W.replay_model(ctx, cases, outs)
    oracle_fail, disagreements = 0, []
    for c, o, r in zip(cases, outs, reps):
        for prop, sig, msg in W.oracle(c, o):
            if prop == "C05":
                oracle_fail += 1
                ctx.violation(msg, {"kind": "oracle", "case": c, "impl": o}, signature=sig)
        if not r.get("ok") and not o.get("crash") and not o.get("hang") and "error" not in o:
            disagreements.append((c, o, r))
        elif r.get("ok") and o.get("err") == "none" and "ret" != "" and not any(e[0] == "c" for e in o.get("trace", [])):
            # exit status predicted by the model's tail of RunBuild vs the real completion map
            real_nonzero = any(not s for _, s in o.get("completions", []))
            if r.get("exitNonZero") != real_nonzero and not c["failFast"]:
                disagreements.append((c, o, dict(r, why="exit status of the model differs from the real completion map")))
    ctx.coverage["walker_cases"] = len(cases)
    ctx.coverage["walker_fail_fast"] = sum(1 for c in cases if c["failFast"])
    ctx.coverage["traces_validated_against_impl"] = len(cases)
    ctx.coverage["trace_events_replayed"] = sum(len(o.get("trace", [])) for o in outs)
    # ---- (a2) step-level correspondence of onComplete ------------------------------------------------
    scases = []
    for _ in range(150 if quick else 2000):
        c = W.make_case(rng, maxn=40, workers=0)
        c["unsel"] = c["unsel"] if rng.random() < 0.3 else []
        if not c["fail"] and rng.random() < 0.7:
            c["fail"] = [rng.randrange(c["n"])]
            if W.path_count(c["n"], c["edges"], c["fail"][0]) > 20000:
                c["fail"] = []
        scases.append(c)
    for a, b in ((2, 1), (3, 4), (8, 8)):
        for ff in (False, True):
            n, e, fam = W.g_bipartite(a, b)
            c = W.make_case(rng, family=(n, e, fam), workers=0, fail_fast=ff)
            c.update(fail=[0], unsel=[])
            scases.append(c)
    sbad, sinfo = W.run_steps(ctx, scases)
    if not sinfo["built"]:
        ctx.harness_broken("go test of the onComplete step harness failed to build/run against the current tree", sinfo["raw"])
    ctx.coverage["oncomplete_step_cases"] = sinfo["n"]
    ctx.coverage["oncomplete_steps_compared"] = sinfo["steps"]
    ctx.coverage["oncomplete_step_disagreements"] = len(sbad)
    for c, real, m, k in sbad[:1]:
        orc = W.step_oracle(c, real)
        if orc:
            for prop, sig, msg in orc:
                ctx.violation(msg, {"kind": "oracle", "oracle": "onComplete step records", "case": c, "steps": real}, signature=sig)
        else:
            ctx.violation("onComplete of the real walker and the model's `complete` event disagree: " + W.describe_step_diff(c, real, m, k),
                          {"kind": "correspondence", "correspondence": "TestVerifOnCompleteSteps vs walker.steps", "case": c, "steps": real,
                           "model": m}, found_input=False)
    # ---- (b) CLI histories --------------------------------------------------------------------------
    if ctx.grog_binary() is None:
        return
    nh = 12 if quick else 200      # corpus-style histories; breadth comes from _cliworld
    seeds = [rng.randrange(1 << 30) for _ in range(nh)]
    results = []
    with cf.ThreadPoolExecutor(max_workers=4) as ex:
        futs = [ex.submit(cli_case_confirmed, ctx, i, s) for i, s in enumerate(seeds)]
        futs += [ex.submit(W.confirmed, ff_timing_case, ctx, i, w) for i, w in enumerate((1, 2) if quick else (1, 2, 3, 4))]
        futs += [ex.submit(ff_queue_case, ctx, i, 1 + i % 2, rng.randrange(1 << 30)) for i in range(2 if quick else 8)]
        for f in futs:
            results.append(f.result())
    kinds_seen, fams = {}, {}
    for r in results:
        fams[r["family"]] = fams.get(r["family"], 0) + 1
        for k in (r.get("kinds") or {}).values():
            kinds_seen[k] = kinds_seen.get(k, 0) + 1
        for sig, msg in r["bad"]:
            oracle_fail += 1
            ctx.violation(msg, {"kind": "oracle", "oracle": "CLI two-build history", "history": r}, signature=sig)
    ctx.coverage["cli_histories"] = len(results)
    ctx.coverage["cli_unconfirmed_oracle_failures"] = [(r["family"], r["unconfirmed"]) for r in results if r.get("unconfirmed")]
    for r in results:
        if r.get("unconfirmed"):
            ctx.notes.append(f"unconfirmed (not repeated) oracle failure {r['unconfirmed']} in a {r['family']} history: {str(r.get('b1'))[:200]}")
    ctx.coverage["cli_builds"] = sum(3 if "b1" in r else 1 for r in results)
    ctx.coverage["cli_failure_kinds"] = kinds_seen
    ctx.coverage["cli_families"] = fams
    ctx.coverage["cli_fail_fast"] = sum(1 for r in results if r.get("failFast") or r["family"] == "ff-timing")
    ctx.coverage["evaluations"] = len(cases) + len(results)
    ctx.coverage["distinct_nontrivial"] = len({(c["family"], c["n"], c["failFast"], len(c["fail"])) for c in cases if c["fail"]}) + \
        len({(r["family"], r["n"], r.get("failFast"), tuple(sorted((r.get("kinds") or {}).values()))) for r in results})
    ctx.coverage["rule"] = (f"{len(cases)} in-process walks with >=1 failing node (fan-out 1/2/64/128 with failing root or leaf, random DAGs, both modes, pools) "
                            f"replayed through the model + {len(results)} CLI histories of 3 builds (4..9 targets, 1..3 failing with kinds exit/timeout/"
                            "missing-output/missing-first-of-two-outputs/check, keep-going and fail-fast, 1/2/4 workers; a failing history is repeated once) + fail-fast timing runs + fail-fast one-worker queue runs; non-trivial = distinct "
                            "(family,n,mode,#fail / failure kinds)")
    # ---- (c) broad randomized CLI worlds (shared generator; the C05-owned oracles are reported here) ----
    wres, wcov = _cliworld.run_worlds(ctx, 30 if quick else 300, "C05")
    _cliworld.report(ctx, wres, wcov, "C05")
    ctx.coverage["oracle_failures"] = oracle_fail
    ctx.coverage["disagreements"] = len(disagreements)
    for r in results[:3]:
        ctx.sample({k: v for k, v in r.items() if k in ("n", "family", "failing", "kinds", "failFast", "b1", "b2")})
    if disagreements and not ctx.violations:
        c, o, r = min(disagreements, key=lambda t: t[0]["n"])
        ctx.violation("a trace of the real walker is not a run of the model: " + str(r.get("why", r)),
                      {"kind": "correspondence", "correspondence": "walker.run trace vs GrogModel.Walker.step", "case": c, "impl": o,
                       "model": {k: v for k, v in r.items() if k not in ("phases", "snap")}}, found_input=False)


def replay(ctx, rep):
    if "world" in rep:
        return _cliworld.replay(ctx, rep)
    if "case" in rep:
        c = rep["case"]
        outs = W.run_impl(ctx, [c])
        print("impl :", outs[0])
        print("oracle:", W.oracle(c, outs[0]))
        print("model:", W.replay_model(ctx, [c], outs)[0])
    elif "history" in rep:
        h = rep["history"]
        print("history to re-run by hand: n=%s edges=%s failing=%s kinds=%s failFast=%s workers=%s" % (
            h.get("n"), h.get("edges"), h.get("failing"), h.get("kinds"), h.get("failFast"), h.get("workers")))
    return 0
