"""C14 — success implies postconditions: exit 0 within the timeout, outputs exist, checks pass.

Theorem side : GrogModel/Props/C14.lean.
Correspondence: histories in which the checked external condition is established (by the command or from outside), cached,
               destroyed / spoiled; commands that exit non-zero, exceed their timeout or stop writing a declared output;
               checks with and without expected_output — real CLI vs model (exit class, executed multiset, bytes).
Oracles (no model): after a successful build every declared output of every selected target exists and every output check of
               every selected target holds on the workspace; a selected target whose check failed before the build was executed;
               a command that exits non-zero / times out makes the build fail.
"""
import os
from checks import _hist as H
from checks import _hist2 as H2

PROPERTY = "C14"
LEVEL = "proof"
LEVEL_TEXT = ("Lean 4 theorems for all states of the per-target decision model: a target is marked successful (and a result is stored) "
              "only if its command returned exit 0, every declared output exists and every check holds in the post-state; a check that "
              "fails before the decision excludes the hit branch; checks still failing after execution fail the target and nothing is "
              "stored. Lifted to whole builds from an ARBITRARY world (hence after any history): if a mode-all build over a well-formed order "
              "succeeds, then in the workspace it leaves every declared output of every selected target exists and every check passes, and "
              "each target either ran with exit 0 or was restored from a result naming exactly its declared outputs (success_post_build, "
              "success_post_history); under load_outputs=minimal the build succeeds iff the mode-all build of the lock-step universe does, "
              "and every declared output is in the workspace with the same bytes or restorable from the cache with all blobs present "
              "(success_post_minimal). Regression witness for the old hit gate that ignored the pre-check. Tied by history correspondence with the real "
              "CLI (real exit codes, real 300 ms timeouts against `sleep 3`).")
LEVEL_NOTE = ("Timeouts are real time on the real side (300 ms limit vs 3 s sleep) and a behaviour flag in the model. "
              "A declared output that the command does not write but that is present from earlier counts as existing (as in the code). "
              "Extra hypotheses, named in the statements: ChecksOffOutputs / WF.checksOff — the files an output check inspects are not "
              "declared outputs of a selected target (on the hit path the pre-check reads the pre-restore workspace; `test -s <own output>` is "
              "outside the theorems and inside the generators: family depchecks checks a dependency's output); checks are modelled as "
              "'file exists [with content]', the family the generators use (test -f / cat + expected_output in several shell forms), not "
              "arbitrary shell; timeout, non-zero exit and failure to start are all exit0 = false of the abstract command; a failed command "
              "leaves the workspace untouched in the model (generated failing commands fail before their first write); still_failing_fails "
              "needs the check to fail before as well (the other case is the contrapositive of success_post). 'fails the build' is C05. The "
              "build-level theorems need Good (commands hermetic and complete) for the frame of later steps; success_post_minimal needs "
              "C15's hypotheses (well-formed builds, no lost blobs).")
TECHNIQUE = "Lean 4 proof over an executable model + history correspondence with the real CLI + postcondition oracles"
OBLIGATIONS = [
    "Grog.C14.success_post",
    "Grog.C14.stored_only_on_success",
    "Grog.C14.failing_check_forces_exec",
    "Grog.C14.failing_check_executes",
    "Grog.C14.still_failing_fails",
    "Grog.C14.post_failing_fails",
    "Grog.C14.old_gate_witness",
    "Grog.C14.success_post_build",
    "Grog.C14.success_post_history",
    "Grog.C14.success_post_minimal",
]
ASSUMPTIONS = [
    "an output check is `test -f F` or `cat F` with expected_output; in the theorems F lies outside the declared outputs of the selected targets (family depchecks generates checks on dependency outputs)",
    "builds are atomic per-target steps",
]

FAMILIES_QUICK = [("checks", 28, {}), ("checks", 11, {"minimal": True}), ("depchecks", 3, {}), ("depchecks", 3, {"minimal": True})]
FAMILIES_THOROUGH = [("checks", 420, {}), ("checks", 165, {"minimal": True}), ("depchecks", 45, {}), ("depchecks", 45, {"minimal": True})]

# round-c families (generators in _hist2.py)
FAMILIES2_QUICK = [("post", 8, {}), ("post", 2, {"minimal": True}),
                   # round d (appended, so that the histories of the families above stay what they were)
                   ("overrun", 3, {}), ("overrun", 1, {"minimal": True}), ("selfcheck", 4, {})]
GEN2 = {"post": H2.gen_post, "overrun": H2.gen_overrun, "selfcheck": H2.gen_selfcheck}


def run(ctx):
    quick = ctx.tier == "quick"
    fams = FAMILIES_QUICK if quick else FAMILIES_THOROUGH
    hists = []
    if os.environ.get("VERIF_DEV_ONLY_NEW"):
        fams = []       # development only: run just the round-c families
    for fam, n, kw in fams:
        for _ in range(n):
            hists.append(H.gen_history(ctx.rng, fam, **kw))
    for fam, n, kw in FAMILIES2_QUICK:
        for _ in range(n if quick else n * 15):
            hists.append(GEN2[fam](ctx.rng, **kw))
    ctx.coverage["rule"] = ("layered DAGs of 2-6 targets, 60% of them with an output check (`test -f ext/T.flag` or `cat` + expected_output), "
                            "the condition established by the target's own command or from outside; edits: destroy / establish / spoil the "
                            "condition, add / remove checks, command exits non-zero / exceeds its 300ms timeout / stops writing an output, "
                            "content and command changes; 1-3 checks per target mixing exit-status-only and expected_output checks in every order; outputs "
                            "missing first / middle / last incl. dir:: outputs that were never created; scripted cycle condition destroyed -> failing run -> "
                            "condition re-established from outside; round-d families overrun (a command that overruns its 300ms timeout and exits 0 on SIGTERM, run because of an edit / a taint / no-cache) "
                            "and selfcheck (output checks `test -f <own declared output>`; the output is deleted after it was cached); round-c family post (x10 quick, 2 of them minimal): multi-line expected_output, the checked state gains an "
                            "extra line (from outside or written by the target's own command), a command that overwrites the state its own check tests while it runs for "
                            "another reason (edited, tainted, no-cache) with the checks passing beforehand, a no-cache target nobody depends on that stops creating a "
                            "declared output; non-trivial = distinct history with >=2 builds, one executing and one with a hit")
    recs = H.run_both(ctx, hists, "c14")
    if recs is None:
        return
    st = H.stats(recs)
    ctx.coverage.update({k: v for k, v in st.items() if k != "distinct_nontrivial"})
    ctx.coverage["evaluations"] = st["builds"]
    ctx.coverage["distinct_nontrivial"] = st["distinct_nontrivial"]
    ctx.coverage["traces_validated_against_impl"] = sum(1 for r in recs if r["model"] is not None)
    for r in recs[:2] + recs[-1:]:
        ctx.sample(H.sample_of(r))
    cnt = {"successful_builds_checked": 0, "failing_prechecks": 0, "failing_commands_selected": 0, "oracle_failures": 0}

    def fail(what, h, b, sig, **kw):
        cnt["oracle_failures"] += 1
        small = H.truncate(h, b["n"] + 1)
        ctx.violation(what, dict({"kind": "oracle", "history": small, "described": H.describe(small), "build": b["n"],
                                  "executed": b["obs"]["executed"]}, **kw), signature=sig)
    for r in recs:
        h = r["hist"]
        good = set()        # (label, state) pairs for which a successful execution has been observed in this history
        for b in H.walk(h, r["real"]):
            o, ws, s = b["obs"], b["ws"], b["step"]
            sel = H.selected(ws, s["patterns"])
            ex = set(o["executed"])
            # "cached only if ...": a dependency-free target that is served from the cache must have been seen succeeding in
            # exactly this state (command, input contents, outputs, fingerprint) earlier in the history
            for l in sel:
                t = ws["targets"][l]
                if H.rdeps(ws, l) or t.get("nocache") or s.get("minimal") or not s.get("enable_cache", True):
                    continue
                st = H.state_key(ws, l)
                post_ok = (t.get("beh", 0) == 0 and all(H.check_holds(c, o["fs"]) for c in t.get("checks", []))
                           and all(o["fs"].get(H.out_path(t, op)) is not None for op in H.all_outs(t)))
                if s.get("fail_fast") and not o["ok"]:
                    continue
                # (keep-going: a selected target without dependencies is always reached, so "not executed" means "served from the cache")
                if l not in ex and (l, st) not in good:
                    cnt["hits_judged"] = cnt.get("hits_judged", 0) + 1
                    fail("a target was served from the cache in a state in which it never executed successfully (a result was cached "
                         "although a postcondition failed)", h, b, "hit-without-successful-execution", target=l)
                if l in ex and post_ok:
                    good.add((l, st))
            if o["ok"]:
                cnt["successful_builds_checked"] += 1
                for l in sel:
                    t = ws["targets"][l]
                    for op in H.all_outs(t):
                        if not s.get("minimal") and o["fs"].get(H.out_path(t, op)) is None:
                            fail("build succeeded but a declared output of a selected target does not exist", h, b, "success-with-missing-output",
                                 target=l, path=H.out_path(t, op))
                    for c in t.get("checks", []):
                        if not H.check_holds(c, o["fs"]):
                            fail("build succeeded although an output check of a selected target fails on the resulting workspace", h, b,
                                 "success-with-failing-check", target=l, check=c)
                    if t.get("beh", 0) != 0 and l in ex:
                        fail("build succeeded although a selected command exited non-zero / exceeded its timeout", h, b,
                             "success-with-failing-command", target=l)
            # checks that look at the target's own declared output (family selfcheck): in a successful build every selected target
            # was reached, so a failing pre-check must have forced the execution whatever the cache could have restored
            if "selfcheck" in h.get("tags", []) and o["ok"]:
                for l in sel:
                    t = ws["targets"][l]
                    if H.rdeps(ws, l) and t.get("checks") and any(not H.check_holds(c, o["pre"]) for c in t["checks"]):
                        cnt["failing_prechecks"] += 1
                        if l not in ex:
                            fail("an output check (it looks at the target's own output) failed before the build but the target was not executed",
                                 h, b, "failing-check-did-not-force-execution", target=l)
            # failing pre-check forces execution (when the target is reached: all its dependencies' subtrees executed fine is
            # not observable here, so only targets without dependencies are judged)
            def made_by_another_selected_target(l, c):
                # the file a check looks at is a declared output of ANOTHER target of this build (e.g. of a former dependency whose edge an
                # edit removed): that target may restore or write it before or after this target's check runs — the two are unordered —
                # so the state "before the build" does not tell what the check saw
                f = c.get("flag")
                if not f:
                    return False
                for m in sel:
                    if m == l:
                        continue
                    for op in H.all_outs(ws["targets"][m]):
                        q = H.out_path(ws["targets"][m], op)
                        if f == q or f.startswith(q.rstrip("/") + "/"):
                            return True
                return False
            for l in sel:
                t = ws["targets"][l]
                if t.get("checks") and not H.rdeps(ws, l) and any(not H.check_holds(c, o["pre"]) and not made_by_another_selected_target(l, c) for c in t["checks"]):
                    cnt["failing_prechecks"] += 1
                    if l not in ex:
                        fail("an output check failed before the build but the target was not executed", h, b,
                             "failing-check-did-not-force-execution", target=l)
                if t.get("beh", 0) != 0:
                    cnt["failing_commands_selected"] += 1
    ctx.coverage.update(cnt)
    bad = [r for r in recs if r["diffs"]]
    ctx.coverage["disagreements"] = len(bad)
    if bad and not any(found for _, found in ctx.violations):
        r = min(bad, key=lambda x: len(x["hist"]["steps"]))
        small = H.truncate(r["hist"], r["diffs"][0][0] + 1) if r["diffs"][0][0] >= 0 else r["hist"]
        H.report_disagreement(ctx, dict(r, hist=small), "output-check / failing-command histories vs GrogModel.Build.runHistory")


def replay(ctx, rep):
    return H.replay_history(ctx, rep)
