"""Shared helpers of the C10 / C16 checks (group `lockload`): package-definition generator, renderers to
JSON / YAML / Starlark / Makefile annotations / script annotations, byte-level corruptions, and a driver
runner that survives crashes of the implementation driver."""
import json, os, sys
sys.path.insert(0, os.path.dirname(os.path.dirname(os.path.abspath(__file__))))
import vlib


# ----------------------------------------------------------------------------------------------
# resilient driver runs
# ----------------------------------------------------------------------------------------------

def _drive(binary, reqs, timeout):
    """one driver process over reqs -> (decoded replies, full stderr, exit status)"""
    import subprocess
    data = "".join(json.dumps(r, ensure_ascii=True) + "\n" for r in reqs)
    try:
        p = subprocess.run([binary], input=data, capture_output=True, text=True, timeout=timeout)
        out, err, rc = p.stdout, p.stderr, p.returncode
    except subprocess.TimeoutExpired as e:
        out = e.stdout if isinstance(e.stdout, str) else (e.stdout or b"").decode(errors="replace")
        err, rc = "driver timed out", -1
    res = []
    for line in out.split("\n"):
        line = line.strip(" \r\t")
        if line:
            try:
                res.append(json.loads(line))
            except Exception:
                res.append({"error": "unparsable reply", "raw": line[:200]})
    return res, err, rc


def run_resilient(ctx, reqs, chunk=400, timeout=1800):
    """Like ctx.impl, but a request that kills the driver process (a panic in a goroutine the driver
    cannot recover, a runtime fatal error) is answered {"crash": <panic line + stderr tail>} and the remaining
    requests are run in a fresh driver."""
    import re
    b = ctx.impl_binary()
    if not b:
        return None
    out = []
    i = 0
    while i < len(reqs):
        part = reqs[i:i + chunk]
        res, err, rc = _drive(b, part, timeout)
        if len(res) >= len(part):
            out += res[:len(part)]
            i += len(part)
            continue
        m = re.search(r"^(panic: .*|fatal error: .*)$", err, re.M)
        out += res
        out.append({"crash": ((m.group(1) + "\n...\n") if m else "") + (err[-1200:] or f"driver exited with status {rc} without output")})
        i += len(res) + 1
    return out


# ----------------------------------------------------------------------------------------------
# generator of package definitions (the format-independent DTO, as the model's JSON)
# ----------------------------------------------------------------------------------------------

# incl. a semantic dictionary: names equal to keywords / field names / YAML specials, case variants, *_test
NAMES = ["a", "b", "c", "lib", "app", "gen_x", "t-1", "x.y", "test", "build_all", "Z9", "all", "name", "targets", "x_test", "true", "null",
         "123", "NAME", "Name", "no", "1e3", "command"]
FILES = ["a.txt", "b.txt", "c.md", "src/x.go", "src/y.go", "src/deep/z.go", ".hidden", "README"]
GLOBS = ["*.txt", "**/*.go", "src/*.go", "*", "**/*", "nomatch*", "src/**", "[ab].txt", "{a,c}.*", "?.txt"]
BAD_GLOBS = ["[", "a[", "{a,b", "[]a]"]
# names `validateName` rejects: a loaded label must be printable and parsable again
BAD_NAMES = ["a b", "x:y", "a/b", "...", "", "q?", "star*", "semi;colon", "'q'", "a\\b", "tab\tname", " a", "a ", "a\nb", "@a", "a,b", "//a", ":a"]
PKGS = ["", "p", "p/q", "lib", "x-y", "p2", "pq", "lib/x"]


def gen_label(rng, names, bad=0.03):
    r = rng.random()
    if r < bad:
        return rng.choice(["", "foo", "//", "//p:", ":", "//a:b:c", ":a b", "//p/...", "/x:y", "//p:..."])
    n = rng.choice(names)
    if r < 0.4:
        return ":" + n
    if r < 0.5:
        return "//" + rng.choice(["p", "lib/x", "p/q"])          # shorthand
    return "//" + rng.choice(PKGS) + ":" + n


def gen_kv(rng, keys):
    n = rng.choice([0, 0, 1, 2, 3])
    ks = rng.sample(keys, min(n, len(keys)))
    return sorted([k, rng.choice(["1", "", "v", "x y", "a=b", "true", "v\n", " v", "a\tb", "l1\nl2", "null", "0"])] for k in ks)


# commands whose exact bytes matter: line breaks at either end, several lines, tabs, trailing blanks, CRLF, quotes
COMMANDS = ["a\nb\n", "set -e\nmake all\n", "\necho x", "echo x  ", "\techo x", "echo a\r\necho b\r\n", "echo x\n\n", "echo x\n\n\n",
            "if true; then\n  echo y\nfi", " echo lead", "echo 'q' \"d\" \\ back", "", "# not a comment", "echo x\n", "x\n \n", "a\n\nb",
            "echo {a,b} $HOME `id` | cat > out", "true # c", "- dash", "key: value", "yes", "null", "123", "[x]", "{x}", "a: b\n", "|", ">", "%x", "@x", "&a", "*a",
            "!tag", "'single", "\"double", "x #", "\\n"]


def gen_command(rng, name):
    return rng.choice(COMMANDS) if rng.random() < 0.3 else "echo " + name


def gen_target(rng, name, names, mk=False, faults=True):
    """One target DTO. mk=True restricts to what a Makefile annotation can express."""
    f = (lambda p: rng.random() < p) if faults else (lambda p: False)
    t = {"name": name, "command": gen_command(rng, name), "deps": [], "inputs": [], "excludes": [], "outputs": [],
         "bin_output": "", "checks": [], "tags": [], "fingerprint": [], "env": [], "platforms": None, "timeout": ""}
    t["deps"] = [gen_label(rng, names, 0.03 if faults else 0) for _ in range(rng.choice([0, 0, 1, 2, 3]))]
    ins = []
    for _ in range(rng.choice([0, 1, 2, 3])):
        r = rng.random()
        if r < 0.5:
            ins.append(rng.choice(FILES + ["missing.txt"]))
        elif f(0.04):
            ins.append(rng.choice(BAD_GLOBS))
        else:
            ins.append(rng.choice(GLOBS))
    t["inputs"] = ins
    outs = []
    for _ in range(rng.choice([0, 0, 1, 2])):
        r = rng.random()
        if r < 0.6:
            outs.append("out/" + rng.choice(NAMES) + ".bin")
        elif r < 0.8:
            outs.append("dir::dist/" + rng.choice(NAMES))
        elif r < 0.9:
            outs.append("docker::img-" + rng.choice(NAMES))
        elif f(0.7):
            outs.append(rng.choice(["bogus::x", "::x", "file::", "dir::a::b", "FILE::x"]))
        else:
            outs.append("file::plain")
    t["outputs"] = outs
    t["tags"] = rng.sample(["no-cache", "testonly", "slow", "multiplatform-cache"], rng.choice([0, 0, 1, 2]))
    t["fingerprint"] = gen_kv(rng, ["arch", "os", "k", "v1"])
    t["env"] = gen_kv(rng, ["FOO", "BAR", "PATH_X"])
    t["platforms"] = rng.choice([None, None, [], ["linux/amd64"], ["darwin/arm64", "linux/arm64"]])
    r = rng.random()
    if r < 0.3:
        t["timeout"] = rng.choice(["5s", "1m30s", "2h", "150ms", "1.5s", "0", "0s", "1h", "1h0m0s", "+5s", "1us", "2562047h"])
    elif f(0.03):
        t["timeout"] = rng.choice(["5", "abc", "1d", "-", "s"])
    if mk:
        t["command"] = "make " + name
        return t
    if rng.random() < 0.3:
        t["excludes"] = [rng.choice(GLOBS + FILES) for _ in range(rng.choice([1, 2]))]
        if f(0.05):
            t["excludes"].append(rng.choice(BAD_GLOBS))
    r = rng.random()
    if r < 0.15:
        t["bin_output"] = "bin/" + name
    elif f(0.08):
        t["bin_output"] = rng.choice(["dir::bin", "docker::x", "nope::x", "file::bin/x"])
    if rng.random() < 0.15:
        t["checks"] = [[rng.choice(["test -f x", "true"]), rng.choice(["", "ok"])] for _ in range(rng.choice([1, 2]))]
    return t


def gen_package(rng, mk=False, faults=True, max_targets=4, pool=None):
    pool = pool or NAMES
    n = min(rng.choice([0, 1, 1, 2, 2, 3, max_targets]), max(0, len(pool) - 1))
    names = rng.sample(pool, min(n + 2, len(pool)))
    tnames = names[:n]
    if faults and n >= 2 and rng.random() < 0.06:
        tnames[1] = tnames[0]                       # duplicate target label
    dto = {"targets": [gen_target(rng, nm, names, mk=mk, faults=faults) for nm in tnames], "aliases": [],
           "default_platforms": None}
    if not mk:
        for _ in range(rng.choice([0, 0, 0, 1, 2])):
            an = rng.choice(names[n:] + (tnames[:1] if faults and rng.random() < 0.08 else []) or ["al"])
            dto["aliases"].append({"name": an, "actual": gen_label(rng, names, 0.03 if faults else 0)})
    if faults and dto["targets"] and rng.random() < 0.08:
        # a name that cannot be written as a label (the command, i.e. the make goal, stays as it is)
        bad = rng.choice([b for b in BAD_NAMES if not (mk and b == "")])
        if dto["aliases"] and rng.random() < 0.4:
            rng.choice([a for a in dto["aliases"]])["name"] = bad
        else:
            rng.choice(dto["targets"])["name"] = bad
    if faults and not mk and rng.random() < 0.05:
        # a null list entry (JSON null / YAML ~): expressible in JSON and YAML only
        if dto["targets"] and rng.random() < 0.6:
            dto["targets"].insert(rng.randrange(len(dto["targets"]) + 1), None)
        else:
            dto["aliases"].insert(rng.randrange(len(dto["aliases"]) + 1), None)
    return dto


def has_null(dto):
    return any(t is None for t in dto["targets"]) or any(a is None for a in dto["aliases"])


# ----------------------------------------------------------------------------------------------
# renderers
# ----------------------------------------------------------------------------------------------

def q(s):
    return json.dumps(s)


def _tjson(t, explicit_empty=False):
    """explicit_empty: write empty lists / maps out (`"inputs": []`) instead of omitting them — must not matter
    (except for platforms, where the DTO itself distinguishes absent from empty)"""
    if t is None:
        return None
    o = {"name": t["name"], "command": t["command"]}
    for k, jk in (("deps", "dependencies"), ("inputs", "inputs"), ("excludes", "exclude_inputs"), ("outputs", "outputs"), ("tags", "tags")):
        if t[k] or explicit_empty:
            o[jk] = t[k]
    if t["bin_output"]:
        o["bin_output"] = t["bin_output"]
    if t["checks"]:
        o["output_checks"] = [dict([("command", c)] + ([("expected_output", e)] if e else [])) for c, e in t["checks"]]
    if t["fingerprint"]:
        o["fingerprint"] = dict(t["fingerprint"])
    if t["env"]:
        o["environment_variables"] = dict(t["env"])
    if t["platforms"] is not None:
        o["platforms"] = t["platforms"]
    if t["timeout"]:
        o["timeout"] = t["timeout"]
    return o


def render_json(dto, rng=None):
    ee = bool(rng) and rng.random() < 0.25
    o = {"targets": [_tjson(t, ee) for t in dto["targets"]]}
    if dto["aliases"]:
        o["aliases"] = dto["aliases"]
    if dto["default_platforms"] is not None:
        o["default_platforms"] = dto["default_platforms"]
    return json.dumps(o, indent=rng.choice([None, 1, 2]) if rng else 1)


class Block(str):
    """a string to be written as a YAML literal block scalar (`|`, `|-`, `|+`)"""


def block_ok(s):
    body = s.rstrip("\n")
    return bool(body) and "\r" not in s and all(not l.startswith((" ", "\t")) and l == l.rstrip() for l in body.split("\n")) \
        and body.split("\n")[0] != ""


def _block_lines(key_prefix, s, ind):
    body = s.rstrip("\n")
    trailing = len(s) - len(body)
    ind_ = " " * ind
    lines = [key_prefix + ("|-" if trailing == 0 else "|" if trailing == 1 else "|+")]
    lines += [(ind_ + l) if l else "" for l in body.split("\n")]
    lines += [""] * max(0, trailing - 1)
    return lines


def _scalar(v):
    return q(v) if isinstance(v, str) else json.dumps(v)


def _yaml_lines(o, ind):
    """Block-style YAML of a JSON-like value (dict / list / scalars), double-quoted strings, `Block` strings as literal blocks."""
    pad = " " * ind
    out = []
    if isinstance(o, dict):
        for k, v in o.items():
            if isinstance(v, Block):
                out += _block_lines(f"{pad}{k}: ", v, ind + 2)
            elif isinstance(v, (dict, list)) and v:
                out.append(f"{pad}{k}:")
                out += _yaml_lines(v, ind + 2)
            elif isinstance(v, list):
                out.append(f"{pad}{k}: []")
            elif isinstance(v, dict):
                out.append(f"{pad}{k}: {{}}")
            else:
                out.append(f"{pad}{_scalar(k) if not isinstance(k, str) else k}: {_scalar(v)}")
    else:
        for v in o:
            if v is None:
                out.append(f"{pad}- ~")
            elif isinstance(v, list):
                out.append(f"{pad}- {json.dumps(v)}")
            elif isinstance(v, dict):
                sub = _yaml_lines(v, ind + 2)
                out.append(f"{pad}- {sub[0].lstrip()}")
                out += sub[1:]
            else:
                out.append(f"{pad}- {_scalar(v)}")
    return out


def render_yaml(dto, rng=None):
    ee = bool(rng) and rng.random() < 0.25
    o = {"targets": [_tjson(t, ee) for t in dto["targets"]]}
    if rng:
        for t in o["targets"]:
            if t and block_ok(t["command"]) and rng.random() < 0.5:
                t["command"] = Block(t["command"])
    if dto["aliases"]:
        o["aliases"] = dto["aliases"]
    if dto["default_platforms"] is not None:
        o["default_platforms"] = dto["default_platforms"]
    text = "\n".join(_yaml_lines(o, 0)) + "\n"
    if rng and rng.random() < 0.15:
        text = text.replace("\n", "\r\n")
    return text


def render_starlark(dto):
    out = []
    for t in dto["targets"]:
        args = [f"name = {q(t['name'])}", f"command = {q(t['command'])}"]
        for k, sk in (("deps", "dependencies"), ("inputs", "inputs"), ("excludes", "exclude_inputs"), ("outputs", "outputs"), ("tags", "tags")):
            if t[k]:
                args.append(f"{sk} = [" + ", ".join(q(x) for x in t[k]) + "]")
        if t["bin_output"]:
            args.append(f"bin_output = {q(t['bin_output'])}")
        if t["checks"]:
            args.append("output_checks = [" + ", ".join(
                "{" + ", ".join([f'"command": {q(c)}'] + ([f'"expected_output": {q(e)}'] if e else [])) + "}" for c, e in t["checks"]) + "]")
        if t["fingerprint"]:
            args.append("fingerprint = {" + ", ".join(f"{q(k)}: {q(v)}" for k, v in t["fingerprint"]) + "}")
        if t["env"]:
            args.append("environment_variables = {" + ", ".join(f"{q(k)}: {q(v)}" for k, v in t["env"]) + "}")
        if t["platforms"] is not None:
            args.append("platforms = [" + ", ".join(q(x) for x in t["platforms"]) + "]")
        if t["timeout"]:
            args.append(f"timeout = {q(t['timeout'])}")
        out.append("target(\n    " + ",\n    ".join(args) + ",\n)\n")
    for a in dto["aliases"]:
        out.append(f"alias(name = {q(a['name'])}, actual = {q(a['actual'])})\n")
    return "\n".join(out) if out else "# empty\n"


def annotation_of(t, goal):
    o = {}
    if t["name"] != goal:
        o["name"] = t["name"]
    for k, jk in (("deps", "dependencies"), ("inputs", "inputs"), ("outputs", "outputs"), ("tags", "tags")):
        if t.get(k):
            o[jk] = t[k]
    if t["fingerprint"]:
        o["fingerprint"] = dict(t["fingerprint"])
    if t["env"]:
        o["environment_variables"] = dict(t["env"])
    if t["platforms"] is not None:
        o["platforms"] = t["platforms"]
    if t["timeout"]:
        o["timeout"] = t["timeout"]
    return o


def render_makefile(dto, rng=None):
    """Targets whose command is `make <goal>`; goal = command[5:]."""
    out = ["# generated", ".PHONY: all", ""]
    for t in dto["targets"]:
        goal = t["command"][5:]
        out.append("# @grog")
        for l in _yaml_lines(annotation_of(t, goal), 0):
            out.append("# " + l)
            if rng and rng.random() < 0.1:
                out.append(rng.choice(["", "#", "   "]))
        out.append(f"{goal}:" + (" dep1 dep2" if rng and rng.random() < 0.3 else ""))
        out.append("\techo building")
        out.append(rng.choice(["", "# just a comment", "\t", "other: x\n\ttrue"]) if rng else "")
    text = "\n".join(out) + "\n"
    if rng and rng.random() < 0.15:
        text = text.replace("\n", "\r\n")
    return text


def render_script(t, rng=None):
    """A *.grog.sh file for one target (the loader adds bin_output / input / no-cache itself)."""
    out = ["#!/bin/sh", "# @grog"]
    o = annotation_of(t, None)
    o.pop("outputs", None)
    for l in _yaml_lines(o, 0):
        out.append("# " + l)
    out += ["", "echo hi"]
    return "\n".join(out) + "\n"


def star_lit(v):
    """Starlark literal of a python value"""
    if v is None:
        return "None"
    if v is True:
        return "True"
    if v is False:
        return "False"
    if isinstance(v, str):
        return q(v)
    if isinstance(v, (int, float)):
        return repr(v)
    if isinstance(v, list):
        return "[" + ", ".join(star_lit(x) for x in v) + "]"
    if isinstance(v, dict):
        return "{" + ", ".join(f"{star_lit(k)}: {star_lit(x)}" for k, x in v.items()) + "}"
    raise ValueError(v)


WRONG_VALUES = [30, -1, 0, 1.5, True, False, None, [], ["x"], [1], [None], [["x"]], [{"a": "b"}], {}, {"k": "v"}, {"k": 1}, {"k": None}, {"k": ["v"]},
                "str", "", 10 ** 30, [True], {"command": 1}, [{"command": 1}], [{"expected_output": "x"}], [{"command": "c", "expected_output": 2}]]
TARGET_FIELDS = ["name", "command", "dependencies", "inputs", "exclude_inputs", "outputs", "bin_output", "output_checks", "tags", "fingerprint",
                 "platforms", "environment_variables", "timeout"]


def typed_corruptions():
    """every field of a target / alias / package given every wrongly (and some rightly) typed value, as
    [(file name, text, description)] for JSON, YAML (block and flow) and Starlark, plus Makefile / script annotations"""
    base = {"name": "a", "command": "c", "dependencies": [":b"], "inputs": ["a.txt"], "exclude_inputs": ["b.txt"], "outputs": ["o"], "bin_output": "bin/a",
            "output_checks": [{"command": "true"}], "tags": ["t"], "fingerprint": {"k": "v"}, "platforms": ["linux/amd64"],
            "environment_variables": {"E": "1"}, "timeout": "5s"}
    out = []
    for f in TARGET_FIELDS:
        for v in WRONG_VALUES:
            t = dict(base); t[f] = v
            pk = {"targets": [t, {"name": "b", "command": "x"}]}
            d = f"target.{f}={json.dumps(v)}"
            out.append(("BUILD.json", json.dumps(pk), d))
            out.append(("BUILD.yaml", "\n".join(_yaml_lines(pk, 0)) + "\n", d))
            out.append(("BUILD.yaml", json.dumps(pk), d + " (flow)"))
            try:
                args = ", ".join(f"{k} = {star_lit(x)}" for k, x in t.items())
                out.append(("BUILD.star", f"target({args})\ntarget(name = \"b\", command = \"x\")\n", d))
            except ValueError:
                pass
            if f not in ("command", "exclude_inputs", "bin_output", "output_checks"):
                ann = {k: x for k, x in t.items() if k not in ("command", "exclude_inputs", "bin_output", "output_checks")}
                lines = ["# " + l for l in _yaml_lines(ann, 0)]
                out.append(("Makefile", "# @grog\n" + "\n".join(lines) + "\ngoal:\n\ttrue\n", d))
                ann.pop("outputs", None)
                lines = ["# " + l for l in _yaml_lines(ann, 0)]
                out.append(("x.grog.sh", "#!/bin/sh\n# @grog\n" + "\n".join(lines) + "\necho\n", d))
    for f in ("name", "actual"):
        for v in WRONG_VALUES:
            al = {"name": "al", "actual": ":a"}; al[f] = v
            pk = {"targets": [{"name": "a", "command": "c"}], "aliases": [al]}
            d = f"alias.{f}={json.dumps(v)}"
            out.append(("BUILD.json", json.dumps(pk), d))
            out.append(("BUILD.yaml", "\n".join(_yaml_lines(pk, 0)) + "\n", d))
            out.append(("BUILD.star", f"target(name = \"a\", command = \"c\")\nalias(name = {star_lit(al['name'])}, actual = {star_lit(al['actual'])})\n", d))
    for f in ("targets", "aliases", "default_platforms", "environments"):
        for v in WRONG_VALUES:
            pk = {"targets": [{"name": "a", "command": "c"}]}; pk[f] = v
            d = f"package.{f}={json.dumps(v)}"
            out.append(("BUILD.json", json.dumps(pk), d))
            out.append(("BUILD.yaml", json.dumps(pk), d + " (flow)"))
    return out


# ----------------------------------------------------------------------------------------------
# corruptions (crash stream)
# ----------------------------------------------------------------------------------------------

def corrupt(rng, text, kind=None):
    b = bytearray(text.encode("latin-1", "replace"))
    kind = kind or rng.choice(["flip", "flip", "trunc", "dup", "del", "ins", "nest", "huge", "null", "swap"])
    if not b:
        b = bytearray(b"x")
    if kind == "flip":
        for _ in range(rng.choice([1, 1, 2, 5])):
            i = rng.randrange(len(b))
            b[i] ^= 1 << rng.randrange(8)
    elif kind == "trunc":
        del b[rng.randrange(len(b)):]
    elif kind == "dup":
        i = rng.randrange(len(b)); j = min(len(b), i + rng.choice([1, 5, 40, 200]))
        b[i:i] = b[i:j] * rng.choice([1, 2, 10])
    elif kind == "del":
        i = rng.randrange(len(b)); j = min(len(b), i + rng.choice([1, 3, 20]))
        del b[i:j]
    elif kind == "ins":
        i = rng.randrange(len(b))
        b[i:i] = rng.choice([b"\x00", b"\xff\xfe", b"\n# @grog\n", b"\n#\n", b"null", b"~", b"[", b"{", b"]", b"}", b":", b"&a *a", b"\r", b"\xc2\xa0",
                             b"\xe2\x80\xa8", b"\t", b"- ", b"!!binary ", b"<<: *x", b"load(\"x\", \"y\")\n", b"target(", b"\"\"\""])
    elif kind == "nest":
        i = rng.randrange(len(b)); n = rng.choice([50, 500, 5000])
        o, c = rng.choice([(b"[", b"]"), (b"{\"a\":", b"}"), (b"(", b")"), (b"- ", b"")])
        b[i:i] = o * n + c * n
    elif kind == "huge":
        i = rng.randrange(len(b))
        b[i:i] = rng.choice([b"9", b"a", b" ", b"#"]) * rng.choice([70000, 200000])
    elif kind == "null":
        s = bytes(b)
        for a, r in ((b'{"name"', b"null, {\"name\""), (b"- name", b"- null\n- name"), (b'"targets": [', b'"targets": [null,'), (b"targets:", b"targets:\n- ~")):
            if a in s:
                s = s.replace(a, r, 1)
                break
        b = bytearray(s)
    elif kind == "swap":
        i = rng.randrange(len(b)); j = rng.randrange(len(b))
        b[i], b[j] = b[j], b[i]
    return bytes(b).decode("latin-1"), kind


# ----------------------------------------------------------------------------------------------
# C10: instrumented contender processes
# ----------------------------------------------------------------------------------------------
import select, signal, subprocess, time

LOCKER_REL = os.path.join("internal", "locking", "workspace_locker.go")


def build_lockproc():
    """Instrument the *current* workspace_locker.go (yield before every fs call), put the rewritten copy into a
    private overlay, and build harness/lockproc against it. -> (binary path | None, message, yield labels)"""
    env = vlib.go_env()
    tool = os.path.join(vlib.BUILD, "instrument")
    os.makedirs(vlib.BUILD, exist_ok=True)
    envt = dict(env); envt["GOFLAGS"] = ""
    p = subprocess.run(["go", "build", "-o", tool, "."], cwd=os.path.join(vlib.VERIF, "tools", "instrument"), env=envt,
                       capture_output=True, text=True)
    if p.returncode != 0:
        return None, "building tools/instrument failed:\n" + p.stdout + p.stderr, []
    gen_dir = os.path.join(vlib.BUILD, "c10")
    os.makedirs(gen_dir, exist_ok=True)
    gen = os.path.join(gen_dir, "workspace_locker.go")
    p = subprocess.run([tool, os.path.join(vlib.REPO, LOCKER_REL), gen], capture_output=True, text=True)
    if p.returncode != 0:
        return None, "instrumenting workspace_locker.go failed:\n" + p.stdout + p.stderr, []
    labels = p.stdout.split()
    out = os.path.join(vlib.BUILD, "lockproc")
    with vlib.Lock("go-" + vlib._tag):
        ov = vlib.prepare_overlay()
        o = json.load(open(ov))
        o["Replace"][os.path.join(vlib.REPO, LOCKER_REL)] = gen
        ov2 = os.path.join(vlib.BUILD, "overlay-c10.json")
        json.dump(o, open(ov2, "w"), indent=1)
        cmd = ["go", "build", "-tags", "verif", "-overlay", ov2, "-modfile", os.path.join(vlib.BUILD, "go.mod"), "-o", out,
               "grog/internal/zz_verif/lockproc"]
        t = time.time()
        p = subprocess.run(cmd, cwd=vlib.REPO, env=env, capture_output=True, text=True)
        vlib.log(f"[go build lockproc (instrumented locker)] {time.time()-t:.1f}s rc={p.returncode}")
    if p.returncode != 0:
        return None, p.stdout + p.stderr, labels
    return out, "", labels


class Contender:
    """One real OS process running the instrumented locker, stepped one file-system call at a time."""

    def __init__(self, binary, root, ws):
        self.p = subprocess.Popen([binary, root, ws], stdin=subprocess.PIPE, stdout=subprocess.PIPE, stderr=subprocess.PIPE)
        self.alive = True
        self.state = "new"          # new | pending:<call> | acquired | released | error | dead
        self.pending = None
        self.last = None
        r = self._read()
        self.pid = int(r[1]) if r and r[0] == "R" else -1

    def _read(self, timeout=60.0):
        rl, _, _ = select.select([self.p.stdout], [], [], timeout)
        if not rl:
            self.last = ("TIMEOUT",)
            return self.last
        line = self.p.stdout.readline().decode(errors="replace").strip()
        if not line:
            self.last = ("EOF", self.p.stderr.read().decode(errors="replace")[-500:] if self.p.poll() is not None else "")
            return self.last
        parts = line.split(" ", 1)
        self.last = (parts[0], parts[1] if len(parts) > 1 else "")
        return self.last

    def _cmd(self, c):
        if not self.alive:
            return ("DEAD",)
        try:
            self.p.stdin.write((c + "\n").encode()); self.p.stdin.flush()
        except BrokenPipeError:
            return ("EOF", "")
        r = self._read()
        if r[0] == "Y":
            self.state, self.pending = "pending", r[1]
        elif r[0] == "A":
            self.state, self.pending = "acquired", None
        elif r[0] == "U":
            self.state, self.pending = "released", None
        else:
            self.state, self.pending = "error", None
        return r

    def lock(self):
        return self._cmd("lock")

    def unlock(self):
        return self._cmd("unlock")

    def step(self):
        return self._cmd("s")

    def kill(self):
        if self.alive:
            self.alive = False
            try:
                self.p.send_signal(signal.SIGKILL)
            except ProcessLookupError:
                pass
            self.p.wait()
            self.state, self.pending = "dead", None
            for f in (self.p.stdin, self.p.stdout, self.p.stderr):
                try:
                    f.close()
                except Exception:
                    pass

    def label(self):
        """what the controller sees of this process: the pending call, or acquired / released / dead / error"""
        return self.pending if self.state == "pending" else self.state
