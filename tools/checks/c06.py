"""C06 — cached file and directory outputs are restored exactly, from any prior state of the destination.

Theorem side : GrogModel/Props/C06.lean about GrogModel/Tree.lean (all trees, all CAS contents containing what the
               write stored, all prior file-system states).
Correspondence: the real output.Registry (WriteOutputs / LoadOutputs) with the real file and directory handlers over a
               real temp-dir FileSystemCache vs. the Lean model, on generated trees x prior destination states.
Oracle (no model): the recursive listing (kind, content, executable bit, link target) of every declared output before
               caching equals the listing after a successful restore; a restore with all blobs present must succeed;
               a restore with a missing blob must fail (not hang, not succeed with other content).
"""
import hashlib
from . import _stores as S
from ._stores import F, D, L

PROPERTY = "C06"
LEVEL = "proof"
LEVEL_TEXT = ("Lean 4 theorems about an executable model of the file and directory output handlers (Merkle encoding with de-duplicated "
              "children, local-hash shortcut, RemoveAll/MkdirAll/recreate, executable flag, declared-vs-stored output validation): for every "
              "well-formed tree, every CAS holding what the write stored and every prior state of the destination whose ancestors are not "
              "blocked by a non-directory, restore succeeds and the destination has exactly the cached listing. The model is tied to the code "
              "on every run by a differential run of the real Registry/handlers/FileSystemCache on generated trees x prior states, with a "
              "model-independent before/after listing oracle.")
LEVEL_NOTE = ("Trusted: Lean kernel; axioms propext/Classical.choice/Quot.sound; the hash is a parameter with collision-freeness on the occurring "
              "streams as hypothesis, protobuf marshalling a parameter with a left-inverse hypothesis; os.RemoveAll/MkdirAll/Create/Symlink are "
              "assumed to behave as the pure FS functions (sampled by the tie). Not modelled: permission errors, special files, symlinks in the "
              "ancestor chain of the destination (the OS follows them; `Clear` excludes them), non-UTF-8 names (protobuf rejects them at write time), mode bits other "
              "than the owner's execute bit (stale files with other modes occur as prior states in the tie), the interleaving of the restore goroutines (only their joint result).")
TECHNIQUE = "Lean 4 proof over an executable model + differential correspondence with the real output handlers + before/after listing oracle"
PROP_MODULES = ["GrogModel.Props.C06", "GrogModel.Props.ComposeStores"]
OBLIGATIONS = [
    "Grog.C06.restoreDir_writeDir",
    "Grog.C06.restoreFile_writeFile",
    "Grog.C06.restore_total",
    "Grog.C06.validate_outputs",
    "Grog.C06.restoreFile_old_loses_exec_witness",
    "Grog.C06.restoreFile_old_missing_parent_witness",
    "Grog.C06.modeAfter_fixed_owner",
    "Grog.C06.modeAfter_old_not_runnable_witness",
    "Grog.Compose.restoreDir_refines_exec_restore",
    "Grog.Compose.restoreFile_refines_exec_restore",
]
ASSUMPTIONS = [
    "hash collision-free on the occurring streams; protobuf Tree marshalling has a left inverse (hypotheses of the theorems)",
    "ancestors of the destination are directories or absent (hypothesis Clear; symlinked ancestors are followed by the OS and not modelled); at the destination itself anything may sit",
    "the workspace is not modified by anything else while outputs are written or restored",
]

PKGS = ["", "p", "p/q", "pages/[slug]", S.proto("a b/ü*")]
WSNAMES = ["ws", "ws", "clients/[acme]/w s", "a*b?c", S.proto("ünï/{x}/[1-9]"), "back\\slash"]
DIR_IDS = ["out", "out/sub/dir", "dist", S.proto("öut/d ir"), "dist[debug]", "o*t/[a-z]"]
FILE_IDS = ["f.txt", "out/sub/f.txt", "bin/tool", S.proto("dïr/a b.txt"), "gen[1]/f?.txt"]
PRIORS_DIR = ["absent", "absent-parents", "same", "other-tree", "mutated", "file-at-dst", "empty-dir", "dangling-link-at-dst", "mutated", "link-to-same-dir", "link-to-other-dir"]
PRIORS_FILE = ["absent", "absent-parents", "same", "modified", "truncated", "exec-flipped", "other-exec", "modified", "link-to-same-file", "link-to-other-file", "dangling-link-at-dst", "dir-at-dst",
               "odd-mode-same", "odd-mode-other"]


def split(p):
    return [c for c in p.split("/") if c]


def base_ws(rng, pkg):
    ws = D()
    if pkg:
        ws = S.put(ws, split(pkg), D())
    if rng.random() < 0.5:
        ws = S.put(ws, split(pkg) + ["BUILD.json"], F("{}"))
    return ws


def make_prior(rng, kind, ws, pkg, dst, cached):
    """workspace state in which the restore runs"""
    if kind == "same":
        return ws
    if kind == "absent":
        pr = S.remove(ws, dst)
        return S.put(pr, dst[:-1], S.get(pr, dst[:-1]) or D())     # parent exists
    if kind == "absent-parents":
        k = rng.randint(0, len(dst) - 1)
        return S.remove(ws, dst[: k + 1]) if k > 0 or rng.random() < 0.5 else D()
    if kind == "other-tree":
        return S.put(ws, dst, S.gen_tree(rng, 3, 4))
    if kind == "mutated":
        return S.put(ws, dst, S.mutate_tree(rng, cached))
    if kind == "file-at-dst":
        return S.put(ws, dst, F("a file where the directory should be", rng.random() < 0.5))
    if kind == "empty-dir":
        return S.put(ws, dst, D())
    if kind == "dangling-link-at-dst":
        return S.put(ws, dst, L("nowhere"))
    if kind in ("link-to-same-dir", "link-to-other-dir"):
        # a symbolic link sits at the directory output path; it points to a directory elsewhere in the workspace with the cached / another content
        pr = S.put(ws, ["elsewhere-dir"], cached if kind == "link-to-same-dir" else S.mutate_tree(rng, cached))
        return S.put(pr, dst, L("../" * (len(dst) - 1) + "elsewhere-dir"))
    if kind in ("link-to-same-file", "link-to-other-file"):
        pr = S.put(ws, ["elsewhere.txt"], cached if kind == "link-to-same-file" else F("precious, must not be touched", not cached[2]))
        return S.put(pr, dst, L("../" * (len(dst) - 1) + "elsewhere.txt"))
    if kind == "dir-at-dst":
        return S.put(ws, dst, D(("in-the-way", F("x")), ("sub", D())))
    if kind == "modified":
        return S.put(ws, dst, F(cached[1] + "!", cached[2]))
    if kind == "truncated":
        return S.put(ws, dst, F(cached[1][: len(cached[1]) // 2], cached[2]))
    if kind == "exec-flipped":
        return S.put(ws, dst, F(cached[1], not cached[2]))
    if kind == "other-exec":
        return S.put(ws, dst, F("other", not cached[2]))
    if kind == "odd-mode-same":
        return S.put(ws, dst, ["f", cached[1], rng.choice(S.ODD_MODES)])
    if kind == "odd-mode-other":
        return S.put(ws, dst, ["f", cached[1] + "?", rng.choice(S.ODD_MODES)])
    raise ValueError(kind)


def gen_case(rng, i, scratch, quick):
    pkg = rng.choice(PKGS)
    r = rng.random()
    ws = base_ws(rng, pkg)
    case = {"op": "store.roundtrip", "scratch": scratch, "pkg": pkg, "bin": "", "outputs": [], "variant": "fixed",
            "wsname": rng.choice(WSNAMES), "progress": rng.random() < 0.5}
    meta = {"i": i}
    if r < 0.55:
        oid = rng.choice(DIR_IDS)
        dst = split(pkg) + split(oid)
        tree = S.gen_tree(rng, rng.choice([1, 2, 3, 4, 6]), rng.choice([2, 4, 8]))
        ws = S.put(ws, dst, tree)
        kind = rng.choice(PRIORS_DIR)
        case["outputs"] = [["dir", oid]]
        cached = tree
        meta.update(kind="dir", prior=kind, size=S.size(tree), depth=S.depth(tree))
    else:
        oid = rng.choice(FILE_IDS)
        dst = split(pkg) + split(oid)
        f = F(S.gen_content(rng), rng.random() < 0.45)
        ws = S.put(ws, dst, f)
        kind = rng.choice(PRIORS_FILE)
        if rng.random() < 0.25:
            case["bin"] = oid
            f = F(f[1], True)
            meta["bin"] = True
        else:
            case["outputs"] = [["file", oid]]
        cached = f
        meta.update(kind="file", prior=kind, size=len(f[1]), depth=0)
    case["ws"] = ws
    case["prior"] = make_prior(rng, kind, ws, pkg, dst, cached)
    # a second, disjoint output in some cases (registry writes / loads them concurrently)
    if rng.random() < 0.2 and not case["bin"]:
        oid2 = "second/" + rng.choice(["x.bin", "y"])
        if rng.random() < 0.5:
            # often: the same bytes as the first (file) output with the opposite executable bit, declared before or after it
            twin = meta["kind"] == "file" and rng.random() < 0.6
            case["ws"] = S.put(case["ws"], split(pkg) + split(oid2), F(cached[1], not cached[2]) if twin else F("second", rng.random() < 0.5))
            if twin and rng.random() < 0.5:
                case["outputs"].insert(0, ["file", oid2])
            else:
                case["outputs"].append(["file", oid2])
            meta["twin"] = twin
        else:
            case["ws"] = S.put(case["ws"], split(pkg) + split(oid2), S.gen_tree(rng, 2, 3))
            case["outputs"].append(["dir", oid2])
        if kind == "same":
            case["prior"] = case["ws"]
        elif rng.random() < 0.7:
            # parent directory of the second output exists in the prior state (otherwise: absent parents for it too)
            pp = split(pkg) + ["second"]
            if S.get(case["prior"], pp[:-1]) is None or S.get(case["prior"], pp[:-1])[0] == "d":
                case["prior"] = S.put(case["prior"], pp, S.get(case["prior"], pp) or D())
        meta["multi"] = True
    # families around the restore gate
    r = rng.random()
    if r < 0.06:
        case["drop"] = [rng.choice(["tree", "dirfiles", "dirfiles"]) if meta["kind"] == "dir" else "file"]
        meta["drop"] = True
    elif r < 0.14 and kind != "same":
        # a cache read fails during the restore (error, or the reader fails after the first byte); a second, fault-free
        # restore (the next build) then has to repair whatever the failed one left behind
        case["getfault"] = {"n": rng.randint(1, 6), "kind": rng.choice(["err", "err-mid"])}
        meta["getfault"] = True
    elif r < 0.24:
        # the restored outputs are modified in place (same inode), then restored again: the cache still has to deliver the cached state
        case["tamper"] = rng.choice(["append", "truncate", "overwrite", "chmod"])
        meta["tamper"] = True
    elif r < 0.32:
        outs = [list(o) for o in case["outputs"]]
        m = rng.choice(["perm", "extra", "retype", "rename", "fewer"]) if outs else "extra"
        if m == "perm":
            outs = outs[::-1]
        elif m == "extra":
            outs.append(["file", "extra.txt"])
        elif m == "retype":
            outs[0][0] = "dir" if outs[0][0] == "file" else "file"
        elif m == "rename":
            outs[0][1] = outs[0][1] + "2"
        elif m == "fewer":
            outs = outs[1:]
        case["declared2"] = outs
        meta["declared2"] = m
    if (meta.get("tamper") or meta.get("twin") or rng.random() < 0.15) and not meta.get("getfault"):
        case["direct"] = True
    return case, meta, dst


def outputs_of(case):
    outs = [(t, i) for t, i in case["outputs"]]
    if case["bin"]:
        outs.append(("file", case["bin"]))
    return outs


def same_multiset(a, b):
    return sorted(map(tuple, a)) == sorted(map(tuple, b))


def classify(case, meta, x, otype, oid, before, after):
    """signature of a failing restore (class of the failing input), per declared output"""
    msg = x.get("load_msg", "")
    if x.get("load") == "hang":
        return "restore-hangs"
    if x.get("load") == "err" and "no such file or directory" in msg and "/ws/" in msg and any(
            t == "file" and msg.rstrip().endswith("/" + S.unproto(i) + ": no such file or directory") for t, i in outputs_of(case)):
        return "file-restore-missing-parent-dir"
    if otype == "file" and x.get("load") == "ok" and before and after and before[0] == "f" and after[0] == "f" \
            and before[1] == after[1] and before[2] != after[2]:
        if str(meta.get("prior", "")).startswith("odd-mode"):
            return "file-restore-keeps-stale-permission-mode"
        return "file-restore-executable-bit-differs"
    return "restore-differs:%s:%s:%s" % (otype, meta["prior"], x.get("load"))


def oracle(ctx, case, meta, x):
    """model-independent: listing before caching == listing after restore, for every declared output"""
    bad = 0
    if "hang" in (x.get("load"), x.get("load2")) and not S.confirm_hang(ctx, case, lambda o: "hang" in (o.get("load"), o.get("load2"))):
        return 0        # a stall that does not reproduce (loaded machine): not a hang of the code
    if x.get("write") != "ok":
        ctx.violation("writing the outputs of a generated target to the cache failed", {"kind": "oracle", "oracle": "write succeeds",
                      "request": case, "meta": meta, "impl": x}, signature="write-fails:%s" % meta["kind"])
        return 1
    declared_same = "declared2" not in case or same_multiset(case["declared2"] + ([["file", case["bin"]]] if case["bin"] else []),
                                                               [list(o) for o in outputs_of(case)])
    if not declared_same:
        if x.get("load") != "err-validate":
            ctx.violation("restore proceeded although the declared outputs differ from the stored ones",
                          {"kind": "oracle", "oracle": "validate outputs", "request": case, "meta": meta, "impl": x}, signature="validate-accepts-mismatch")
            return 1
        return 0
    if x.get("load") == "err-validate":
        ctx.violation("restore refused although declared and stored outputs are the same multiset",
                      {"kind": "oracle", "oracle": "validate outputs", "request": case, "meta": meta, "impl": x}, signature="validate-rejects-match")
        return 1
    pkg = split(case["pkg"])
    if case.get("getfault"):
        for t, oid in outputs_of(case):
            dst = pkg + split(oid)
            b = S.canon(S.get(x["before"], dst))
            if x.get("load") == "hang" or x.get("load2") == "hang":
                bad += 1
                ctx.violation("restore hangs when a cache read fails", {"kind": "oracle", "oracle": "read fault => error", "request": case, "meta": meta,
                              "impl": {k: v for k, v in x.items() if k.startswith("load")}}, signature="restore-hangs")
            elif x.get("load") == "ok" and S.canon(S.get(x["after"], dst)) != b:
                bad += 1
                ctx.violation("restore reported success although a cache read failed and the destination differs from what was cached",
                              {"kind": "oracle", "oracle": "read fault => error or exact restore", "request": case, "meta": meta, "output": oid,
                               "cached": b, "restored": S.canon(S.get(x["after"], dst))}, signature="read-fault-restore-ok-wrong-content")
            elif x.get("load2") != "ok" or S.canon(S.get(x["after2"], dst)) != b:
                bad += 1
                ctx.violation("the restore after a restore that failed on a cache read does not reproduce the cached output",
                              {"kind": "oracle", "oracle": "next restore repairs a half-restored output", "request": case, "meta": meta, "output": oid,
                               "cached": b, "restored": S.canon(S.get(x.get("after2"), dst)), "load2": x.get("load2"), "load2_msg": x.get("load2_msg", "")},
                              signature="half-restored-output-not-repaired")
        return bad
    for t, oid in outputs_of(case):
        dst = pkg + split(oid)
        b = S.canon(S.get(x["before"], dst))
        a = S.canon(S.get(x["after"], dst))
        if case.get("drop"):
            if x.get("load") == "ok" and a != b:
                bad += 1
                sig = classify(case, meta, x, t, oid, b, a)
                ctx.violation("restore reported success with a blob missing and the destination differs from what was cached",
                              {"kind": "oracle", "oracle": "missing blob => error", "request": case, "meta": meta, "impl": x, "output": oid, "cached": b, "restored": a},
                              signature=sig if sig.startswith("file-restore") else "missing-blob-restore-ok-wrong-content")
            elif x.get("load") == "hang":
                bad += 1
                ctx.violation("restore hangs when a blob is missing", {"kind": "oracle", "oracle": "missing blob => error", "request": case,
                              "meta": meta, "impl": x}, signature="restore-hangs")
            continue
        if case.get("tamper") and x.get("load") == "ok" and a == b:
            a3 = S.canon(S.get(x.get("after3"), dst))
            if x.get("load3") != "ok" or a3 != b:
                bad += 1
                ctx.violation("after a restored output was modified in place (%s) the next restore does not reproduce the cached output" % case["tamper"],
                              {"kind": "oracle", "oracle": "restore; modify in place; restore", "request": case, "meta": meta, "output": oid, "cached": b,
                               "restored_again": a3, "load3": x.get("load3"), "load3_msg": x.get("load3_msg", "")}, signature="restore-after-in-place-modification-differs")
            if x.get("cache_audit"):
                bad += 1
                ctx.violation("modifying a restored output in place changed the cache: " + x["cache_audit"][0],
                              {"kind": "oracle", "oracle": "cache audit after in-place modification of an output", "request": case, "meta": meta,
                               "audit": x["cache_audit"]}, signature="output-modification-poisons-cache")
        if x.get("load") != "ok" or a != b:
            bad += 1
            ctx.violation("restored output differs from what was cached (or the restore failed with every blob present)",
                          {"kind": "oracle", "oracle": "listing before caching == listing after restore", "request": case, "meta": meta,
                           "output": oid, "cached": b, "restored": a, "load": x.get("load"), "load_msg": x.get("load_msg", "")},
                          signature=classify(case, meta, x, t, oid, b, a))
    return bad


def compare(case, x, y):
    """fields on which model and implementation must agree"""
    diffs = []
    if case.get("getfault"):
        # the model does not know the fault: it predicts how many reads the restore makes; the fault is hit iff n <= that number
        if x.get("write") != y.get("write"):
            return ["write"]
        if y.get("load") == "ok":
            want = "err" if case["getfault"]["n"] <= y.get("gets", 0) else "ok"
            if x.get("load") != want:
                diffs.append("load-under-read-fault")
        return diffs
    for k in ("write", "load"):
        if x.get(k) != y.get(k):
            diffs.append(k)
    if x.get("write") == "ok" and y.get("write") == "ok":
        for k in ("nblobs", "nchildren"):
            if x.get(k) != y.get(k):
                diffs.append(k)
        if S.jdump(sorted(x.get("file_exec_flags", []))) != S.jdump(sorted(y.get("file_exec_flags", []))):
            diffs.append("file_exec_flags")
        if x.get("load") == "ok" and y.get("load") == "ok":
            if S.jdump(S.canon(x["after"])) != S.jdump(S.canon(S.digestify(y["after"]))):
                diffs.append("after")
            if x.get("gets") != y.get("gets") and not case.get("direct"):
                diffs.append("gets")
    return diffs


def fixed_cases(scratch, quick=True):
    """targeted families (corpus): the two repaired defects and boundary shapes"""
    out = []

    def case(ws, prior, outputs, bin_="", pkg="p", **kw):
        c = {"op": "store.roundtrip", "scratch": scratch, "pkg": pkg, "bin": bin_, "outputs": outputs, "ws": ws, "prior": prior, "variant": "fixed"}
        c.update(kw)
        return c
    ws = D(("p", D(("out", D(("sub", D(("f.txt", F("data")))))))))
    out.append((case(ws, D(("p", D())), [["file", "out/sub/f.txt"]]), {"kind": "file", "prior": "absent-parents", "size": 4, "depth": 0, "fam": "F-mkdir"}))
    out.append((case(ws, D(), [["file", "out/sub/f.txt"]]), {"kind": "file", "prior": "absent-parents", "size": 4, "depth": 0, "fam": "F-mkdir"}))
    ws = D(("p", D(("tool", F("#!/bin/sh\necho ok\n", True)))))
    out.append((case(ws, D(("p", D())), [["file", "tool"]]), {"kind": "file", "prior": "absent", "size": 18, "depth": 0, "fam": "F-execbit"}))
    out.append((case(ws, D(("p", D(("tool", F("#!/bin/sh\necho ok\n", False))))), [["file", "tool"]]), {"kind": "file", "prior": "exec-flipped", "size": 18, "depth": 0, "fam": "F-execbit"}))
    ws = D(("p", D(("tool", F("not yet executable", False)))))
    out.append((case(ws, D(("p", D())), [], bin_="tool"), {"kind": "file", "prior": "absent", "size": 18, "depth": 0, "fam": "F-execbit", "bin": True}))
    ws = D(("p", D(("plain", F("plain", False)))))
    out.append((case(ws, D(("p", D(("plain", F("plain", True))))), [["file", "plain"]]), {"kind": "file", "prior": "exec-flipped", "size": 5, "depth": 0, "fam": "F-execbit"}))
    out.append((case(ws, D(("p", D(("plain", F("other", True))))), [["file", "plain"]]), {"kind": "file", "prior": "other-exec", "size": 5, "depth": 0, "fam": "F-execbit"}))
    # directory shapes: empty root, only empty dirs, identical siblings, deep chain, wide
    shapes = [D(), D(("e", D())), D(("a", D(("x", F("1")))), ("b", D(("x", F("1")))), ("c", D(("x", F("1", True))))),
              D(("a", D(("a", D(("a", D(("a", D(("a", D(("a", F("deep"))))))))))))),
              D(*[("f%d" % k, F("c%d" % (k % 3), k % 2 == 0)) for k in range(8)]),
              D(("l1", L("l2")), ("l2", L("l1")), ("e1", D()), ("e2", D()), ("z", F("")))]
    for t in shapes:
        for prior in (D(), D(("p", D(("out", t)))), D(("p", D(("out", F("file"))))), D(("p", D(("out", D(("stale", F("s"))))))) ):
            out.append((case(D(("p", D(("out", t)))), prior, [["dir", "out"]]),
                        {"kind": "dir", "prior": "shape", "size": S.size(t), "depth": S.depth(t), "fam": "shapes"}))
    # identical bytes, different executable bits, declared in both orders; restored into an empty workspace and over the swapped modes
    twin = D(("p", D(("tool.sh", F("#!/bin/sh\necho hi\n", True)), ("tool.sh.txt", F("#!/bin/sh\necho hi\n", False)))))
    swapped = D(("p", D(("tool.sh", F("#!/bin/sh\necho hi\n", False)), ("tool.sh.txt", F("#!/bin/sh\necho hi\n", True)))))
    for outs in ([["file", "tool.sh"], ["file", "tool.sh.txt"]], [["file", "tool.sh.txt"], ["file", "tool.sh"]]):
        for prior in (D(("p", D())), swapped, D()):
            out.append((case(twin, prior, outs, direct=True), {"kind": "file", "prior": "twin-modes", "size": 18, "depth": 0, "fam": "twins"}))
            out.append((case(twin, prior, outs, tamper="chmod", direct=True), {"kind": "file", "prior": "twin-modes", "size": 18, "depth": 0, "fam": "twins", "tamper": True}))
    # restore, modify the output in place, restore again (file and directory outputs)
    wsf = D(("p", D(("data.txt", F("line 1\nline 2\n")), ("out", D(("a", F("aaa", True)), ("s", D(("b", F("bbbbbb")))))))))
    for how in ("append", "truncate", "overwrite", "chmod"):
        out.append((case(wsf, D(("p", D())), [["file", "data.txt"]], tamper=how, direct=True), {"kind": "file", "prior": "absent", "size": 14, "depth": 0, "fam": "tamper", "tamper": True}))
        out.append((case(wsf, D(("p", D())), [["dir", "out"]], tamper=how, direct=True), {"kind": "dir", "prior": "absent", "size": 5, "depth": 2, "fam": "tamper", "tamper": True}))
    # the absolute destination path contains glob meta characters / spaces / unicode in PARENT directories; stale extras at every depth
    tg = D(("a", F("1")), ("s", D(("b", F("2", True)))), ("e", D()))
    stale = D(("a", F("old")), ("stale.txt", F("x")), (".hidden", F("x")), ("s", D(("b", F("2")), ("stale", F("y")))), ("sd", D(("z", F("z")))))
    for wsname in ("clients/[acme]/ws", "a*b?c", S.proto("ünï/{x}/[1-9]"), "w s"):
        for pkg, oid in (("p", "out"), ("pages/[slug]", "dist[debug]")):
            wsg = S.put(D(), split(pkg) + split(oid), tg)
            out.append((case(wsg, S.put(D(), split(pkg) + split(oid), stale), [["dir", oid]], pkg=pkg, wsname=wsname),
                        {"kind": "dir", "prior": "glob-path", "size": S.size(tg), "depth": 2, "fam": "glob-path"}))
    # boundary sizes (buffer sizes, io.Copy chunks, powers of two) for file outputs and for files inside a directory output
    def pat(nbytes, salt=0):
        return "".join(chr((i * 7 + salt) % 251) for i in range(nbytes))
    sizes = [0, 1, 4095, 4096, 4097, 32767, 32768, 32769, 65535, 65536, 65537] + ([] if quick else [1048577])
    for k, nb in enumerate(sizes):
        f = F(pat(nb, k), k % 2 == 0)
        ws = D(("p", D(("big.bin", f))))
        for prior in (D(("p", D())), D(("p", D(("big.bin", F(f[1][: nb // 2], not f[2]))))), D(("p", D(("big.bin", F(f[1][:-1] + "!", f[2])))))):
            out.append((case(ws, prior, [["file", "big.bin"]]), {"kind": "file", "prior": "boundary-size", "size": nb, "depth": 0, "fam": "sizes"}))
    t = D(*[("s%d" % nb, F(pat(nb, 3), nb % 2 == 1)) for nb in (4096, 32768, 32769, 65537)])
    half = D(("s4096", F("")), ("s32769", F(pat(32768, 3), True)), ("s65537", F(pat(100, 3))), ("stale", F("x")))
    for prior in (D(), D(("p", D(("out", half))))):
        out.append((case(D(("p", D(("out", t)))), prior, [["dir", "out"]]),
                    {"kind": "dir", "prior": "boundary-size", "size": S.size(t), "depth": 1, "fam": "sizes"}))
    # fan-out around channel / batch capacities
    for fan in ((63, 64, 65, 129, 257) if quick else (63, 64, 65, 127, 128, 129, 255, 256, 257, 1025)):
        t = D(*[("f%04d" % k, F("c%d" % (k % 7), k % 3 == 0)) for k in range(fan)])
        for prior, extra in ((D(), {}), (D(("p", D(("out", D(*[("f%04d" % k, F("stale")) for k in range(0, fan, 2)]))))), {}), (D(), {"drop": ["dirfiles"]})):
            out.append((case(D(("p", D(("out", t)))), prior, [["dir", "out"]], **extra),
                        {"kind": "dir", "prior": "fan-out", "size": fan + 1, "depth": 1, "fam": "fanout", "drop": bool(extra)}))
    # structured near-misses: identical content with different executable bits, names that are prefixes of each other, a symlink
    # whose target is a sibling's name, file <-> directory of the same name, empty file vs empty dir vs missing
    t = D(("a", F("x")), ("ab", F("x", True)), ("a.b", D()), ("abc", L("a")), ("a b", F("")), ("e", D()), ("z", D(("a", F("x", True)))))
    swapped = D(("a", D(("x", F("x")))), ("ab", F("x", False)), ("a.b", F("")), ("abc", L("ab")), ("a b", D()), ("z", F("x")))
    for prior in (D(), D(("p", D(("out", swapped)))), D(("p", D(("out", D(("a", F("x")), ("ab", F("x")), ("e", F(""))))))), D(("p", D(("out", t))))):
        out.append((case(D(("p", D(("out", t)))), prior, [["dir", "out"]]), {"kind": "dir", "prior": "near-miss", "size": S.size(t), "depth": 2, "fam": "near-miss"}))
    # permission modes of a stale file at the destination: same bytes / other bytes under modes where only some of the
    # executable bits are set (a restored executable must be runnable by its owner; a restored plain file must not be executable)
    for x in (True, False):
        f = F("#!/bin/sh\necho run me\n", x)
        for mode in S.ODD_MODES:
            for content in (f[1], "stale bytes"):
                out.append((case(D(("p", D(("tool", f)))), D(("p", D(("tool", ["f", content, mode])))), [["file", "tool"]], direct=(mode % 2 == 0)),
                            {"kind": "file", "prior": "odd-mode", "size": len(f[1]), "depth": 0, "fam": "modes"}))
    t = D(("bin", D(("tool", F("#!/bin/sh\n", True)), ("data", F("d")))), ("run.sh", F("x", True)))
    for mode in (0o654, 0o645, 0o611):
        pr = D(("bin", D(("tool", ["f", "#!/bin/sh\n", mode]), ("data", F("d")))), ("run.sh", ["f", "x", mode]))
        out.append((case(D(("p", D(("out", t)))), D(("p", D(("out", pr)))), [["dir", "out"]]),
                    {"kind": "dir", "prior": "odd-mode", "size": S.size(t), "depth": 2, "fam": "modes"}))
    # large file outputs (>= 8 MiB, block-generated): prior states that are block permutations / block-wise near misses of the cached
    # file, and an earlier cached version that is a block permutation of the current one (listings carry an independent SHA-256)
    MiB = 1 << 20
    def blocks(order, unit):
        return [[65 + k, unit] for k in order]
    big = []
    for unit, n in ((4 * MiB, 3), (4 * MiB, 2), (2 * MiB, 5), (MiB, 9)) if quick else ((4 * MiB, 3), (4 * MiB, 2), (4 * MiB, 4), (2 * MiB, 5), (2 * MiB, 4), (MiB, 9), (MiB, 8), (8 * MiB, 2), (3 * MiB, 3)):
        ident = list(range(n))
        for tail in ([], [[90, 1]], [[90, 4097]]) if (unit == 4 * MiB and n == 2) else ([],):
            v = blocks(ident, unit) + tail
            perms = [ident[::-1], ident[1:] + ident[:1]]
            priors = [("absent", None)] + [("block-permuted", blocks(p, unit) + tail) for p in perms if p != ident] + \
                     [("block-dropped", blocks(ident[:-1], unit) + tail), ("block-changed", blocks(ident[:-1] + [25], unit) + tail)]
            for x, (pk, runs) in enumerate(priors):
                big.append((v, pk, runs, None, x % 2 == 0))
            big.append((v, "earlier-permuted", None, blocks(perms[0], unit) + tail, False))
            big.append((v, "earlier-permuted", blocks(perms[1], unit) + tail, blocks(perms[0], unit) + tail, True))
    for v, pk, runs, earlier, x in big:
        ws = D(("p", D(("big.bin", S.FB(v, x)))))
        prior = D(("p", D())) if runs is None else D(("p", D(("big.bin", S.FB(runs, x)))))
        kw = {"direct": True}
        if earlier is not None:
            kw["earlier"] = D(("p", D(("big.bin", S.FB(earlier, x)))))
        out.append((case(ws, prior, [["file", "big.bin"]], **kw),
                    {"kind": "file", "prior": pk, "size": sum(c for _, c in v), "depth": 0, "fam": "large", "nomodel": True}))
    # ... and inside a directory output
    t = D(("blob", S.FB(blocks([0, 1, 2], 4 * MiB))), ("small", F("s")))
    for pr in (D(("blob", S.FB(blocks([2, 0, 1], 4 * MiB))), ("small", F("s"))), D()):
        out.append((case(D(("p", D(("out", t)))), D(("p", D(("out", pr)))), [["dir", "out"]], direct=True),
                    {"kind": "dir", "prior": "block-permuted", "size": 3, "depth": 1, "fam": "large", "nomodel": True}))
    return out


def run(ctx):
    quick = ctx.tier == "quick"
    n = 700 if quick else 12000
    scratch = ctx.scratch("c06")
    cases = []
    fixed = fixed_cases(scratch, quick)
    for c, m in fixed:
        cases.append((c, m))
    for i in range(n):
        c, m, _ = gen_case(ctx.rng, i, scratch, quick)
        cases.append((c, m))
    reqs = [c for c, _ in cases]
    ctx.coverage["rule"] = (f"{len(fixed)} targeted cases (repaired defects, tree shapes, boundary file sizes 0..65537, fan-out 63..257, near-miss names/kinds, stale files with 11 unusual permission modes, block-generated file outputs of 8..12 MiB with block-permuted / block-dropped prior states and a block-permuted earlier cached version) + {n} generated (tree | file | bin output) x prior destination state "
                            "(absent, absent parents, same, other tree, mutated: stale extras/truncated/modified/flipped bits/kind changes, file at dst, "
                            "empty dir, dangling link at dst, same / other bytes under an unusual permission mode) x restore-gate families (dropped blob, declared outputs permuted/extra/retyped/renamed); trees: depth<=6, "
                            "fan-out<=8, duplicate contents and sub-directories, empty files/dirs, symlinks incl. dangling, executable bits, awkward names; "
                            "non-trivial = write succeeded and the cached object has >= 2 nodes or >= 1 byte; distinct by digest of (cached object, prior state, declared outputs)")
    impl, model = [], []
    chunk = 400
    skip = {"op": "store.roundtrip", "scratch": scratch, "pkg": "", "bin": "", "outputs": [], "ws": D(), "prior": D(), "variant": "fixed"}
    for i in range(0, len(reqs), chunk):
        a = S.impl(ctx, reqs[i:i + chunk])
        if a is None:
            return
        impl += a
        # the model sees permission modes as 'owner may execute'; multi-MiB cases are checked by the listing oracle only
        model += S.model(ctx, [skip if m.get("nomodel") else dict(c, prior=S.for_model(c["prior"])) for c, m in cases[i:i + chunk]])
    ctx.coverage["evaluations"] = len(reqs)
    ctx.coverage["traces_validated_against_impl"] = len(reqs)
    dist = {"kind": {}, "prior": {}, "load": {}, "depth": {}, "shortcut": 0, "dropped": 0, "declared2": 0, "multi": 0, "bin": 0, "getfault": 0, "getfault_hit": 0}
    seen = set()
    disagreements = []
    oracle_fail = 0
    for (c, m), x, y in zip(cases, impl, model):
        if "error" in x or "panic" in x:
            ctx.violation("implementation driver failed on a case", {"kind": "impl-crash", "request": c, "meta": m, "impl": x}, signature="driver-error", found_input=("panic" in x))
            continue
        for k, v in (("kind", m["kind"]), ("prior", m["prior"]), ("load", x.get("load")), ("depth", str(m.get("depth")))):
            dist[k][v] = dist[k].get(v, 0) + 1
        dist["shortcut"] += 1 if x.get("load") == "ok" and x.get("gets") == 0 else 0
        if m.get("getfault") and x.get("load") == "err":
            dist["getfault_hit"] += 1
        for k in ("tamper", "twin"):
            if m.get(k):
                dist[k] = dist.get(k, 0) + 1
        for k in ("drop", "declared2", "multi", "bin", "getfault"):
            if m.get(k):
                dist["dropped" if k == "drop" else k] += 1
        if x.get("write") == "ok" and (m.get("size", 0) >= 2 or m["kind"] == "file" and m.get("size", 0) >= 1):
            seen.add(hashlib.sha1(S.jdump([c["ws"], c["prior"], c["outputs"], c.get("declared2"), c.get("drop"), c["bin"]]).encode()).hexdigest())
        oracle_fail += oracle(ctx, c, m, x)
        if m.get("nomodel"):
            dist["large"] = dist.get("large", 0) + 1
            continue
        if "error" in y:
            disagreements.append((c, m, x, y, ["model-error"]))
            continue
        d = compare(c, x, y)
        if d:
            disagreements.append((c, m, x, y, d))
        if m.get("size", 0) > 6 and m.get("prior") in ("mutated", "other-tree"):
            ctx.sample({"outputs": c["outputs"], "pkg": c["pkg"], "cached_tree_nodes": m["size"], "depth": m["depth"], "prior": m["prior"],
                        "load": x.get("load"), "backend_gets": x.get("gets"), "cas_blobs": x.get("nblobs"), "distinct_child_dirs": x.get("nchildren"),
                        "ws": c["ws"] if m["size"] < 12 else "(omitted: %d nodes)" % m["size"]}, limit=4)
    # determinism: the same case three more times must give the same result (goroutine / map iteration order)
    rep_idx = [i for i, (c, m) in enumerate(cases) if m.get("size", 0) > 4 and m["kind"] == "dir"][:: max(1, len(cases) // 25)][:25]
    rep_out = S.impl(ctx, [cases[i][0] for i in rep_idx for _ in range(3)]) or []
    nondet = 0
    for j, i in enumerate(rep_idx):
        ref = impl[i]
        for x in rep_out[3 * j: 3 * j + 3]:
            same = all(S.jdump(S.canon(x.get(k)) if k == "after" else x.get(k)) == S.jdump(S.canon(ref.get(k)) if k == "after" else ref.get(k))
                       for k in ("write", "load", "nblobs", "nchildren", "gets", "after") if ref.get("load") == "ok" or k in ("write", "load"))
            if not same:
                nondet += 1
                ctx.violation("the same cache write + restore gives different results when repeated", {"kind": "oracle", "oracle": "determinism under repetition",
                              "request": cases[i][0], "meta": cases[i][1], "first": {k: ref.get(k) for k in ("write", "load", "nblobs", "nchildren", "gets")},
                              "again": {k: x.get(k) for k in ("write", "load", "nblobs", "nchildren", "gets")}}, signature="nondeterministic-restore")
    ctx.coverage["repeated_cases"] = len(rep_idx) * 3
    ctx.coverage["nondeterministic"] = nondet
    two_tier_restores(ctx, scratch, dist)
    ctx.coverage["distinct_nontrivial"] = len(seen)
    ctx.coverage["distribution"] = dist
    ctx.coverage["oracle_failures"] = oracle_fail
    ctx.coverage["disagreements"] = len(disagreements)
    if disagreements and not ctx.violations and not ctx.known_hits:
        c, m, x, y, d = min(disagreements, key=lambda t: len(S.jdump(t[0])))
        ctx.violation("model and implementation disagree (correspondence Registry.WriteOutputs/LoadOutputs vs GrogModel.Tree) on: " + ",".join(d),
                      {"kind": "correspondence", "correspondence": "store.roundtrip vs GrogModel.Tree (writeDir/restoreDir/writeFile/restoreFile/validateOutputs)",
                       "fields": d, "request": c, "meta": m, "impl": x, "model": y, "n_disagreements": len(disagreements)}, found_input=False)


def two_tier_restores(ctx, scratch, dist):
    """restores through the real RemoteWrapper (two-tier cache): a directory sits where a file output should be, then the same digest is
    restored again; reads failing mid-stream; consumers that stop early. Oracle: successful restores are byte-identical, the local caches
    only hold entries that match their digests."""
    from . import c08
    hs = [h for h in c08.systematic_histories(ctx.rng, False) if h[3].split(":")[1] in ("blocked-restore", "peek-restore")]
    hs = (hs if ctx.tier != "quick" else hs[::3] + [h for h in hs if h[3].endswith(":none")])
    hs = [(ws, t, h + [{"m": "Z", "do": "restore", "targets": list(range(len(t)))}], fam) for ws, t, h, fam in hs]
    reqs = [{"op": "store.remote", "scratch": scratch, "ws": ws, "targets": t, "history": h, "remote": ("mem", "s3")[i % 2], "progress": i % 4 < 2, "direct": i % 2 == 0}
            for i, (ws, t, h, _) in enumerate(hs)]
    outs = S.impl(ctx, reqs) or []
    n = 0
    for (ws, t, h, fam), req, x in zip(hs, reqs, outs):
        if "error" in x or "panic" in x:
            ctx.violation("implementation driver failed on a two-tier restore history", {"kind": "impl-crash", "request": req, "impl": x}, signature="driver-error", found_input="panic" in x)
            continue
        n += 1
        for st in x.get("steps") or []:
            for mname, bad in (st.get("local_audit") or {}).items():
                ctx.violation("a failed restore left an entry in the local cache whose content does not match its digest (later restores of that digest are wrong): " + bad[0],
                              {"kind": "oracle", "oracle": "content audit of the local caches after restores", "request": req, "step": st, "family": fam},
                              signature="restore-poisons-local-cache")
            for r in st.get("results") or []:
                if r.get("kind", st["do"]) in ("restore", "restore-blocked") and r["outcome"] == "ok" and not r.get("equal"):
                    ctx.violation("a restore through the two-tier cache produced outputs that differ from what was cached",
                                  {"kind": "oracle", "oracle": "restored == cached (two-tier)", "request": req, "step": st, "family": fam},
                                  signature="two-tier-restore-wrong-content")
    dist["two_tier_histories"] = n


def replay(ctx, rep):
    r = rep.get("request")
    if not r:
        print("nothing to replay in this file (see 'kind')")
        return 0
    r = dict(r, scratch=ctx.scratch("c06"))
    x = S.impl(ctx, [r])[0]
    big = S.has_big(r.get("ws")) or S.has_big(r.get("prior"))
    y = {"note": "multi-MiB case: listing oracle only"} if big else S.model(ctx, [dict(r, prior=S.for_model(r["prior"]))])[0]
    print("impl :", S.jdump({k: v for k, v in x.items() if k not in ("before",)})[:3000])
    print("model:", S.jdump(y)[:3000])
    pkg = split(r["pkg"])
    rc = 0
    for t, oid in outputs_of(r):
        b, a = S.canon(S.get(x.get("before"), pkg + split(oid))), S.canon(S.get(x.get("after"), pkg + split(oid)))
        same = a == b and x.get("load") == "ok"
        print(f"output {oid!r}: load={x.get('load')} restored==cached: {same}")
        if not same and not r.get("drop") and "declared2" not in r:
            rc = 1
    return rc
