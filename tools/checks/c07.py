"""C07 — the cache stays consistent across crashes and storage faults.

Theorem side : GrogModel/Props/C07.lean about GrogModel/FsBackend.lean (fs.Set as temp-file + rename with failing steps and
               kills, any number of concurrent Sets) and GrogModel/Store.lean (CAS + result cache at backend-operation level).
Correspondence: the real Registry.WriteOutputs + TargetResultCache.Write over the real FileSystemCache behind a
               fault-injecting backend wrapper: the i-th backend operation fails, for every i and every fault kind, single and
               repeated, one and two concurrent processes; the recorded backend-operation trace is replayed through
               Store.step (trace inclusion) and the final visible key sets are compared.
Oracle (no model): audit of the cache directory by the Go side alone (every visible cas/<d> re-hashes to d; every
               target/<k> unmarshals and references only present blobs, trees included) after the faulty run and after a
               follow-up build; the follow-up build (fresh process, no faults) restores byte-identical outputs for every
               cached target and rebuilds the others. The real grog process is killed by strace fault injection (SIGKILL on
               syscall entry) at the first openat/write/close/rename touching each cache entry and at the N-th rename / write /
               openat of a reference run (quick: 4 kill points, thorough: all), then audit + real follow-up builds. The real grog
               binary on a cache that lost any single entry (thorough: any pair): the next builds succeed with the clean outputs.
"""
import hashlib, json, os, re, shutil, subprocess, time
from . import _stores as S
from ._stores import F, D, L

PROPERTY = "C07"
LEVEL = "proof"
LEVEL_TEXT = ("Lean 4 theorems: (1) op-level model of FileSystemCache.Set (MkdirAll; CreateTemp; write*; Close; Rename; deferred Remove) with any "
              "number of concurrent Sets, a failure at any step and a kill between any two steps: every visible entry holds the complete content "
              "of a Set issued for that key, hence cas/<d> is content-addressed; (2) CAS + target-result cache as a transition system over backend "
              "operations (processes, exists-memo, faults that store or not, kills with in-flight writes landing or not): content-addressing and "
              "reference closure (target result -> tree -> file blobs) are inductive invariants, from any sound state (recovery). Tied to the code "
              "by trace inclusion of real backend-operation traces under exhaustive single-fault and sampled repeated/concurrent fault plans, "
              "with a Go-side audit of the cache directory and a follow-up build as model-independent oracles.")
LEVEL_NOTE = ("Partial in the sense of DESIGN section 8: durability after power loss (no fsync in the code), torn writes inside one write(2) and "
              "non-POSIX file systems are outside the model; kill points on the real process are those strace can inject (thorough tier). Modelling "
              "assumptions: rename within a directory is atomic; os.CreateTemp never re-uses a name; the content streamed into Set is the content "
              "that was hashed (no concurrent modification of outputs); no deletion from the CAS during a build.")
TECHNIQUE = "Lean 4 invariant proofs over two transition systems + trace-inclusion correspondence under fault enumeration + on-disk audit oracle"
PROP_MODULES = ["GrogModel.Props.C07", "GrogModel.Props.ComposeStores", "GrogModel.Props.ComposeExecStore", "GrogModel.ExecStore"]
OBLIGATIONS = [
    "Grog.C07.visible_is_complete_set",
    "Grog.C07.cas_content_addressed",
    "Grog.C07.store_sound_invariant",
    "Grog.C07.result_refs_present",
    "Grog.C07.recovery",
    "Grog.Compose.recovery_cache_sound",
    "Grog.Compose.recovery_next_build_eq_clean",
    "Grog.Exec.execTarget_cache_eq_reqs",
    "Grog.Exec.completeReqs_order",
    "Grog.Compose.histReqs_sound",
    "Grog.Compose.histEvs_writesSound",
    "Grog.Compose.recovery_cache_sound_of_history",
    "Grog.Compose.recovery_next_build_eq_clean_of_history",
    "Grog.C07.dir_write_is_run",
    "Grog.C07.dir_write_killed_anywhere",
]
ASSUMPTIONS = [
    "rename(2) within one directory is atomic; CreateTemp names are never re-used (trusted base)",
    "a Set into cas/ streams the content whose digest is the key (outputs are not modified while they are cached)",
    "grog does not delete from the CAS during a build (grog clean is out of scope)",
    "durability (fsync) and torn writes are not modelled; strace kill points only in the thorough tier",
]

KINDS = ["err", "err-after", "err-mid"]


workload = S.workload


def fixed_workloads():
    ws = D(("p", D(("o", D(("a", F("1")), ("b", F("2", True)), ("s", D(("c", F("1")))))), ("f.bin", F("1")))))
    t = [{"pkg": "p", "name": "t0", "key": "kA", "outputs": [["dir", "o"]]}, {"pkg": "p", "name": "t1", "key": "kB", "outputs": [["file", "f.bin"]]}]
    # boundary sizes and fan-out: a 70 000 byte file (several io.Copy chunks; err-mid fails in the second half), files of 32768/32769/65537 bytes,
    # 130 small files in one directory (upload goroutines / error channel capacity)
    def pat(nb, salt):
        return "".join(chr((i * 11 + salt) % 251) for i in range(nb))
    big = D(*([("big", F(pat(70000, 1))), ("c32768", F(pat(32768, 2))), ("c32769", F(pat(32769, 3), True)), ("c65537", F(pat(65537, 4)))] +
              [("f%03d" % k, F("v%d" % (k % 9), k % 2 == 0)) for k in range(130)]))
    ws2 = D(("p", D(("wide", big), ("one.bin", F(pat(65536, 5))))))
    t2 = [{"pkg": "p", "name": "t0", "key": "kW", "outputs": [["dir", "wide"]]}, {"pkg": "p", "name": "t1", "key": "kO", "outputs": [["file", "one.bin"]]}]
    return [(ws, t), (ws2, t2)]


def huge_workload():
    """multi-MiB blobs (block-generated): a 5 MiB file output and a directory output with a 4.5 MiB file next to a small one; target
    results and tree blobs stay small, so that size-selective faults (disk full for large files only, a cancellation between two
    chunks of a stream) hit the blobs and not the entries that reference them"""
    MiB = 1 << 20
    ws = D(("p", D(("huge.bin", S.FB([[72, 4 * MiB], [73, MiB + 17]], True)),
                   ("o", D(("large", S.FB([[75, 3 * MiB], [76, MiB], [77, MiB // 2]])), ("s", D(("c", F("2", True)))))))))
    t = [{"pkg": "p", "name": "t0", "key": "kH", "outputs": [["file", "huge.bin"]]}, {"pkg": "p", "name": "t1", "key": "kD", "outputs": [["dir", "o"]]}]
    return ws, t


def trace_oracle(ev, cas_keys, target_keys):
    """model-independent reading of the trace: a target result whose Set returned ok (or was stored) references only blobs
    that are visible at the end; every cas Set carried content hashing to its key"""
    bad = []
    pend = {}
    for e in ev:
        if e["e"] == "sb":
            pend[(e["p"], e["op"])] = e
            if not e["hashOk"]:
                bad.append("Set cas/%s with content that does not hash to the key" % e["k"])
        elif e["e"] == "se" and e["o"] in ("ok", "errStored"):
            b = pend.get((e["p"], e["op"]))
            if b and b["ns"] in ("target", "cas"):
                for r in b["refs"]:
                    if r not in cas_keys:
                        bad.append("%s/%s stored while referenced blob %s is not visible" % (b["ns"], b["k"], r))
    return bad


def check_run(ctx, req, x, tag, stats, replay_reqs):
    """oracles on one faulty run; queues the trace for replay through the model"""
    if "error" in x or "panic" in x:
        ctx.violation("implementation driver failed on a fault plan", {"kind": "impl-crash", "request": req, "impl": x},
                      signature="driver-error", found_input="panic" in x)
        return
    stats["runs"] += 1
    for k in ("audit", "audit_after", "cas_keys", "target_keys", "events", "followup", "outcomes"):
        x[k] = x.get(k) or []           # Go nil slices arrive as null
    x["outcomes"] = [p or [] for p in x["outcomes"]]
    for p in x["outcomes"]:
        for o in p:
            stats["outcome"][o] = stats["outcome"].get(o, 0) + 1
            if o == "hang" and not S.confirm_hang(ctx, req, lambda y: any(oo == "hang" for pp in y.get("outcomes", []) for oo in pp)):
                stats["unconfirmed_stalls"] = stats.get("unconfirmed_stalls", 0) + 1
            elif o == "hang":
                ctx.violation("writing outputs under a backend fault hangs", {"kind": "oracle", "oracle": "terminates", "request": req, "outcomes": x["outcomes"]},
                              signature="write-hangs-under-fault")
    for e in x["events"]:
        stats["events"] += 1
        if e.get("fault"):
            stats["faults_hit"][e["fault"] + ":" + e["e"]] = stats["faults_hit"].get(e["fault"] + ":" + e["e"], 0) + 1
        if e["e"] == "disk-full":
            stats["faults_hit"]["disk-full:%d" % e["limit"]] = stats["faults_hit"].get("disk-full:%d" % e["limit"], 0) + 1
    if x["audit"] or x["audit_after"]:
        ctx.violation("the cache directory is inconsistent after a build with backend faults: " + "; ".join((x["audit"] + x["audit_after"])[:3]),
                      {"kind": "oracle", "oracle": "cache directory audit", "request": req, "audit": x["audit"], "audit_after": x["audit_after"],
                       "outcomes": x["outcomes"], "events": x["events"]}, signature="audit:" + tag)
    tb = trace_oracle(x["events"], set(x["cas_keys"]), set(x["target_keys"]))
    if tb:
        ctx.violation("a stored entry references a blob that is not stored: " + tb[0], {"kind": "oracle", "oracle": "trace: refs visible", "request": req,
                      "problems": tb, "events": x["events"]}, signature="dangling-after-fault:" + tag)
    for f in x["followup"]:
        stats["followup"][f["mode"]] = stats["followup"].get(f["mode"], 0) + 1
        if not f["ok"] or not f["equal"]:
            ctx.violation("the build after a faulty build does not recover: target %s %s failed or restored different content (%s)" % (f["target"], f["mode"], f.get("msg", "")),
                          {"kind": "oracle", "oracle": "follow-up build recovers", "request": req, "followup": x["followup"], "events": x["events"]},
                          signature="followup-%s-fails:%s" % (f["mode"], tag))
    ev = [e for e in x["events"] if e["e"] in ("exists", "get", "sb", "se") and e.get("ns", "cas") in ("cas", "target")]
    keys = sorted({("cas", k) for k in x["cas_keys"]} | {("target", k) for k in x["target_keys"]} |
                  {(e["ns"], e["k"]) for e in ev if "k" in e})
    replay_reqs.append(({"op": "store.replay", "events": ev, "query": [list(k) for k in keys]}, req, x, keys))


def run(ctx):
    quick = ctx.tier == "quick"
    scratch = ctx.scratch("c07")
    stats = {"runs": 0, "events": 0, "outcome": {}, "faults_hit": {}, "followup": {}, "ops_per_reference_run": [], "concurrent_runs": 0, "unlocked_runs": 0}
    replay_reqs = []
    loads = fixed_workloads() + [workload(ctx.rng, k) for k in range(2 if quick else 25)]
    huge_index = len(loads)
    loads.append(huge_workload())
    distinct = set()
    all_reqs = []
    for wi, (ws, targets) in enumerate(loads):
        base = {"op": "store.faults", "scratch": scratch, "ws": ws, "targets": targets, "procs": 1, "lock": True, "plans": []}
        ref = S.impl(ctx, [base])
        if ref is None:
            return
        ref = ref[0]
        check_run(ctx, base, ref, "reference", stats, replay_reqs)
        if "events" not in ref:
            continue
        nops = max([e.get("n", e.get("op", 0)) for e in ref["events"]] + [0])
        stats["ops_per_reference_run"].append(nops)
        reqs = []
        # every single fault; the number of operations can grow after a fault (Exists fails -> Set is tried), so go a bit beyond
        # (large workloads: a stride through the operations in the quick tier, every operation in the thorough tier)
        stride = 1 if (nops <= 60 or not quick) else max(1, nops // 12)
        huge = wi == huge_index
        for j, i in enumerate(list(range(1, nops + 3, stride)) + ([nops, nops + 1] if stride > 1 else [])):
            for kind in (["cancel", "err-mid"] if huge else KINDS + (["cancel"] if stride == 1 or j % 2 == 0 else [])):
                # "cancel": the build is cancelled (ctrl-c, --fail-fast) at the i-th operation, in the middle of the stream of a Set
                reqs.append((dict(base, plans=[{"plan": {str(i): kind}}]), "single:" + kind))
        # the disk fills up at the i-th operation: from then on no file of the process can grow beyond L bytes (write(2) stores what
        # fits and fails) — for writes through a temp file nothing becomes visible; an in-place write would leave a truncated entry
        for i in range(1, nops + 1, 1 if (nops <= 30 or not quick) else max(1, nops // 10)):
            # limits between the sizes of the entries: small entries (target results, trees) still fit while blobs do not
            for lim in ((4096, 1 << 20)[i % 2:][:1] if huge and quick else (4096, 1 << 20) if huge else ((0, (64, 4096)[i % 2]) if quick else (0, 1, 64, 3000, 4096, 40000))):
                reqs.append((dict(base, plans=[{"plan": {str(i): "fsize:%d" % lim}}]), "disk-full"))
        # repeated faults: everything from the i-th operation on fails; two and three scattered faults
        for i in ([] if huge else range(1, nops + 1, 1 if not quick else max(1, nops // 4))):
            for kind in KINDS:
                reqs.append((dict(base, plans=[{"every": kind, "from": i}]), "from:" + kind))
        for _ in range(0 if huge else (6 if quick else 60)):
            idx = ctx.rng.sample(range(1, nops + 2), min(nops, ctx.rng.choice([2, 3])))
            reqs.append((dict(base, plans=[{"plan": {str(i): ctx.rng.choice(KINDS) for i in idx}}]), "multi"))
        # two concurrent processes writing the same content (same digests, same target keys), with faults
        for _ in range(0 if huge else (6 if quick else 60)):
            plans = [{"plan": {str(ctx.rng.randint(1, nops + 1)): ctx.rng.choice(KINDS) for _ in range(ctx.rng.choice([0, 1, 2]))}} for _ in range(2)]
            reqs.append((dict(base, procs=2, plans=plans), "concurrent"))
        for _ in range(0 if huge else (4 if quick else 30)):
            plans = [{"plan": {str(ctx.rng.randint(1, nops + 1)): ctx.rng.choice(KINDS) for _ in range(ctx.rng.choice([0, 1]))}} for _ in range(3)]
            reqs.append((dict(base, procs=3, lock=False, plans=plans), "concurrent-unlocked"))
        # every second run with a ProgressTracker: the handlers then hand wrapped (non-seekable) readers to Cas.Write
        reqs = [(dict(r, progress=(j % 2 == 0)), tag) for j, (r, tag) in enumerate(reqs)]
        t0 = time.time()
        outs = S.impl(ctx, [r for r, _ in reqs])
        stats.setdefault("seconds_per_workload", []).append([len(reqs), round(time.time() - t0, 1)])
        for (r, tag), x in zip(reqs, outs):
            all_reqs.append(r)
            if tag.startswith("concurrent"):
                stats["concurrent_runs"] += 1
            if tag == "concurrent-unlocked":
                stats["unlocked_runs"] += 1
                n0 = len(replay_reqs)
                check_run(ctx, r, x, tag, stats, replay_reqs)
                del replay_reqs[n0:]        # without the per-key lock the logged order is not the order of effects: oracle only
            else:
                check_run(ctx, r, x, tag, stats, replay_reqs)
            if "events" in x and any(e.get("fault") or e["e"] == "disk-full" for e in x["events"]):
                distinct.add(hashlib.sha1(S.jdump([wi, r["plans"], r["procs"], r.get("progress")]).encode()).hexdigest())
    t0 = time.time()
    remote_read_faults(ctx, scratch, stats)
    stats["seconds_remote_read_faults"] = round(time.time() - t0, 1)
    # --- trace inclusion -------------------------------------------------------------------------
    rejected = []
    state_diffs = []
    outs = S.model(ctx, [r for r, _, _, _ in replay_reqs])
    for (rr, req, x, keys), y in zip(replay_reqs, outs):
        if "error" in y:
            rejected.append((req, x, y, rr))
            continue
        if not y["accepted"]:
            rejected.append((req, x, y, rr))
            continue
        vis_impl = [(k in x["cas_keys"]) if ns == "cas" else (k in x["target_keys"]) for ns, k in keys]
        if vis_impl != y["visible"]:
            state_diffs.append((req, x, y, rr))
    ctx.coverage["evaluations"] = stats["runs"]
    ctx.coverage["traces_validated_against_impl"] = len(replay_reqs)
    ctx.coverage["distinct_nontrivial"] = len(distinct)
    ctx.coverage["rule"] = ("workloads of 1-3 targets (directory and file outputs sharing contents and sub-directories); per workload: reference run, every "
                            "single fault (i-th backend operation x {err, err-after = stored but error returned, err-mid = reader fails half way}), "
                            "the build context cancelled at the i-th operation (before an Exists, half way through the stream of a Set), disk full at the i-th operation (RLIMIT_FSIZE 0/64/4096 bytes, 4096 bytes/1 MiB on a workload with 5 MiB blobs: writes store what fits and fail, small entries still fit), everything-fails-from-i, 2-3 scattered faults, remote read-fault histories (mid-stream failure / early close, then a second read; local cache content audit), one-tier histories (a blob only in the remote tier: other machine / lost local tier / local disk full; only in the local tier: remote Set failing late / after storing / half way; then the next builds; through the real S3Cache over a fake client and through the backend GetCacheBackend constructs over an in-process S3 endpoint; remote-tier closure audit after every step, fault-free builds must succeed), two concurrent processes with faults (per-key serialised wrapper: replayed), three "
                            "concurrent processes without the wrapper lock (audit only); after every run: Go-side audit, follow-up build, audit; the real grog binary on a cache from which each single entry was deleted in turn (thorough: pairs) must rebuild to the clean outputs; non-trivial = "
                            "distinct (workload, fault plan) in which at least one injected fault was actually hit")
    ctx.coverage["distribution"] = stats
    ctx.coverage["trace_events_replayed"] = sum(len(rr["events"]) for rr, _, _, _ in replay_reqs)
    ctx.coverage["rejected_traces"] = len(rejected)
    ctx.coverage["final_state_differences"] = len(state_diffs)
    for rr, req, x, keys in replay_reqs[5:8]:
        ctx.sample({"plans": req["plans"], "procs": req["procs"], "outcomes": x["outcomes"],
                    "events": [{k: (v if k != "refs" else len(v)) for k, v in e.items()} for e in rr["events"][:14]], "n_events": len(rr["events"])}, limit=3)
    if (rejected or state_diffs) and not ctx.violations:
        req, x, y, rr = (rejected or state_diffs)[0]
        at = y.get("at", -1)
        ctx.violation("a real backend-operation trace is not a run of the model (trace inclusion Store.step)" if rejected else
                      "final visible keys differ between the cache directory and the model after replay",
                      {"kind": "correspondence", "correspondence": "backend-operation traces of Registry.WriteOutputs + TargetResultCache.Write vs GrogModel.Store.step",
                       "request": req, "model": y, "rejected_event": rr["events"][at] if 0 <= at < len(rr["events"]) else None,
                       "events": rr["events"], "n_rejected": len(rejected), "n_state_diffs": len(state_diffs)}, found_input=False)
    t0 = time.time()
    strace_kills(ctx, stats)
    stats["seconds_strace_kills"] = round(time.time() - t0, 1)
    t0 = time.time()
    cache_losses(ctx, stats)
    stats["seconds_lost_entries"] = round(time.time() - t0, 1)


def one_tier_histories(rng, quick):
    """histories in which a blob ends up in one tier only and the next build has to store the target's outputs again"""
    from . import c08
    wss, ts = c08.small_workload()
    out = []
    for tg in ([0, 2, 4],) if quick else ([0, 2, 4], [1, 3, 5], [4], [2]):
        b = {"m": "A", "do": "build", "targets": tg}
        # remote-only: another machine builds the same targets; the local tier is lost (with / without the local results); a local write
        # that fails (disk full beyond L bytes) while the upload may go through, then the next build
        out.append((wss, ts, [b, {"m": "B", "do": "build", "targets": tg}, {"m": "B", "do": "build", "targets": tg}], "one-tier:remote-only:other-machine"))
        for lose in ("lose-local", "lose-local-cas"):
            out.append((wss, ts, [b, {"m": "A", "do": "mixed", "ops": [[lose, t] for t in tg] + [["build", t] for t in tg]}, dict(b)], "one-tier:remote-only:" + lose))
            out.append((wss, ts, [b, {"m": "A", "do": "mixed", "ops": [[lose, t] for t in tg]}, dict(b), dict(b)], "one-tier:remote-only:" + lose + "-next-process"))
        for lim in (0, 100, 40000):
            out.append((wss, ts, [dict(b, faults=[{"op": "fsize", "nth": lim}]), dict(b), dict(b)], "one-tier:remote-only:disk-full"))
        # local-only: the remote write fails after the stream was sent (err-late: nothing stored remotely; err-after: stored, error returned),
        # for the first / second / every blob resp. result, then the next builds
        for ns in ("cas", "target"):
            for kind in ("err-late", "err-after", "err-mid"):
                for nth in (1, 2, 0):
                    if quick and (kind == "err-mid" or nth == 2) and ns == "target":
                        continue
                    out.append((wss, ts, [dict(b, faults=[{"op": "set", "ns": ns, "nth": nth, "kind": kind}]), dict(b), {"m": "B", "do": "restore", "targets": tg}],
                                "one-tier:local-only:%s:%s" % (ns, kind)))
    return out


def remote_read_faults(ctx, scratch, stats):
    """a cache READ fails: remote reads failing in the middle of a blob / consumers that stop early, then a second read of the same key,
    through the real RemoteWrapper (harness of C08); oracle: content audit of every local cache, successful restores are byte-identical"""
    from . import c08
    hs = [h for h in c08.fixed_histories() if h[3].startswith(("fixed-midstream", "fixed-retry-same-key", "fixed-flat-get-faults", "fixed-5"))]
    # storage faults of a two-tier cache: every write-side / read-side fault cell (remote op x failure point x repetition, local disk full)
    # through a fresh build, a broken source stream and a restore (quick: every second one)
    sysh = [h for h in c08.systematic_histories(ctx.rng, False) if h[3].split(":")[1] in ("fresh-build", "broken-source", "restore", "huge")]
    hs += sysh if ctx.tier != "quick" else sysh[::2]
    hs = [(ws, t, h + [{"m": "Z", "do": "restore", "targets": list(range(len(t)))}], fam) for ws, t, h, fam in hs]
    reqs = [{"op": "store.remote", "scratch": scratch, "ws": ws, "targets": t, "history": h, "remote": ("mem", "s3")[i % 2], "progress": i % 4 < 2, "direct": True}
            for i, (ws, t, h, _) in enumerate(hs)]
    # what a kill or a write fault leaves behind in ONE of the two tiers, then the next build (which has to store the outputs again):
    # blobs only in the remote tier (a kill after the upload and before the local rename, a local write that failed while the
    # upload went through, a lost local entry / grog clean, another machine), blobs only in the local tier (the remote write failed
    # after the stream was sent, a kill during the upload). Through the real S3Cache over the in-memory S3 client and through the
    # backend backends.GetCacheBackend constructs from an S3 configuration (real AWS SDK client, in-process S3 endpoint).
    th = one_tier_histories(ctx.rng, ctx.tier == "quick")
    for i, (ws, t, h, fam) in enumerate(th):
        h = h + [{"m": "Z", "do": "restore", "targets": list(range(len(t)))}]
        for mode in ({"remote": "s3", "direct": i % 2 == 0}, {"construct": "config"}):
            hs.append((ws, t, h, fam))
            reqs.append(dict({"op": "store.remote", "scratch": scratch, "ws": ws, "targets": t, "history": h, "progress": i % 2 == 0}, **mode))
    outs = S.impl(ctx, reqs) or []
    n = 0
    for (ws, t, h, fam), req, x in zip(hs, reqs, outs):
        if "error" in x or "panic" in x:
            ctx.violation("implementation driver failed on a read-fault history", {"kind": "impl-crash", "request": req, "impl": x}, signature="driver-error", found_input="panic" in x)
            continue
        n += 1
        for si, st in enumerate(x.get("steps") or []):
            for mname, bad in (st.get("local_audit") or {}).items():
                ctx.violation("after a failed cache read the local cache of machine %s exposes an entry whose content does not match its key: %s" % (mname, bad[0]),
                              {"kind": "oracle", "oracle": "content audit of the local caches after read faults", "request": req, "step": st, "family": fam},
                              signature="read-fault-leaves-corrupt-entry")
            for bad in [d for d in (st.get("dangling") or []) if "does not hash" not in d][:1]:
                ctx.violation("after a storage fault and the builds that followed, the remote tier exposes a target result that references a blob the remote tier does not hold: " + bad,
                              {"kind": "oracle", "oracle": "closure audit of the remote tier after every step", "request": req, "step": st, "family": fam},
                              signature="remote-result-without-blob-after-fault")
            if st.get("do") in ("build", "mixed") and si < len(h) and not h[si].get("faults"):
                for r in st.get("results") or []:
                    if r.get("kind", st["do"]) == "build" and r["outcome"] == "err":
                        ctx.violation("a build without any fault cannot store its outputs after an earlier storage fault / loss left a blob in one tier only (what was lost must be stored again)",
                                      {"kind": "oracle", "oracle": "the next build succeeds", "request": req, "step": st, "family": fam},
                                      signature="build-fails-after-one-tier-loss")
            for bad in [d for d in (st.get("dangling") or []) if "does not hash" in d]:
                ctx.violation("after a storage fault the remote tier exposes an object whose content does not match its digest: " + bad,
                              {"kind": "oracle", "oracle": "content audit of the remote tier after faults", "request": req, "step": st, "family": fam},
                              signature="fault-leaves-corrupt-remote-entry")
            for r in st.get("results") or []:
                if r.get("kind", st["do"]) == "rawset" and r["outcome"] == "ok":
                    ctx.violation("a Set whose source stream failed in the middle reported success", {"kind": "oracle", "oracle": "broken source => error",
                                  "request": req, "step": st, "family": fam}, signature="broken-source-set-ok")
                if r.get("kind", st["do"]) == "restore" and r["outcome"] == "ok" and not r.get("equal"):
                    ctx.violation("a restore after a failed cache read produced content that differs from what was cached",
                                  {"kind": "oracle", "oracle": "restored == cached after read faults", "request": req, "step": st, "family": fam},
                                  signature="read-fault-restores-corrupt-data")
                if r["outcome"] == "hang" and S.confirm_hang(ctx, req, lambda o: any(rr.get("outcome") == "hang" for ss in o.get("steps") or [] for rr in ss.get("results") or [])):
                    ctx.violation("a cache read after a failed cache read hangs", {"kind": "oracle", "oracle": "no hang", "request": req, "step": st, "family": fam},
                                  signature="read-fault-hang")
    stats["remote_read_fault_histories"] = n
    stats["runs"] += n
    ctx.coverage["evaluations"] = ctx.coverage.get("evaluations", 0)


# --------------------------------------------------------------------------------------------------
# thorough tier: kill the real grog process at the N-th syscall of a reference run
# --------------------------------------------------------------------------------------------------

def make_workspace(root):
    os.makedirs(os.path.join(root, "pkg"), exist_ok=True)
    with open(os.path.join(root, "grog.toml"), "w") as fh:
        fh.write("")
    with open(os.path.join(root, "pkg", "in.txt"), "w") as fh:
        fh.write("input\n")
    build = {"targets": [
        {"name": "a", "command": "rm -rf out tool && mkdir -p out/sub && cp in.txt out/a.txt && printf x > out/sub/b && printf x > out/sub/c && ln -s a.txt out/l && printf '#!/bin/sh\\n' > tool && chmod +x tool",
         "inputs": ["in.txt"], "outputs": ["dir::out", "tool"]},
        {"name": "b", "command": "cat out/a.txt out/sub/b > b.txt", "dependencies": [":a"], "outputs": ["b.txt"]},
    ]}
    with open(os.path.join(root, "pkg", "BUILD.json"), "w") as fh:
        json.dump(build, fh)


def snapshot(root):
    out = {}
    for dp, dn, fn in os.walk(os.path.join(root, "pkg")):
        for f in fn:
            p = os.path.join(dp, f)
            rel = os.path.relpath(p, root)
            if os.path.islink(p):
                out[rel] = ("l", os.readlink(p))
            else:
                out[rel] = ("f", open(p, "rb").read().decode("latin-1"), bool(os.stat(p).st_mode & 0o111))
    return out


def strace_kills(ctx, stats):
    """kill the real grog process (SIGKILL on syscall entry, injected by strace) (a) at the first openat / write / close / rename that
    touches each entry of the cache directory, for every entry a reference build creates (`strace -P <entry>`), and (b) at the N-th
    rename / write / openat of any thread for N over the counts of a reference run; after each kill: Go-side audit of what is left, then a
    real follow-up build that must succeed with the clean-build outputs, then a build after deleting the outputs (every target is
    restored from the cache: a corrupt entry would surface as wrong output content)."""
    grog = ctx.grog_binary()
    if not grog or not shutil.which("strace"):
        ctx.notes.append("strace kill points skipped (grog binary or strace unavailable)")
        return
    base = ctx.scratch("c07-strace")
    env = dict(os.environ, GROG_DISABLE_NON_DETERMINISTIC_LOGGING="true")

    def fresh(name):
        d = os.path.join(base, name)
        shutil.rmtree(d, ignore_errors=True)
        ws = os.path.join(d, "ws")
        make_workspace(ws)
        return d, ws, dict(env, GROG_ROOT=os.path.join(d, "root"), HOME=d)

    def cache_entries(root):
        out = []
        for dp, dn, fn in os.walk(root):
            if os.path.basename(os.path.dirname(dp)) == "cache" and os.path.basename(dp) in ("cas", "target"):
                out += [os.path.join(dp, f) for f in fn if not f.startswith("tmp-")]
        return sorted(out)

    # reference run in the directory all kill runs use (same workspace path => same cache paths and keys)
    d, ws, e = fresh("k")
    log = os.path.join(base, "strace.log")
    p = subprocess.run(["strace", "-f", "-e", "trace=renameat2,openat,write,renameat,rename,close", "-o", log, grog, "build", "//..."], cwd=ws, env=e,
                       capture_output=True, text=True, timeout=120)
    if p.returncode != 0:
        ctx.notes.append("strace reference build failed: " + (p.stdout + p.stderr)[-400:])
        return
    expected = snapshot(ws)
    entries = cache_entries(e["GROG_ROOT"])
    counts = {}
    for line in open(log, errors="replace"):
        m = re.match(r"\d+\s+(\w+)\(", line)
        if m:
            counts[m.group(1)] = counts.get(m.group(1), 0) + 1
    stats["strace_reference_counts"] = counts
    stats["strace_cache_entries"] = len(entries)
    kills = [("path", sc, ent) for ent in entries for sc in ("openat", "write", "close", "renameat", "renameat2")]
    for sc in ("renameat2", "renameat", "rename", "write", "openat"):
        n = counts.get(sc, 0)
        step = 1 if sc.startswith("rename") else (2 if sc == "write" else max(1, n // 20))
        kills += [("nth", sc, k) for k in range(1, n + 1, step)]
    if ctx.tier == "quick":
        # a small sample: first write and first rename on one blob and on one target result
        pick = [ent for ent in entries if "/cas/" in ent][:1] + [ent for ent in entries if "/target/" in ent][:1]
        kills = [("path", sc, ent) for ent in pick for sc in ("write", "renameat")]
    done = effective = 0
    for mode, sc, arg in kills:
        d, ws, e = fresh("k")
        cmd = ["strace", "-f", "-o", "/dev/null", "-e", "trace=" + sc, "-e", f"inject={sc}:signal=KILL:when={1 if mode == 'path' else arg}"]
        if mode == "path":
            cmd += ["-P", arg]
        r = subprocess.run(cmd + [grog, "build", "//..."], cwd=ws, env=e, capture_output=True, text=True, timeout=120)
        effective += 1 if r.returncode != 0 else 0
        where = ("first %s on %s" % (sc, "/".join(arg.split("/")[-2:]))) if mode == "path" else ("%d-th %s" % (arg, sc))
        for dp, dn, _ in os.walk(e["GROG_ROOT"]):
            if "cache" in dn:
                a = S.impl(ctx, [{"op": "store.audit", "cache": os.path.join(dp, "cache")}])[0]
                if a.get("audit"):
                    ctx.violation("cache directory inconsistent after killing grog at the %s: %s" % (where, "; ".join(a["audit"][:3])),
                                  {"kind": "oracle", "oracle": "audit after kill", "mode": mode, "syscall": sc, "at": arg, "audit": a["audit"]}, signature="audit-after-kill")
        # stale lock files are C10's subject: remove them, then the follow-up build must succeed and give the clean-build outputs
        for dp, dn, fn in os.walk(e["GROG_ROOT"]):
            for f in fn:
                if "lock" in f:
                    os.remove(os.path.join(dp, f))
        for phase in ("follow-up build", "build after deleting the outputs"):
            if phase != "follow-up build":
                shutil.rmtree(os.path.join(ws, "pkg", "out"), ignore_errors=True)
                for f in ("tool", "b.txt"):
                    if os.path.exists(os.path.join(ws, "pkg", f)):
                        os.remove(os.path.join(ws, "pkg", f))
            q = subprocess.run([grog, "build", "//..."], cwd=ws, env=e, capture_output=True, text=True, timeout=120)
            got = snapshot(ws) if q.returncode == 0 else None
            if q.returncode != 0 or got != expected:
                ctx.violation("the %s after killing grog at the %s fails or produces different outputs" % (phase, where),
                              {"kind": "oracle", "oracle": phase + " after kill", "mode": mode, "syscall": sc, "at": arg, "rc": q.returncode,
                               "output": (q.stdout + q.stderr)[-1500:],
                               "differs": sorted(k for k in set(expected) | set(got or {}) if expected.get(k) != (got or {}).get(k))[:10]},
                              signature="followup-after-kill")
                break
        done += 1
    stats["strace_kill_runs"] = done
    stats["strace_kills_that_ended_the_build"] = effective
    ctx.coverage["evaluations"] += done


def cache_losses(ctx, stats):
    """the real grog binary on a cache that lost entries: after a reference build every single entry of the cache directory (each
    file blob of a directory output, the tree blob, each file-output blob, each target result) is deleted in turn (thorough: also
    pairs), the outputs are removed from the workspace, and the next build must succeed with the clean-build outputs (re-executing
    what was lost); the build after that (outputs removed again) must again succeed with the same outputs, and the cache directory
    must pass the audit."""
    grog = ctx.grog_binary()
    if not grog:
        ctx.notes.append("lost-entry builds skipped (grog binary unavailable)")
        return
    base = ctx.scratch("c07-loss")
    d = os.path.join(base, "l")
    shutil.rmtree(d, ignore_errors=True)
    ws = os.path.join(d, "ws")
    make_workspace(ws)
    root = os.path.join(d, "root")
    e = dict(os.environ, GROG_DISABLE_NON_DETERMINISTIC_LOGGING="true", GROG_ROOT=root, HOME=d)
    p = subprocess.run([grog, "build", "//..."], cwd=ws, env=e, capture_output=True, text=True, timeout=120)
    if p.returncode != 0:
        ctx.notes.append("lost-entry reference build failed: " + (p.stdout + p.stderr)[-400:])
        return
    expected = snapshot(ws)
    entries = []
    for dp, dn, fn in os.walk(root):
        if os.path.basename(os.path.dirname(dp)) == "cache" and os.path.basename(dp) in ("cas", "target"):
            entries += [os.path.relpath(os.path.join(dp, f), root) for f in fn if not f.startswith("tmp-")]
    entries.sort()
    pristine = os.path.join(d, "pristine")
    shutil.copytree(root, pristine, symlinks=True)
    losses = [(x,) for x in entries]
    if ctx.tier != "quick":
        losses += [(x, y) for i, x in enumerate(entries) for y in entries[i + 1:]]

    def remove_outputs():
        shutil.rmtree(os.path.join(ws, "pkg", "out"), ignore_errors=True)
        for f in ("tool", "b.txt"):
            if os.path.lexists(os.path.join(ws, "pkg", f)):
                os.remove(os.path.join(ws, "pkg", f))
    done = 0
    for lost in losses:
        shutil.rmtree(root, ignore_errors=True)
        shutil.copytree(pristine, root, symlinks=True)
        for x in lost:
            os.remove(os.path.join(root, x))
        what = " and ".join("/".join(x.split("/")[-2:]) for x in lost)
        for phase in ("build after the loss", "second build after the loss"):
            remove_outputs()
            q = subprocess.run([grog, "build", "//..."], cwd=ws, env=e, capture_output=True, text=True, timeout=120)
            got = snapshot(ws) if q.returncode == 0 else None
            if q.returncode != 0 or got != expected:
                ctx.violation("the %s of cache entry %s fails or produces different outputs (what was lost must be re-executed)" % (phase, what),
                              {"kind": "oracle", "oracle": "build on a cache that lost entries", "lost": list(lost), "phase": phase, "rc": q.returncode,
                               "output": (q.stdout + q.stderr)[-1500:], "workspace": "tools/checks/c07.py make_workspace",
                               "differs": sorted(k for k in set(expected) | set(got or {}) if expected.get(k) != (got or {}).get(k))[:10]},
                              signature="build-after-lost-entry:" + ("+".join(sorted({x.split("/")[-2] for x in lost}))))
                break
            if ctx.tier == "quick" and len(entries) > 4 and done % 3:
                break       # quick: the second build for every third loss only
        for dp, dn, _ in os.walk(root):
            if "cache" in dn:
                a = S.impl(ctx, [{"op": "store.audit", "cache": os.path.join(dp, "cache")}])[0]
                if a.get("audit"):
                    ctx.violation("cache directory inconsistent after the builds that followed the loss of %s: %s" % (what, "; ".join(a["audit"][:3])),
                                  {"kind": "oracle", "oracle": "audit after recovery from a lost entry", "lost": list(lost), "audit": a["audit"]},
                                  signature="audit-after-lost-entry")
        done += 1
    stats["lost_entry_runs"] = done
    stats["lost_entry_cache_entries"] = len(entries)
    ctx.coverage["evaluations"] += done


def replay(ctx, rep):
    r = rep.get("request")
    if not r:
        print("nothing to replay in this file (see 'kind')")
        return 0
    r = dict(r, scratch=ctx.scratch("c07"))
    x = S.impl(ctx, [r])[0]
    print("outcomes:", x.get("outcomes"))
    print("audit   :", x.get("audit"), x.get("audit_after"))
    print("followup:", x.get("followup"))
    ev = [e for e in x.get("events", []) if e["e"] in ("exists", "get", "sb", "se") and e.get("ns", "cas") in ("cas", "target")]
    y = S.model(ctx, [{"op": "store.replay", "events": ev, "query": []}])[0]
    print("model   :", y)
    bad = bool(x.get("audit") or x.get("audit_after")) or any(not f["ok"] or not f["equal"] for f in x.get("followup", [])) or not y.get("accepted")
    return 1 if bad else 0
